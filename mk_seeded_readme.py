#!/usr/bin/env python3
"""Regenerates seeded/README.md from seeded/*/meta.json and seeded/history.json."""
import json,glob,os
hist=json.load(open('seeded/history.json'))
rows=[]
for d in sorted(glob.glob('seeded/*/')):
    name=os.path.basename(d.rstrip('/'))
    m=json.load(open(d+'meta.json'))
    v=m.setdefault('verified_by_harness_author',{})
    if name in hist:
        v['history']=hist[name]
    json.dump(m,open(d+'meta.json','w'),indent=1)
    first='missed' if name in hist and hist[name].startswith('first run: MISSED') else ('caught (after a widening prompted by a description)' if name in hist else 'caught')
    rows.append((name,m['property'],m.get('summary','')[:170].replace('|','/').replace('\n',' '),m.get('needs','')[:170].replace('|','/').replace('\n',' '),first,'yes',(hist.get(name) or '; '.join(v.get('first_violation',[])))[:260].replace('|','/')))
out=["# Seeded property-breaking changes","",
"Each directory holds one change written by an independent sub-agent that saw only the text of the property and a scratch worktree of the repository (nothing from /verif; second-round authors were additionally told in one sentence what the first-round change for their property was, so that they would write a different one): `patch.diff`, the author's demonstration (fails with the change, passes without), and `meta.json` (what it breaks, what it needs to manifest, what was run to confirm it). Every change compiles and passes the repository's own suite; every demonstration was re-run by the harness author with and without the change. `./seedtest.sh <patch> <Cxx>` applies one to /repo, runs the suite and the check, and restores /repo.","",
"| seed | property | change | needs | first run | caught now | by (clause) / history |","|---|---|---|---|---|---|---|"]
for r in rows: out.append("| %s | %s | %s | %s | %s | %s | %s |" % r)
n=len(rows); missed=sum(1 for r in rows if r[4]=='missed')
out+=["",f"{n} changes in four rounds, {missed} missed by the version of the checks they were first run against. All are caught now except two that need a remark: C08d has no observable effect any more since the genuine defect it relied on was repaired (fix b11b9db, found on the unchanged tree by the very widening that C08d prompted), and C05d (overlapping parses) is caught by the concurrency check C17, not by the sequential C05. Rounds 1-3: every miss was a gap in an alphabet. Round 4 (authors were told what the three earlier changes for their property were and asked for something that needs a specific environment, history, size relation or value class): 16 of 20 were missed on the first run; 13 were alphabet gaps (environment: local time zone; value classes: empty non-nil maps, near-misses of valid values, strings that coincide under a normalisation, printf verbs, purls with qualifiers and subpath, malformed identifier shapes; list shapes: mixed element kinds, four-node containment shapes; histories: live argument lists edited after use, failing calls, stores after a crash; operands one invisible deviation apart), one was an ORACLE gap (C19d: a store that reports success under an injected fault was not required to have stored the document), and one was a SEAM gap (C17d: sync/atomic was outside the scheduler seam and every scenario started after initialisation). Every gap was closed in a general way, never by adding the seed's input; see history.json for each."]
open('seeded/README.md','w').write("\n".join(out)+"\n")
print(n,missed)
