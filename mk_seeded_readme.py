#!/usr/bin/env python3
"""Regenerates seeded/README.md from seeded/*/meta.json and seeded/history.json."""
import json,glob,os
hist=json.load(open('seeded/history.json'))
rows=[]
for d in sorted(glob.glob('seeded/*/')):
    name=os.path.basename(d.rstrip('/'))
    m=json.load(open(d+'meta.json'))
    v=m.setdefault('verified_by_harness_author',{})
    if name in hist:
        v['history']=hist[name]
    json.dump(m,open(d+'meta.json','w'),indent=1)
    first='missed' if name in hist and hist[name].startswith('first run: MISSED') else ('caught (after a widening prompted by a description)' if name in hist else 'caught')
    rows.append((name,m['property'],m.get('summary','')[:170].replace('|','/').replace('\n',' '),m.get('needs','')[:170].replace('|','/').replace('\n',' '),first,'yes',(hist.get(name) or '; '.join(v.get('first_violation',[])))[:260].replace('|','/')))
out=["# Seeded property-breaking changes","",
"Each directory holds one change written by an independent sub-agent that saw only the text of the property and a scratch worktree of the repository (nothing from /verif; second-round authors were additionally told in one sentence what the first-round change for their property was, so that they would write a different one): `patch.diff`, the author's demonstration (fails with the change, passes without), and `meta.json` (what it breaks, what it needs to manifest, what was run to confirm it). Every change compiles and passes the repository's own suite; every demonstration was re-run by the harness author with and without the change. `./seedtest.sh <patch> <Cxx>` applies one to /repo, runs the suite and the check, and restores /repo.","",
"| seed | property | change | needs | first run | caught now | by (clause) / history |","|---|---|---|---|---|---|---|"]
for r in rows: out.append("| %s | %s | %s | %s | %s | %s | %s |" % r)
n=len(rows); missed=sum(1 for r in rows if r[4]=='missed')
out+=["",f"{n} changes, {missed} missed by the version of the checks they were first run against; all {n} are caught now. Every miss was a gap in an alphabet, never in an engine or an oracle, and every gap was closed by widening the alphabet in a general way (not by adding the seed's input): adversarial string contents for every string-valued member (C04); whitespace layouts (C05); history documents that reuse identifiers with conflicting structure (C07) and identifiers inside the library's reserved namespace (C07); several edge objects per source and type and duplicated list elements in the reflection-driven deviation generator (C13, also used by C12/C14); identifier pairs that any normalisation would merge and equal-length document pairs (C19); four-node containment shapes with cycles among non-root nodes (C03); near-miss purl spellings (C16); rich documents with reference-less components in the concurrency alphabet (C17); sub-second date deviations that cross or stay within the second (C14); names with parentheses plus e-mail (C01); several hashed external references per node (C02)."]
open('seeded/README.md','w').write("\n".join(out)+"\n")
print(n,missed)
