#!/usr/bin/env python3
"""Regenerates seeded/README.md from seeded/*/meta.json and seeded/history.json."""
import json,glob,os
hist=json.load(open('seeded/history.json'))
rows=[]
for d in sorted(glob.glob('seeded/*/')):
    name=os.path.basename(d.rstrip('/'))
    m=json.load(open(d+'meta.json'))
    v=m.setdefault('verified_by_harness_author',{})
    if name in hist:
        v['history']=hist[name]
    json.dump(m,open(d+'meta.json','w'),indent=1)
    first='missed' if name in hist and hist[name].startswith('first run: MISSED') else ('caught (after a widening prompted by a description)' if name in hist else 'caught')
    rows.append((name,m['property'],m.get('summary','')[:170].replace('|','/').replace('\n',' '),m.get('needs','')[:170].replace('|','/').replace('\n',' '),first,'yes',(hist.get(name) or '; '.join(v.get('first_violation',[])))[:260].replace('|','/')))
out=["# Seeded property-breaking changes","",
"Each directory holds one change written by an independent sub-agent that saw only the text of the property and a scratch worktree of the repository (nothing from /verif; second-round authors were additionally told in one sentence what the first-round change for their property was, so that they would write a different one): `patch.diff`, the author's demonstration (fails with the change, passes without), and `meta.json` (what it breaks, what it needs to manifest, what was run to confirm it). Every change compiles and passes the repository's own suite; every demonstration was re-run by the harness author with and without the change. `./seedtest.sh <patch> <Cxx>` applies one to /repo, runs the suite and the check, and restores /repo.","",
"| seed | property | change | needs | first run | caught now | by (clause) / history |","|---|---|---|---|---|---|---|"]
for r in rows: out.append("| %s | %s | %s | %s | %s | %s | %s |" % r)
n=len(rows); missed=sum(1 for r in rows if r[4]=='missed')
out+=["",f"{n} changes in seven rounds, {missed} missed by the version of the checks they were first run against (`./seed_regress.sh` re-runs them all on scratch copies). All are caught now, with these remarks: C08d has no observable effect any more since the genuine defect it relied on was repaired (fix b11b9db, found on the unchanged tree by the very widening that C08d prompted); C05d, C06e and C16e need overlapping calls and are caught by the concurrency checks C17 / C11, not by the sequential check of their own property. Rounds 1-3: every miss was a gap in an alphabet. Rounds 4 and 5 (authors were told what the earlier changes for their property were and asked for something that needs a specific environment, history, size relation or value class): 16 and 13 of 20 were missed on the first run; in round 6 it was 6 of 20 (plus two that need overlapping calls or a long line and were caught by C11 / C04), in round 7 14 of 20 (one of them because the read-write lock shim did not model writer preference). Most were alphabet gaps again (environment answers: local time zone, working directory, umask; value classes: empty non-nil maps, near-misses of valid values, strings that coincide under a normalisation, printf verbs, undeclared enum numbers, timestamp range corners, spare slice capacity; shapes and sizes: mixed element kinds, four-node containment shapes, 300 and 2000 nodes; histories: live argument lists, failing calls, stores after a crash, one backend value while the directory changes), one was an ORACLE gap (C19d), and three were SEAM gaps: sync/atomic and first-use state outside the scheduler seam (C17d), sync.Pool outside it plus a confirmation rule that discarded true ThreadSanitizer reports (C17e), and - a defect of the harness itself - atomic counters inside the new map-order seam that ordered goroutines for the race detector (found through C16e). One round-5 change (C02e) was caught on its first run only because the map-iteration-order seam had just been added. Every gap was closed in a general way, never by adding the seed's input; see history.json for each."]
open('seeded/README.md','w').write("\n".join(out)+"\n")
print(n,missed)
