#!/usr/bin/env bash
# import_seed.sh <Cxx> <name> '<demo command from the worktree root>' [checks...]
# Verifies the demonstration (fails with the change, passes without), imports the seed into
# /verif/seeded/<name>/ and runs the named checks (default: the property's own) against it.
set -u
id="$1"; name="$2"; demo="$3"; shift 3
checks="${*:-$id}"
wt=${WT_PREFIX:-/tmp/wt-}$id
[ -f $wt/seed/patch.diff ] || { echo "no seed in $wt"; exit 2; }
res=$(/verif/demo_check.sh "$id" "$demo")
echo "$res"
dst=/verif/seeded/$name
mkdir -p $dst
cp $wt/seed/* $dst/ 2>/dev/null
# regenerate the patch relative to the repo root from the worktree itself (excluding seed/)
(cd $wt && git diff -- . ':(exclude)seed') > $dst/patch.diff
out=$(cd /verif && ./seedtest.sh $dst/patch.diff $checks 2>&1)
echo "$out"
python3 - "$dst" "$id" "$demo" "$res" "$out" "$checks" <<'PY'
import json,sys,re
dst,pid,demo,res,out,checks=sys.argv[1:7]
try: meta=json.load(open(dst+'/meta.json'))
except Exception: meta={}
meta['property']=pid
meta['verified_by_harness_author']={
 'demo_command':demo,'demo_result':res.strip(),
 'suite':'passes' if 'SUITE: passes' in out else 'FAILS',
 'checks_run':checks.split(),
 'check_results':[l for l in out.splitlines() if l.startswith('CHECK ')],
 'first_violation':[l.strip() for l in out.splitlines() if l.strip().startswith('clause=')][:3],
}
json.dump(meta,open(dst+'/meta.json','w'),indent=1)
PY
