#!/usr/bin/env bash
# Evaluate one seeded change against the checks:
#   ./seedtest.sh <patch.diff> <Cxx> [more Cxx...]
# Applies the patch to /repo, runs the repository's own suite (must pass), runs the quick check of
# each named property (expects exit 1 + VIOLATION), and always restores /repo.
set -u
patch="$1"; shift
root=${VERIF_ROOT:-/verif}
cd /repo || exit 2
if ! git diff --quiet; then echo "refusing: /repo has uncommitted changes"; exit 2; fi
bak=$(mktemp -d); cp -r "$root/evidence" "$bak/evidence"
trap 'git -C /repo checkout -- . >/dev/null 2>&1; rm -rf "$root/evidence"; cp -r "$bak/evidence" "$root/evidence"; rm -rf "$bak"' EXIT
if ! git apply "$patch"; then echo "PATCH-DOES-NOT-APPLY"; exit 2; fi
export GOFLAGS=-mod=mod GOPROXY=off GOSUMDB=off GOTOOLCHAIN=local
if go build ./... >/tmp/seedtest-build.log 2>&1 && go test -mod=mod -vet=off -count=1 ./... >/tmp/seedtest-suite.log 2>&1; then
  echo "SUITE: passes with the change"
else
  echo "SUITE: FAILS with the change"; tail -15 /tmp/seedtest-suite.log /tmp/seedtest-build.log
fi
cd "$root"
for p in "$@"; do
  tier=${TIER:-quick}
  out=$(./run check "$p" "$tier" 2>&1); rc=$?
  echo "CHECK $p $tier: exit=$rc $(echo "$out" | grep -c '^VIOLATION') violation line(s)"
  echo "$out" | grep -A2 '^VIOLATION' | head -${LINES_SHOWN:-9}
  echo "$out" | tail -1
done
