#!/usr/bin/env bash
# import_seed2.sh <Cxx> <name> '<demo command from the worktree root>' [checks...]
# As import_seed.sh, but touches neither /repo nor the working tree of /verif: the suite runs in the author's worktree
# (which has the change applied) and the checks run from a copy of /verif with VERIF_REPO pointing at that worktree.
set -u
id="$1"; name="$2"; demo="$3"; shift 3
checks="${*:-$id}"
wt=${WT_PREFIX:-/tmp/wt-}$id
[ -f $wt/seed/patch.diff ] || { echo "no seed in $wt"; exit 2; }
res=$(/verif/demo_check.sh "$id" "$demo")
echo "$res"
dst=/verif/seeded/$name
mkdir -p $dst
cp $wt/seed/* $dst/ 2>/dev/null
(cd $wt && git diff -- . ':(exclude)seed') > $dst/patch.diff
export GOFLAGS=-mod=mod GOPROXY=off GOSUMDB=off GOTOOLCHAIN=local
out=""
if (cd $wt && go build ./... && go test -mod=mod -vet=off -count=1 ./... ) >/tmp/import2-$id-suite.log 2>&1 || (cd $wt && go test -mod=mod -vet=off -count=1 ./... ) >/tmp/import2-$id-suite.log 2>&1; then
  out="SUITE: passes with the change"
else
  out="SUITE: FAILS with the change"
fi
snap=/tmp/vsnap-imp-$id
rsync -a --delete --exclude .git /verif/ "$snap/"
for p in $checks; do
  o=$(cd "$snap" && VERIF_REPO="$wt" ./run check "$p" quick 2>&1); rc=$?
  out="$out
CHECK $p quick: exit=$rc $(echo "$o" | grep -c '^VIOLATION') violation line(s)
$(echo "$o" | grep -A2 '^VIOLATION' | head -9)
$(echo "$o" | tail -1)"
done
rm -rf "$snap" /tmp/import2-$id-suite.log
echo "$out"
python3 - "$dst" "$id" "$demo" "$res" "$out" "$checks" <<'PY'
import json,sys,re
dst,pid,demo,res,out,checks=sys.argv[1:7]
try: meta=json.load(open(dst+'/meta.json'))
except Exception: meta={}
meta['property']=pid
meta['verified_by_harness_author']={
 'demo_command':demo,'demo_result':res.strip(),
 'suite':'passes' if 'SUITE: passes' in out else 'FAILS',
 'checks_run':checks.split(),
 'check_results':[l for l in out.splitlines() if l.startswith('CHECK ')],
 'first_violation':[l.strip() for l in out.splitlines() if l.strip().startswith('clause=')][:3],
}
json.dump(meta,open(dst+'/meta.json','w'),indent=1)
PY
