#!/usr/bin/env bash
# demo_check.sh <Cxx> '<command run from the worktree root>'  -> runs with the change (expect failure) and without (expect success)
id="$1"; cmd="$2"
cd ${WT_PREFIX:-/tmp/wt-}$id || exit 2
export GOFLAGS=-mod=mod GOPROXY=off GOSUMDB=off GOTOOLCHAIN=local
bash -c "$cmd" >/tmp/demo-$id-with.log 2>&1; a=$?
git apply -R seed/patch.diff || { echo "cannot reverse patch"; exit 2; }
bash -c "$cmd" >/tmp/demo-$id-without.log 2>&1; b=$?
git apply seed/patch.diff
echo "$id demo: with change exit=$a (want !=0), without change exit=$b (want 0)"
