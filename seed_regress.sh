#!/usr/bin/env bash
# Re-run every seeded change against the check(s) recorded for it: ./seed_regress.sh [name-prefix]
# Prints one line per seed: CAUGHT / MISSED (+ which check). Takes about an hour for all of them.
cd /verif
for d in seeded/${1:-}*/; do
  name=$(basename $d)
  prop=$(python3 -c "import json;print(json.load(open('$d/meta.json'))['property'])")
  checks=$prop
  case $name in C05d-*) checks="C17";; esac
  out=$(./seedtest.sh /verif/$d/patch.diff $checks 2>&1)
  if echo "$out" | grep -q "PATCH-DOES-NOT-APPLY"; then echo "$name: PATCH-DOES-NOT-APPLY"; continue; fi
  suite=$(echo "$out" | grep -c "SUITE: passes")
  if echo "$out" | grep -q "^CHECK .* exit=1"; then echo "$name: CAUGHT by $checks (suite passes=$suite) $(echo "$out" | grep -m1 'clause=')"; else echo "$name: MISSED by $checks (suite passes=$suite)"; fi
done
