#!/usr/bin/env bash
# Re-run every seeded change against the check recorded for it, on a scratch copy of /verif and a scratch
# worktree of /repo (so that /repo and /verif stay usable meanwhile):  ./seed_regress.sh [name-prefix]
# One line per seed: CAUGHT / MISSED. The scratch copies are removed at the end.
set -u
WT=/tmp/regress-repo${TAG:-}; VR=/tmp/regress-verif${TAG:-}
git -C /repo worktree remove --force $WT 2>/dev/null; rm -rf $WT $VR
git -C /repo worktree add --detach $WT HEAD >/dev/null 2>&1 || { echo "cannot create worktree"; exit 2; }
mkdir -p $VR && rsync -a --exclude .git --exclude replays --exclude '.cache/seed_regress.log' /verif/ $VR/
trap 'git -C /repo worktree remove --force $WT >/dev/null 2>&1; git -C /repo worktree prune; rm -rf $VR' EXIT
for d in /verif/seeded/${SEED_GLOB:-${1:-}*}/; do
  name=$(basename $d)
  prop=$(python3 -c "import json;print(json.load(open('$d/meta.json'))['property'])")
  checks=$prop
  # changes that only a sibling check can see (they need concurrency, or were written for it)
  case $name in C05d-*|C06e-*|C04i-*|C02j-*|C03j-*|C18j-*) checks="C17";; C05f-*) checks="C06";; C15f-*|C16e-*) checks="C11";; esac
  if ! git -C $WT apply $d/patch.diff 2>/dev/null; then echo "$name: PATCH-DOES-NOT-APPLY"; continue; fi
  out=$(cd $VR && VERIF_REPO=$WT ./run check $checks quick 2>&1); rc=$?
  git -C $WT checkout -- . ; git -C $WT clean -fdq
  if [ $rc -eq 1 ] && echo "$out" | grep -q '^VIOLATION'; then echo "$name: CAUGHT by $checks $(echo "$out" | grep -m1 'clause=')"; else echo "$name: MISSED by $checks (exit=$rc) $(echo "$out" | tail -1)"; fi
done
