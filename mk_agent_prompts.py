#!/usr/bin/env python3
"""Writes the prompts for one round of independent seeded-change authors: mk_agent_prompts.py <round-prefix e.g. /tmp/w6-> <outdir>
Each author gets the text of one property, its own scratch worktree and one-sentence descriptions of the earlier
changes for that property (so that it writes a different one) - nothing from /verif."""
import json,glob,sys,os
prefix,outdir=sys.argv[1],sys.argv[2]
props={}
for l in open('/verif/properties.jsonl'):
    d=json.loads(l); props[d['id']]=d
T='''You are helping to evaluate a verification harness by producing ONE realistic, subtle, property-breaking change ("seeded defect") to the Go library bom-squad/protobom.

Your private git worktree of the library is at: {wt}   (work ONLY there; do NOT read or use anything under /verif or /repo — your result must be independent of them).

The semantic property you must break:

Property {pid}: {title}

Statement: {statement}

Quantified over: {quant}


Requirements for the change:
1. It must break the property above (make at least one clause of it false for some input / schedule / crash point / history).
2. The library must still compile and the ENTIRE existing test suite must still pass with the change. Run it from the worktree root exactly like this (offline sandbox, so these env vars are required):
     cd {wt} && export GOFLAGS=-mod=mod GOPROXY=off GOSUMDB=off GOTOOLCHAIN=local && go build ./... && go test -mod=mod -vet=off -count=1 ./...
   (Two tests of the suite, TestStore and TestRetrieve, are slightly flaky on their own because their parallel subtests share a fake; if one of them fails once, re-run.)
3. It should look like a plausible edit a developer could make (a refactoring slip, an "optimisation", a forgotten case, a changed default, a shared buffer, a dropped lock, a reordered step, an off-by-one, a wrong comparison, a cache) — not sabotage with an obvious marker — and it should be SMALL (a few lines, at most ~25).
4. It must need something SPECIFIC to manifest, not something ordinary use exposes at once. Think about what an automated checker that enumerates SMALL inputs (2-3 nodes, short strings over a tiny alphabet, one or two operations) would be likely to MISS, and hide the defect there: a particular interleaving, a crash or fault at a particular point, a multi-step sequence of operations, an unusual-but-valid input shape or value class (sizes, counts, characters, orderings, enum corners, nil-versus-empty, aliasing, capacity), an environment condition, or two cooperating sites that each look fine alone. Avoid changes that break every call.
5. Only modify non-test source files of the library (no test files, no go.mod).
6. NEVER use `git stash` (the stash is shared between worktrees and other people work in sibling worktrees). To compare with/without your change use `git apply -R seed/patch.diff` and `git apply seed/patch.diff`.
7. Earlier contributors already produced the changes described below for this property. Produce a DIFFERENT one: another function, another mechanism, another clause of the property, another input class. Prefer a kind of slip and a kind of trigger not yet on the list.
{bullets}
Deliverables (all inside {wt}/seed/, create the directory):
 - patch.diff : output of `git diff -- . ':(exclude)seed'` for your change (from the worktree root).
 - a demonstration that FAILS (non-zero exit) with the change applied and PASSES without it; verify both yourself. NOTE: a plain _test.go or .go file under seed/ is picked up by `go test ./...` and breaks the suite — guard it with a build tag such as `//go:build seeddemo`, and provide seed/run_demo.sh that runs it from the worktree root (copying it into a package directory first if needed and removing the copy afterwards) and exits non-zero on failure.
 - meta.json : {{"property":"{pid}","summary":"one sentence what was changed","needs":"what specific input/sequence/schedule/crash point is needed to manifest","files":["..."],"demo":"sh seed/run_demo.sh","suite_passes":true}}

Leave the change APPLIED in the worktree when you finish (working tree dirty with exactly your change, plus the untracked seed/ directory). In your final answer give: the summary and what it needs to manifest. The default `go` is 1.23 and works offline with the env vars above. Do not try to fetch anything from the network.
'''
os.makedirs(outdir,exist_ok=True)
for pid,p in sorted(props.items()):
    bl=[]
    for d in sorted(glob.glob(f'/verif/seeded/{pid}*/')):
        m=json.load(open(d+'meta.json'))
        if m.get('property')!=pid: continue
        bl.append('   - '+m.get('summary','').strip().replace('\n',' ')[:600]+' (It needed: '+m.get('needs','').strip().replace('\n',' ')[:350]+')')
    q=p.get('quantifier',{}).get('text','')
    open(f'{outdir}/agent-{pid}.txt','w').write(T.format(wt=prefix+pid,pid=pid,title=p['title'],statement=p['statement'],quant=q,bullets='\n'.join(bl)+'\n'))
print('written',len(props))
