package gen

import (
	"fmt"
	"google.golang.org/protobuf/proto"
	"reflect"
	"sort"
	"strings"

	"github.com/protobom/protobom/pkg/sbom"
)

// Spare* rebuild every slice of a value with spare capacity (cap = len + 4), the shape slices have when
// they were grown by appends or decoded: an append into such a slice writes into memory the value owns.

func SpareS(s []string) []string {
	if s == nil {
		return nil
	}
	o := make([]string, len(s), len(s)+4)
	copy(o, s)
	return o
}

func SparePerson(p *sbom.Person) {
	if p != nil && p.Contacts != nil {
		c := make([]*sbom.Person, len(p.Contacts), len(p.Contacts)+4)
		copy(c, p.Contacts)
		p.Contacts = c
		for _, x := range c {
			SparePerson(x)
		}
	}
}

func SpareNode(n *sbom.Node) {
	if n == nil {
		return
	}
	n.Licenses, n.Attribution, n.FileTypes = SpareS(n.Licenses), SpareS(n.Attribution), SpareS(n.FileTypes)
	if n.PrimaryPurpose != nil {
		p := make([]sbom.Purpose, len(n.PrimaryPurpose), len(n.PrimaryPurpose)+4)
		copy(p, n.PrimaryPurpose)
		n.PrimaryPurpose = p
	}
	for _, l := range []*[]*sbom.Person{&n.Suppliers, &n.Originators} {
		if *l != nil {
			p := make([]*sbom.Person, len(*l), len(*l)+4)
			copy(p, *l)
			*l = p
			for _, x := range p {
				SparePerson(x)
			}
		}
	}
	if n.ExternalReferences != nil {
		p := make([]*sbom.ExternalReference, len(n.ExternalReferences), len(n.ExternalReferences)+4)
		copy(p, n.ExternalReferences)
		n.ExternalReferences = p
	}
}

func SpareList(nl *sbom.NodeList) *sbom.NodeList {
	if nl == nil {
		return nil
	}
	ns := make([]*sbom.Node, len(nl.Nodes), len(nl.Nodes)+4)
	copy(ns, nl.Nodes)
	nl.Nodes = ns
	es := make([]*sbom.Edge, len(nl.Edges), len(nl.Edges)+4)
	copy(es, nl.Edges)
	nl.Edges = es
	nl.RootElements = SpareS(nl.RootElements)
	for _, n := range nl.Nodes {
		SpareNode(n)
	}
	for _, e := range nl.Edges {
		e.To = SpareS(e.To)
	}
	return nl
}

// SnapCap is a snapshot of the memory a value owns, including the part of every slice between its length and its
// capacity (which Snap, going through the protobuf reflection API, cannot see): exported fields only, maps sorted,
// pointer cycles cut. An operation that appends into an operand's spare capacity changes this snapshot.
func SnapCap(v any) string {
	var sb strings.Builder
	snapCap(&sb, reflect.ValueOf(v), map[uintptr]bool{}, 0)
	return sb.String()
}

func snapCap(sb *strings.Builder, v reflect.Value, seen map[uintptr]bool, depth int) {
	if depth > 12 {
		sb.WriteString("…")
		return
	}
	switch v.Kind() {
	case reflect.Ptr:
		if v.IsNil() {
			sb.WriteString("nil")
			return
		}
		if seen[v.Pointer()] {
			sb.WriteString("<seen>")
			return
		}
		seen[v.Pointer()] = true
		snapCap(sb, v.Elem(), seen, depth+1)
		delete(seen, v.Pointer())
	case reflect.Struct:
		sb.WriteString("{")
		for i := 0; i < v.NumField(); i++ {
			f := v.Type().Field(i)
			if !f.IsExported() {
				continue
			}
			sb.WriteString(f.Name + "=")
			snapCap(sb, v.Field(i), seen, depth+1)
			sb.WriteString(";")
		}
		sb.WriteString("}")
	case reflect.Slice:
		if v.IsNil() {
			sb.WriteString("nil[]")
			return
		}
		fmt.Fprintf(sb, "[len=%d cap=%d:", v.Len(), v.Cap())
		full := v.Slice(0, v.Cap())
		for i := 0; i < full.Len(); i++ {
			if i == v.Len() {
				sb.WriteString("|spare:")
			}
			snapCap(sb, full.Index(i), seen, depth+1)
			sb.WriteString(",")
		}
		sb.WriteString("]")
	case reflect.Map:
		if v.IsNil() {
			sb.WriteString("nilmap")
			return
		}
		var es []string
		it := v.MapRange()
		for it.Next() {
			var e strings.Builder
			fmt.Fprintf(&e, "%v:", it.Key().Interface())
			snapCap(&e, it.Value(), seen, depth+1)
			es = append(es, e.String())
		}
		sort.Strings(es)
		sb.WriteString("map[" + strings.Join(es, ",") + "]")
	case reflect.Interface:
		if v.IsNil() {
			sb.WriteString("nil")
			return
		}
		snapCap(sb, v.Elem(), seen, depth+1)
	case reflect.String:
		fmt.Fprintf(sb, "%q", v.String())
	default:
		fmt.Fprintf(sb, "%v", v.Interface())
	}
}

// AllocateEmpty replaces every nil slice and nil map field of the message struct (top level) by an allocated,
// empty one - the form constructors (NewNode), copies and results of earlier operations have. Content-wise nothing
// changes; code that asks "is it nil?" instead of "is it empty?" tells the two apart.
func AllocateEmpty(m proto.Message) {
	v := reflect.ValueOf(m)
	if v.Kind() != reflect.Ptr || v.IsNil() {
		return
	}
	s := v.Elem()
	if s.Kind() != reflect.Struct {
		return
	}
	for i := 0; i < s.NumField(); i++ {
		f := s.Field(i)
		if !f.CanSet() {
			continue
		}
		switch f.Kind() {
		case reflect.Slice:
			if f.IsNil() {
				f.Set(reflect.MakeSlice(f.Type(), 0, 0))
			}
		case reflect.Map:
			if f.IsNil() {
				f.Set(reflect.MakeMap(f.Type()))
			}
		}
	}
}
