package gen

import (
	"sort"

	"google.golang.org/protobuf/proto"
	"google.golang.org/protobuf/reflect/protoreflect"
)

// StringSlot is one place in a message where a string value lives.
type StringSlot struct {
	Label string
	Field string // top-level field
	Set   func(root protoreflect.Message, s string)
}

// StringSlots enumerates every string-valued place of base (scalar fields, first element of string lists,
// value of the first key of string-valued maps), recursing into nested messages (first list element) to depth.
func StringSlots(base proto.Message, depth int) []StringSlot {
	var out []StringSlot
	stringSlots(base.ProtoReflect(), nil, depth, &out)
	return out
}

func stringSlots(cur protoreflect.Message, path Path, depth int, out *[]StringSlot) {
	fds := cur.Descriptor().Fields()
	for i := 0; i < fds.Len(); i++ {
		fd := fds.Get(i)
		p := append(Path{}, path...)
		top := string(fd.Name())
		if len(p) > 0 {
			top = string(p[0].FD.Name())
		}
		switch {
		case fd.IsMap():
			if fd.MapValue().Kind() != protoreflect.StringKind || cur.Get(fd).Map().Len() == 0 {
				continue
			}
			var ks []protoreflect.MapKey
			cur.Get(fd).Map().Range(func(k protoreflect.MapKey, _ protoreflect.Value) bool { ks = append(ks, k); return true })
			sort.Slice(ks, func(a, b int) bool { return ks[a].String() < ks[b].String() })
			k0 := ks[0]
			*out = append(*out, StringSlot{Label: p.String() + string(fd.Name()) + "[" + k0.String() + "]", Field: top, Set: func(root protoreflect.Message, s string) {
				Navigate(root, p).Mutable(fd).Map().Set(k0, protoreflect.ValueOfString(s))
			}})
		case fd.IsList():
			if cur.Get(fd).List().Len() == 0 {
				continue
			}
			if fd.Kind() == protoreflect.StringKind {
				*out = append(*out, StringSlot{Label: p.String() + string(fd.Name()) + "[0]", Field: top, Set: func(root protoreflect.Message, s string) {
					Navigate(root, p).Mutable(fd).List().Set(0, protoreflect.ValueOfString(s))
				}})
			} else if fd.Kind() == protoreflect.MessageKind && depth > 0 {
				stringSlots(cur.Get(fd).List().Get(0).Message(), append(p, Step{fd, 0}), depth-1, out)
			}
		case fd.Kind() == protoreflect.StringKind:
			*out = append(*out, StringSlot{Label: p.String() + string(fd.Name()), Field: top, Set: func(root protoreflect.Message, s string) {
				Navigate(root, p).Set(fd, protoreflect.ValueOfString(s))
			}})
		case fd.Kind() == protoreflect.MessageKind && !isTimestamp(fd) && cur.Has(fd) && depth > 0:
			stringSlots(cur.Get(fd).Message(), append(p, Step{fd, -1}), depth-1, out)
		}
	}
}

// NearStrings is a menu of string contents that coincide under some plausible normalisation or
// interpretation (printf verbs, percent escapes, letter case, surrounding or inner blanks, unicode
// composition, numeric reading) although they are different strings.
func NearStrings() []string {
	return []string{
		"v", "V", "v ", " v", "v\t", "v\n",
		"a b", "a  b", "a\tb",
		"dl%2Fpkg", "dl%3Fpkg", "dl%2fpkg", "%s", "%d", "%v", "%%", "%", "100%", "%!s(MISSING)", "% d", "%+d",
		"é", "é",
		"1", "01", "1.0", "+1",
		"a/b", "a//b", "a/b/", "a/./b",
		"x?y#z", "x?y", "x#z",
		// digest-shaped and identifier-shaped values in case variants (a canonicalising writer or reader folds them)
		"deadbeef00", "DEADBEEF00", "DeadBeef00", "0a1b", "0A1b",
		"urn:uuid:3e671687-395b-41f5-a30f-a58921a69b79", "urn:uuid:3E671687-395B-41F5-A30F-A58921A69B79", "URN:UUID:3e671687-395b-41f5-a30f-a58921a69b79",
		"ÄÖ-Ω", "äö-ω",
	}
}

// HostileStrings is a menu of contents each of which some general-purpose parser rejects, or accepts with a result
// that has absent parts (URL, e-mail address, date, number, UUID, percent escape, package URL, CPE, path, regular
// expression, template): code that hands a field to such a parser meets the error path and the nil result here.
func HostileStrings() []string {
	return []string{
		"", " ", "\t\n", "\u0000", "\u007f", "a\u0001b", "\u00e9\u2713\U0001F600", "\xff\xfe",
		"://", "http://", "http://[", "http://[::1", "http://[::1]:namedport", "http://a b/", "http://host/%zz", "%zz", "%", "http://user:pa ss@host/", "1:2:3", ":x", "//host", "http:///path", "http://host:99999999/", "mailto:", "file://", "HTTP://EXAMPLE.COM/A#B#C", "http://example.com/ns#SPDXRef-DOCUMENT", "https://example.com/ns/",
		"a@", "@b", "a@b@c", "<a@b", "\"a b\"@c", "A <a@b.c>, B <d@e.f>",
		"2023-13-45T99:99:99Z", "0000-00-00T00:00:00Z", "2023-11-15", "9999-12-31T23:59:60Z", "-1", "1e999", "0x10", "NaN", "+Inf", "9223372036854775808",
		"urn:uuid:", "urn:uuid:zz", "3e671687-395b-41f5-a30f", "urn:", "urn:x", "{3e671687-395b-41f5-a30f-a58921a69b79}",
		"pkg:", "pkg:/", "pkg:a", "pkg:a/", "pkg:/b", "pkg:a/b@", "pkg:a/b?c", "pkg:a/%zz", "cpe:2.3:", "cpe:/", "cpe:2.3:a:b:c:d:e:f:g:h:i:j:k:l:m", "gitoid:", "gitoid:blob:sha1:",
		"../../etc/passwd", "/", "a/../..", "C:\\x", "a\\b",
		"(", ")", "[", "]", "{{", "}}", "{{.X}}", "$1", "\\", "*", "?", "+",
		"%s%d%v", "%!s(MISSING)", "\"", "'", "<", ">", "&", "a,b", "a;b", "a=b", "a|b",
		"(a AND", "AND", "a OR (b", "a WITH", "LicenseRef-", "NOASSERTION", "NONE",
	}
}
