package gen

import (
	"encoding/json"
	"os"
	"path/filepath"
	"sort"
	"strings"
	"sync"
	"unicode"
)

// The vocabulary of the library's current sources: the build step extracts every string literal of the non-test
// files under pkg/ (cmd/instr --literals) into .cache/literals.json. Value menus derived from it put the words,
// prefixes and separators the code itself knows into the alphabets - including the ones a change has just
// introduced. Nothing is sampled: the menus are finite lists, enumerated completely.

var (
	litOnce             sync.Once
	litAll, litStruct   []string
	LiteralsUnavailable bool
)

func loadLiterals() {
	litOnce.Do(func() {
		b, err := os.ReadFile(filepath.Join(os.Getenv("VERIF_DIR"), ".cache", "literals.json"))
		var d map[string][]string
		if err != nil || json.Unmarshal(b, &d) != nil || len(d["all"]) == 0 {
			LiteralsUnavailable = true
			return
		}
		litAll, litStruct = d["all"], d["structural"]
	})
}

// Literals returns all string literals and the structural ones (searched for, split on, compared against).
func Literals() (all, structural []string) {
	loadLiterals()
	return litAll, litStruct
}

func titleCase(s string) string {
	r := []rune(strings.ToLower(s))
	if len(r) > 0 {
		r[0] = unicode.ToUpper(r[0])
	}
	return string(r)
}

// Vocabulary: every word-like literal of the sources (no format verbs, no struct tags, at most two blanks, <= 24
// bytes) as written and in lower, upper and title case; every structural literal embedded in filler text
// (x+S, S+x, x+S+y).
func Vocabulary() []string {
	all, structural := Literals()
	seen := map[string]bool{}
	var out []string
	add := func(s string) {
		if s != "" && !seen[s] {
			seen[s] = true
			out = append(out, s)
		}
	}
	for _, l := range all {
		if len(l) > 24 || strings.ContainsAny(l, "%\\\"`") || strings.Count(l, " ") > 2 {
			continue
		}
		add(l)
		add(strings.ToLower(l))
		add(strings.ToUpper(l))
		add(titleCase(l))
	}
	for _, s := range structural {
		if len(s) > 12 || strings.ContainsAny(s, "[%\\\"`*") {
			continue
		}
		add("x" + s)
		add(s + "x")
		add("x" + s + "y")
	}
	sort.Strings(out)
	return out
}

// StructuralTokens: the structural literals usable as building blocks (<= 12 bytes, no pattern syntax) plus a filler.
func StructuralTokens() []string {
	_, structural := Literals()
	out := []string{"x"}
	for _, s := range structural {
		if len(s) > 12 || strings.ContainsAny(s, "[%\\\"`*") {
			continue
		}
		out = append(out, s)
	}
	return out
}

// TokenCompositions: every concatenation of 1..max structural tokens (and the filler x) that valid accepts,
// de-duplicated, in a deterministic order. Identifiers and values built this way sit on both sides of every
// prefix / separator / flag test the code makes.
func TokenCompositions(max int, valid func(string) bool) []string {
	toks := StructuralTokens()
	seen := map[string]bool{}
	var out []string
	var rec func(cur string, n int)
	rec = func(cur string, n int) {
		if n > 0 && !seen[cur] && (valid == nil || valid(cur)) {
			seen[cur] = true
			out = append(out, cur)
		}
		if n == max {
			return
		}
		for _, t := range toks {
			rec(cur+t, n+1)
		}
	}
	rec("", 0)
	return out
}

// ReservedID: the identifier namespace the library keeps for itself (identifiers it generated for components
// without reference are erased again on CycloneDX output): "protobom-" followed by flags that include "-auto",
// the flags ending at the first "--".
func ReservedID(id string) bool {
	if !strings.HasPrefix(id, "protobom-") {
		return false
	}
	return strings.Contains(strings.SplitN(id, "--", 2)[0], "-auto")
}

var (
	enumOnce sync.Once
	enums    [][]string
)

// Enumerations: the closed value sets of the SPDX and CycloneDX libraries (cmd/instr --enumerations: const blocks of
// string constants - checksum algorithms, relationship types, component types, reference types, ...).
func Enumerations() [][]string {
	enumOnce.Do(func() {
		b, err := os.ReadFile(filepath.Join(os.Getenv("VERIF_DIR"), ".cache", "enumerations.json"))
		if err != nil || json.Unmarshal(b, &enums) != nil {
			enums = nil
		}
	})
	return enums
}

// EnumerationsOf returns the values of every enumeration v belongs to (compared without regard to case), v excluded.
func EnumerationsOf(v string) []string {
	seen := map[string]bool{v: true}
	var out []string
	for _, e := range Enumerations() {
		in := false
		for _, x := range e {
			if strings.EqualFold(x, v) {
				in = true
				break
			}
		}
		if !in {
			continue
		}
		for _, x := range e {
			if !seen[x] {
				seen[x] = true
				out = append(out, x)
			}
		}
	}
	return out
}
