package gen

import (
	"fmt"
	"sort"
	"strings"

	"google.golang.org/protobuf/proto"
	"google.golang.org/protobuf/reflect/protoreflect"
)

// Step is one navigation step into a nested message.
type Step struct {
	FD  protoreflect.FieldDescriptor
	Idx int // list index, or -1 for a singular message field
}

// Path navigates from a root message to a nested one.
type Path []Step

func (p Path) String() string {
	var sb strings.Builder
	for _, s := range p {
		if s.Idx >= 0 {
			fmt.Fprintf(&sb, "%s[%d].", s.FD.Name(), s.Idx)
		} else {
			fmt.Fprintf(&sb, "%s.", s.FD.Name())
		}
	}
	return sb.String()
}

// Navigate returns the (mutable) nested message at path p.
func Navigate(root protoreflect.Message, p Path) protoreflect.Message {
	m := root
	for _, s := range p {
		if s.Idx >= 0 {
			m = m.Mutable(s.FD).List().Get(s.Idx).Message()
		} else {
			m = m.Mutable(s.FD).Message()
		}
	}
	return m
}

// Deviation is one single-field change of a base message.
type Deviation struct {
	Label string
	// Kind: "dev" (content changes), "perm" (reordering of a set-valued list: content unchanged),
	// "subsec" (date changed below the second: content unchanged at the stated precision).
	Kind   string
	Field  string // top-level field name the deviation lives under
	Mutate func(root protoreflect.Message)
}

// Deviations enumerates every single-field deviation of base, recursing into
// nested messages up to depth levels.
func Deviations(base proto.Message, depth int) []Deviation {
	var out []Deviation
	collect(base.ProtoReflect(), nil, depth, &out)
	return out
}

func isTimestamp(fd protoreflect.FieldDescriptor) bool {
	return fd.Kind() == protoreflect.MessageKind && fd.Message().FullName() == "google.protobuf.Timestamp"
}

func collect(cur protoreflect.Message, path Path, depth int, out *[]Deviation) {
	fds := cur.Descriptor().Fields()
	top := func(fd protoreflect.FieldDescriptor) string {
		if len(path) > 0 {
			return string(path[0].FD.Name())
		}
		return string(fd.Name())
	}
	add := func(fd protoreflect.FieldDescriptor, what, kind string, f func(m protoreflect.Message)) {
		p := append(Path{}, path...)
		*out = append(*out, Deviation{Label: p.String() + string(fd.Name()) + ":" + what, Kind: kind, Field: top(fd), Mutate: func(root protoreflect.Message) { f(Navigate(root, p)) }})
	}
	for i := 0; i < fds.Len(); i++ {
		fd := fds.Get(i)
		switch {
		case fd.IsMap():
			mp := cur.Get(fd).Map()
			var ks []protoreflect.MapKey
			mp.Range(func(k protoreflect.MapKey, _ protoreflect.Value) bool { ks = append(ks, k); return true })
			sort.Slice(ks, func(a, b int) bool { return ks[a].String() < ks[b].String() })
			add(fd, "add-key", "dev", func(m protoreflect.Message) { SetFieldDepth(m, fd, 7, "D", 1) })
			if fd.MapKey().Kind() == protoreflect.Int32Kind && fd.MapValue().Kind() == protoreflect.StringKind {
				// a key outside the enum the map is keyed by, and a negative one
				add(fd, "add-key-undeclared", "dev", func(m protoreflect.Message) {
					m.Mutable(fd).Map().Set(protoreflect.ValueOfInt32(9999).MapKey(), protoreflect.ValueOfString("v-undeclared"))
				})
				add(fd, "add-key-empty-value", "dev", func(m protoreflect.Message) {
					m.Mutable(fd).Map().Set(protoreflect.ValueOfInt32(6).MapKey(), protoreflect.ValueOfString(""))
				})
				add(fd, "add-key-negative", "dev", func(m protoreflect.Message) {
					m.Mutable(fd).Map().Set(protoreflect.ValueOfInt32(-1).MapKey(), protoreflect.ValueOfString("v-negative"))
				})
			}
			if len(ks) > 0 {
				k0 := ks[0]
				add(fd, "delete-key", "dev", func(m protoreflect.Message) { m.Mutable(fd).Map().Clear(k0) })
				add(fd, "clear", "dev", func(m protoreflect.Message) { m.Clear(fd) })
				if fd.MapValue().Kind() == protoreflect.StringKind {
					add(fd, "change-value", "dev", func(m protoreflect.Message) {
						m.Mutable(fd).Map().Set(k0, protoreflect.ValueOfString(m.Get(fd).Map().Get(k0).String()+"-changed"))
					})
					add(fd, "empty-value", "dev", func(m protoreflect.Message) { m.Mutable(fd).Map().Set(k0, protoreflect.ValueOfString("")) })
				}
			}
		case fd.IsList():
			n := cur.Get(fd).List().Len()
			add(fd, "append", "dev", func(m protoreflect.Message) { SetFieldDepth(m, fd, 7, "D", 1) })
			if fd.Kind() == protoreflect.EnumKind {
				add(fd, "append-undeclared", "dev", func(m protoreflect.Message) { m.Mutable(fd).List().Append(protoreflect.ValueOfEnum(9999)) })
			}
			if n > 0 {
				add(fd, "duplicate-elem0", "dev", func(m protoreflect.Message) {
					l := m.Mutable(fd).List()
					v := l.Get(0)
					if fd.Kind() == protoreflect.MessageKind {
						v = protoreflect.ValueOfMessage(proto.Clone(v.Message().Interface()).ProtoReflect())
					}
					l.Append(v)
				})
				if fd.Kind() == protoreflect.MessageKind {
					// the same element object listed twice (pointer aliasing inside one value)
					add(fd, "alias-elem0", "dev", func(m protoreflect.Message) {
						l := m.Mutable(fd).List()
						l.Append(l.Get(0))
					})
				}
				add(fd, "drop-last", "dev", func(m protoreflect.Message) { l := m.Mutable(fd).List(); l.Truncate(l.Len() - 1) })
				add(fd, "clear", "dev", func(m protoreflect.Message) { m.Clear(fd) })
				if fd.Kind() != protoreflect.MessageKind {
					add(fd, "change-elem0", "dev", func(m protoreflect.Message) { m.Mutable(fd).List().Set(0, scalarValue(fd, 8, "D")) })
				} else if depth > 0 {
					collect(cur.Get(fd).List().Get(0).Message(), append(append(Path{}, path...), Step{fd, 0}), depth-1, out)
					if n > 1 {
						// deviation in the last element too (position must not matter)
						collectScalarOnly(cur.Get(fd).List().Get(n-1).Message(), append(append(Path{}, path...), Step{fd, n - 1}), out)
					}
				}
			}
			if n > 1 {
				add(fd, "swap-0-1", "perm", func(m protoreflect.Message) {
					l := m.Mutable(fd).List()
					a, b := l.Get(0), l.Get(1)
					if fd.Kind() == protoreflect.MessageKind {
						ac, bc := proto.Clone(a.Message().Interface()), proto.Clone(b.Message().Interface())
						l.Set(0, protoreflect.ValueOfMessage(bc.ProtoReflect()))
						l.Set(1, protoreflect.ValueOfMessage(ac.ProtoReflect()))
					} else {
						l.Set(0, b)
						l.Set(1, a)
					}
				})
				add(fd, "reverse", "perm", func(m protoreflect.Message) {
					l := m.Mutable(fd).List()
					var vals []protoreflect.Value
					for j := 0; j < l.Len(); j++ {
						v := l.Get(j)
						if fd.Kind() == protoreflect.MessageKind {
							v = protoreflect.ValueOfMessage(proto.Clone(v.Message().Interface()).ProtoReflect())
						}
						vals = append(vals, v)
					}
					for j := range vals {
						l.Set(j, vals[len(vals)-1-j])
					}
				})
			}
		case isTimestamp(fd) && !cur.Has(fd):
			add(fd, "set", "dev", func(m protoreflect.Message) { SetFieldDepth(m, fd, 7, "D", 1) })
		case isTimestamp(fd):
			add(fd, "plus-1s", "dev", func(m protoreflect.Message) {
				ts := m.Mutable(fd).Message()
				sf := ts.Descriptor().Fields().ByName("seconds")
				ts.Set(sf, protoreflect.ValueOfInt64(ts.Get(sf).Int()+1))
			})
			add(fd, "plus-1ns", "subsec", func(m protoreflect.Message) {
				ts := m.Mutable(fd).Message()
				nf := ts.Descriptor().Fields().ByName("nanos")
				ts.Set(nf, protoreflect.ValueOfInt32(int32(ts.Get(nf).Int())+1))
			})
			add(fd, "clear", "dev", func(m protoreflect.Message) { m.Clear(fd) })
			// corners of the value range: Go's zero time (the smallest valid timestamp), the largest valid one, the
			// Unix epoch as an empty-but-present message, one second before the epoch
			for _, ext := range []struct {
				name  string
				s     int64
				nanos int32
			}{{"set-go-zero-time", -62135596800, 0}, {"set-max", 253402300799, 999999999}, {"set-epoch-empty-message", 0, 0}, {"set-minus-1s", -1, 0}} {
				ext := ext
				add(fd, ext.name, "dev", func(m protoreflect.Message) {
					ts := m.Mutable(fd).Message()
					ts.Set(ts.Descriptor().Fields().ByName("seconds"), protoreflect.ValueOfInt64(ext.s))
					ts.Set(ts.Descriptor().Fields().ByName("nanos"), protoreflect.ValueOfInt32(ext.nanos))
				})
			}
			{
				// +200ms / +500ms / +999ms: content changes iff the second changes (dates are compared to the second)
				ts := cur.Get(fd).Message()
				nanos := ts.Get(ts.Descriptor().Fields().ByName("nanos")).Int()
				for _, ms := range []int64{200, 500, 999} {
					ms := ms
					kind := "subsec"
					if nanos+ms*1_000_000 >= 1_000_000_000 {
						kind = "dev"
					}
					add(fd, fmt.Sprintf("plus-%dms", ms), kind, func(m protoreflect.Message) {
						t := m.Mutable(fd).Message()
						sf, nf := t.Descriptor().Fields().ByName("seconds"), t.Descriptor().Fields().ByName("nanos")
						n := t.Get(nf).Int() + ms*1_000_000
						if n >= 1_000_000_000 {
							n -= 1_000_000_000
							t.Set(sf, protoreflect.ValueOfInt64(t.Get(sf).Int()+1))
						}
						t.Set(nf, protoreflect.ValueOfInt32(int32(n)))
					})
				}
			}
		case fd.Kind() == protoreflect.MessageKind:
			if cur.Has(fd) {
				add(fd, "clear", "dev", func(m protoreflect.Message) { m.Clear(fd) })
				if depth > 0 {
					collect(cur.Get(fd).Message(), append(append(Path{}, path...), Step{fd, -1}), depth-1, out)
				}
			} else {
				add(fd, "set", "dev", func(m protoreflect.Message) { SetFieldDepth(m, fd, 7, "D", 1) })
			}
		default:
			if fd.Kind() == protoreflect.BoolKind {
				add(fd, "flip", "dev", func(m protoreflect.Message) { m.Set(fd, protoreflect.ValueOfBool(!m.Get(fd).Bool())) })
				continue
			}
			add(fd, "change", "dev", func(m protoreflect.Message) {
				nv := scalarValue(fd, 8, "D")
				if nv.Interface() == m.Get(fd).Interface() {
					nv = scalarValue(fd, 9, "D")
				}
				m.Set(fd, nv)
			})
			if fd.Kind() == protoreflect.EnumKind {
				// numbers outside the declared enum (open proto3 enums: a document written by a newer schema)
				add(fd, "set-undeclared-9999", "dev", func(m protoreflect.Message) { m.Set(fd, protoreflect.ValueOfEnum(9999)) })
				add(fd, "set-undeclared-minus1", "dev", func(m protoreflect.Message) { m.Set(fd, protoreflect.ValueOfEnum(-1)) })
			}
			if cur.Has(fd) {
				add(fd, "clear", "dev", func(m protoreflect.Message) { m.Clear(fd) })
			}
		}
	}
}

// collectScalarOnly adds change deviations for the scalar fields of a nested message.
func collectScalarOnly(cur protoreflect.Message, path Path, out *[]Deviation) {
	fds := cur.Descriptor().Fields()
	for i := 0; i < fds.Len(); i++ {
		fd := fds.Get(i)
		if fd.IsList() || fd.IsMap() || fd.Kind() == protoreflect.MessageKind || fd.Kind() == protoreflect.BoolKind {
			continue
		}
		p := append(Path{}, path...)
		*out = append(*out, Deviation{Label: p.String() + string(fd.Name()) + ":change", Kind: "dev", Field: string(path[0].FD.Name()), Mutate: func(root protoreflect.Message) {
			m := Navigate(root, p)
			m.Set(fd, scalarValue(fd, 8, "D"))
		}})
	}
}

// Canon is the reference content of a message: set-valued lists sorted (every
// repeated field except those named in ordered), maps sorted, timestamps to the
// second. Two messages carry the same content iff their Canon strings are equal.
func Canon(m proto.Message, ordered map[string]bool) string {
	var sb strings.Builder
	canonMsg(&sb, m.ProtoReflect(), ordered)
	return sb.String()
}

func canonMsg(sb *strings.Builder, r protoreflect.Message, ordered map[string]bool) {
	if r.Descriptor().FullName() == "google.protobuf.Timestamp" {
		fmt.Fprintf(sb, "T%d", r.Get(r.Descriptor().Fields().ByName("seconds")).Int())
		return
	}
	sb.WriteString("{")
	fds := r.Descriptor().Fields()
	for i := 0; i < fds.Len(); i++ {
		fd := fds.Get(i)
		if !r.Has(fd) {
			continue
		}
		v := r.Get(fd)
		fmt.Fprintf(sb, "%s=", fd.Name())
		switch {
		case fd.IsMap():
			var es []string
			v.Map().Range(func(k protoreflect.MapKey, mv protoreflect.Value) bool {
				var vb strings.Builder
				canonVal(&vb, fd.MapValue(), mv, ordered)
				es = append(es, fmt.Sprintf("%v:%s", k.Interface(), vb.String()))
				return true
			})
			sort.Strings(es)
			sb.WriteString("map[" + strings.Join(es, ",") + "]")
		case fd.IsList():
			var es []string
			l := v.List()
			for j := 0; j < l.Len(); j++ {
				var vb strings.Builder
				canonVal(&vb, fd, l.Get(j), ordered)
				es = append(es, vb.String())
			}
			if !ordered[string(fd.FullName())] {
				sort.Strings(es)
			}
			sb.WriteString("[" + strings.Join(es, ",") + "]")
		default:
			canonVal(sb, fd, v, ordered)
		}
		sb.WriteString(";")
	}
	sb.WriteString("}")
}

func canonVal(sb *strings.Builder, fd protoreflect.FieldDescriptor, v protoreflect.Value, ordered map[string]bool) {
	switch fd.Kind() {
	case protoreflect.MessageKind, protoreflect.GroupKind:
		canonMsg(sb, v.Message(), ordered)
	case protoreflect.StringKind:
		fmt.Fprintf(sb, "%q", v.String())
	case protoreflect.EnumKind:
		fmt.Fprintf(sb, "e%d", v.Enum())
	default:
		fmt.Fprintf(sb, "%v", v.Interface())
	}
}
