package gen

import (
	"fmt"
	"sort"
	"strings"

	"github.com/protobom/protobom/pkg/sbom"
)

// Triple is one typed edge (from,type,to).
type Triple struct {
	From string
	Type sbom.Edge_Type
	To   string
}

// Model is the set-level reading of a NodeList.
type Model struct {
	Nodes map[string]int // id -> multiplicity
	Edges map[Triple]int // triple -> multiplicity (over edge objects and repeated targets)
	Roots map[string]int
}

func ModelOf(nl *sbom.NodeList) Model {
	m := Model{Nodes: map[string]int{}, Edges: map[Triple]int{}, Roots: map[string]int{}}
	if nl == nil {
		return m
	}
	for _, n := range nl.Nodes {
		m.Nodes[n.Id]++
	}
	for _, e := range nl.Edges {
		for _, t := range e.To {
			m.Edges[Triple{e.From, e.Type, t}]++
		}
	}
	for _, r := range nl.RootElements {
		m.Roots[r]++
	}
	return m
}

func keys[K comparable](m map[K]int) []K {
	out := make([]K, 0, len(m))
	for k := range m {
		out = append(out, k)
	}
	return out
}

func SortedIDs(m map[string]int) []string {
	k := keys(m)
	sort.Strings(k)
	return k
}

func (t Triple) String() string { return fmt.Sprintf("%s-%d->%s", t.From, int32(t.Type), t.To) }

func SortedTriples(m map[Triple]int) []string {
	out := make([]string, 0, len(m))
	for k := range m {
		out = append(out, k.String())
	}
	sort.Strings(out)
	return out
}

// SetKey is the set-level canonical key (multiplicities dropped).
func (m Model) SetKey() string {
	return "N" + strings.Join(SortedIDs(m.Nodes), ",") + "|E" + strings.Join(SortedTriples(m.Edges), ",") + "|R" + strings.Join(SortedIDs(m.Roots), ",")
}

// WellFormed: unique ids, every edge endpoint and root names a present node.
func WellFormed(nl *sbom.NodeList) string {
	if nl == nil {
		return ""
	}
	seen := map[string]bool{}
	for _, n := range nl.Nodes {
		if n == nil {
			return "nil node element"
		}
		if seen[n.Id] {
			return "duplicate node id " + n.Id
		}
		seen[n.Id] = true
	}
	for _, e := range nl.Edges {
		if e == nil {
			return "nil edge element"
		}
		if !seen[e.From] {
			return "edge source " + e.From + " not a node"
		}
		for _, t := range e.To {
			if !seen[t] {
				return "edge target " + t + " not a node"
			}
		}
	}
	for _, r := range nl.RootElements {
		if !seen[r] {
			return "root element " + r + " not a node"
		}
	}
	return ""
}

// Normalised: at most one edge object per (source,type), no repeated targets.
func Normalised(nl *sbom.NodeList) string {
	if nl == nil {
		return ""
	}
	seen := map[string]bool{}
	for _, e := range nl.Edges {
		k := fmt.Sprintf("%s|%d", e.From, e.Type)
		if seen[k] {
			return "two edge objects for " + k
		}
		seen[k] = true
		ts := map[string]bool{}
		for _, t := range e.To {
			if ts[t] {
				return "repeated target " + t + " in " + k
			}
			ts[t] = true
		}
	}
	return ""
}

// ListKey is an order- and multiplicity-sensitive structural key of a NodeList
// (ids only, not attributes).
func ListKey(nl *sbom.NodeList) string {
	if nl == nil {
		return "<nil>"
	}
	var sb strings.Builder
	sb.WriteString("N")
	for _, n := range nl.Nodes {
		sb.WriteString(n.Id + ",")
	}
	sb.WriteString("|E")
	for _, e := range nl.Edges {
		fmt.Fprintf(&sb, "%s-%d->%s;", e.From, e.Type, strings.Join(e.To, "+"))
	}
	sb.WriteString("|R" + strings.Join(nl.RootElements, ","))
	return sb.String()
}

// CanonKey is ListKey after sorting everything (multiplicities kept).
func CanonKey(nl *sbom.NodeList) string {
	if nl == nil {
		return "<nil>"
	}
	ids := []string{}
	for _, n := range nl.Nodes {
		ids = append(ids, n.Id)
	}
	sort.Strings(ids)
	es := []string{}
	for _, e := range nl.Edges {
		to := append([]string{}, e.To...)
		sort.Strings(to)
		es = append(es, fmt.Sprintf("%s-%d->%s", e.From, e.Type, strings.Join(to, "+")))
	}
	sort.Strings(es)
	rs := append([]string{}, nl.RootElements...)
	sort.Strings(rs)
	return "N" + strings.Join(ids, ",") + "|E" + strings.Join(es, ";") + "|R" + strings.Join(rs, ",")
}

// EdgeSpec is one edge object of a generated list.
type EdgeSpec struct {
	From string
	Type sbom.Edge_Type
	To   []string
}

// ListSpec is the JSON-friendly description of a generated list.
type ListSpec struct {
	Nodes []string   `json:"nodes"`
	Edges []EdgeSpec `json:"edges,omitempty"`
	Roots []string   `json:"roots,omitempty"`
}

func (s ListSpec) Build() *sbom.NodeList {
	nl := &sbom.NodeList{}
	for _, id := range s.Nodes {
		nl.Nodes = append(nl.Nodes, &sbom.Node{Id: id, Name: "n-" + id})
	}
	for _, e := range s.Edges {
		nl.Edges = append(nl.Edges, &sbom.Edge{From: e.From, Type: e.Type, To: append([]string{}, e.To...)})
	}
	nl.RootElements = append([]string{}, s.Roots...)
	return nl
}

func (s ListSpec) String() string {
	var sb strings.Builder
	sb.WriteString("nodes=" + strings.Join(s.Nodes, ","))
	sb.WriteString(" edges=")
	for _, e := range s.Edges {
		fmt.Fprintf(&sb, "%s-%s->%s;", e.From, e.Type, strings.Join(e.To, "+"))
	}
	sb.WriteString(" roots=" + strings.Join(s.Roots, ","))
	return sb.String()
}

// Subsets enumerates all subsets of xs (as slices in xs order).
func Subsets(xs []string) [][]string {
	n := len(xs)
	out := make([][]string, 0, 1<<n)
	for m := 0; m < 1<<n; m++ {
		var s []string
		for i := 0; i < n; i++ {
			if m&(1<<i) != 0 {
				s = append(s, xs[i])
			}
		}
		out = append(out, s)
	}
	return out
}

// NonEmptySubsets enumerates non-empty subsets.
func NonEmptySubsets(xs []string) [][]string {
	all := Subsets(xs)
	return all[1:]
}

// EdgeObjects enumerates every edge object (from in froms, type in types,
// non-empty target subset of targets).
func EdgeObjects(froms []string, types []sbom.Edge_Type, targets []string) []EdgeSpec {
	var out []EdgeSpec
	for _, f := range froms {
		for _, t := range types {
			for _, to := range NonEmptySubsets(targets) {
				out = append(out, EdgeSpec{From: f, Type: t, To: to})
			}
		}
	}
	return out
}

// EdgeLists enumerates every ordered list of at most max edge objects.
func EdgeLists(objs []EdgeSpec, max int, yield func([]EdgeSpec)) {
	var rec func(cur []EdgeSpec)
	rec = func(cur []EdgeSpec) {
		yield(cur)
		if len(cur) == max {
			return
		}
		for _, o := range objs {
			rec(append(append([]EdgeSpec{}, cur...), o))
		}
	}
	rec(nil)
}

// Permutations calls yield with every permutation of 0..n-1.
func Permutations(n int, yield func([]int)) {
	p := make([]int, n)
	for i := range p {
		p[i] = i
	}
	var rec func(k int)
	rec = func(k int) {
		if k == n {
			yield(p)
			return
		}
		for i := k; i < n; i++ {
			p[k], p[i] = p[i], p[k]
			rec(k + 1)
			p[k], p[i] = p[i], p[k]
		}
	}
	rec(0)
}

// SmallLists enumerates list specs: every node subset of ids, every ordered edge
// list of at most maxEdges objects drawn from (from in froms, type in types,
// non-empty target subset of targets with at most maxTo targets), every root
// subset of rootIDs. Ill-formed lists are included; filter with WellFormed.
func SmallLists(ids, froms []string, types []sbom.Edge_Type, targets []string, maxTo, maxEdges int, rootIDs []string, yield func(ListSpec)) {
	var objs []EdgeSpec
	for _, o := range EdgeObjects(froms, types, targets) {
		if len(o.To) <= maxTo {
			objs = append(objs, o)
		}
	}
	for _, ns := range Subsets(ids) {
		EdgeLists(objs, maxEdges, func(el []EdgeSpec) {
			for _, rs := range Subsets(rootIDs) {
				yield(ListSpec{Nodes: ns, Edges: el, Roots: rs})
			}
		})
	}
}

// SpecWellFormed is WellFormed on a spec.
func SpecWellFormed(s ListSpec) bool {
	in := map[string]bool{}
	for _, n := range s.Nodes {
		if in[n] {
			return false
		}
		in[n] = true
	}
	for _, e := range s.Edges {
		if !in[e.From] {
			return false
		}
		for _, t := range e.To {
			if !in[t] {
				return false
			}
		}
	}
	for _, r := range s.Roots {
		if !in[r] {
			return false
		}
	}
	return true
}
