package gen

import "time"

// Zones is the menu of process-local time zones the round-trip checks own as an
// environment answer (the library must not let the local zone leak into a document).
// Fixed zones need no tzdata.
func Zones() []*time.Location {
	return []*time.Location{
		time.FixedZone("UTC+9", 9*3600),
		time.FixedZone("UTC-5", -5*3600),
		time.FixedZone("UTC+5:45", 5*3600+45*60),
		time.FixedZone("UTC-12", -12*3600),
		time.FixedZone("UTC+14", 14*3600),
	}
}

// InZone runs fn with the process' local zone set to loc (workers are single-goroutine).
func InZone(loc *time.Location, fn func()) {
	old := time.Local
	time.Local = loc
	defer func() { time.Local = old }()
	fn()
}
