package gen

import (
	"fmt"
	"sort"

	"github.com/protobom/protobom/pkg/sbom"
)

// WideLists returns the size-class node lists shared by the round-trip and translation checks: a root with 40
// contained children, a containment chain of depth 20, a bushy tree (4 x 4 x 2), and a two-node list whose nodes carry
// 12 hashes, 20 external references (12 of them hashed) and 20 licences. Identifiers are valid SPDX idstrings.
func WideLists() map[string]*sbom.NodeList {
	out := map[string]*sbom.NodeList{}
	n := func(id string) *sbom.Node { return &sbom.Node{Id: id, Name: "n-" + id, Version: "1"} }
	// star
	star := &sbom.NodeList{Nodes: []*sbom.Node{n("r")}, RootElements: []string{"r"}}
	var kids []string
	for i := 0; i < 40; i++ {
		id := fmt.Sprintf("k%02d", (i*7)%40)
		kids = append(kids, id)
		star.Nodes = append(star.Nodes, n(id))
	}
	star.Edges = []*sbom.Edge{{From: "r", Type: sbom.Edge_contains, To: kids[:23]}, {From: "r", Type: sbom.Edge_contains, To: kids[23:]}}
	out["star40"] = star
	// chain
	chain := &sbom.NodeList{Nodes: []*sbom.Node{n("r")}, RootElements: []string{"r"}}
	prev := "r"
	var edges []*sbom.Edge
	for i := 0; i < 20; i++ {
		id := fmt.Sprintf("c%02d", i)
		chain.Nodes = append(chain.Nodes, n(id))
		edges = append(edges, &sbom.Edge{From: prev, Type: sbom.Edge_contains, To: []string{id}})
		prev = id
	}
	// stored deepest-first
	for i := len(edges) - 1; i >= 0; i-- {
		chain.Edges = append(chain.Edges, edges[i])
	}
	out["chain20"] = chain
	// the next orders of magnitude: a containment chain 300 deep and a star with 2000 leaves
	chain300 := &sbom.NodeList{Nodes: []*sbom.Node{n("r")}, RootElements: []string{"r"}}
	prev = "r"
	for i := 0; i < 300; i++ {
		id := fmt.Sprintf("d%03d", i)
		chain300.Nodes = append(chain300.Nodes, n(id))
		chain300.Edges = append(chain300.Edges, &sbom.Edge{From: prev, Type: sbom.Edge_contains, To: []string{id}})
		prev = id
	}
	out["chain300"] = chain300
	star2000 := &sbom.NodeList{Nodes: []*sbom.Node{n("r")}, RootElements: []string{"r"}}
	e2 := &sbom.Edge{From: "r", Type: sbom.Edge_contains}
	for i := 0; i < 2000; i++ {
		id := fmt.Sprintf("leaf-%04d", (i*7)%2000)
		star2000.Nodes = append(star2000.Nodes, n(id))
		e2.To = append(e2.To, id)
	}
	star2000.Edges = []*sbom.Edge{e2}
	out["star2000"] = star2000
	// bushy
	bushy := &sbom.NodeList{Nodes: []*sbom.Node{n("r")}, RootElements: []string{"r"}}
	for a := 0; a < 4; a++ {
		ida := fmt.Sprintf("a%d", a)
		bushy.Nodes = append(bushy.Nodes, n(ida))
		bushy.Edges = append(bushy.Edges, &sbom.Edge{From: "r", Type: sbom.Edge_contains, To: []string{ida}})
		for b := 0; b < 4; b++ {
			idb := fmt.Sprintf("a%d-b%d", a, b)
			bushy.Nodes = append(bushy.Nodes, n(idb))
			bushy.Edges = append(bushy.Edges, &sbom.Edge{From: ida, Type: sbom.Edge_contains, To: []string{idb}})
			for cc := 0; cc < 2; cc++ {
				idc := fmt.Sprintf("a%d-b%d-c%d", a, b, cc)
				bushy.Nodes = append(bushy.Nodes, n(idc))
				bushy.Edges = append(bushy.Edges, &sbom.Edge{From: idb, Type: sbom.Edge_contains, To: []string{idc}}, &sbom.Edge{From: idc, Type: sbom.Edge_dependsOn, To: []string{ida}})
			}
		}
	}
	out["bushy"] = bushy
	// rich attributes
	rich := &sbom.NodeList{Nodes: []*sbom.Node{n("r"), n("x")}, Edges: []*sbom.Edge{{From: "r", Type: sbom.Edge_contains, To: []string{"x"}}}, RootElements: []string{"r"}}
	algos := []sbom.HashAlgorithm{sbom.HashAlgorithm_MD5, sbom.HashAlgorithm_SHA1, sbom.HashAlgorithm_SHA256, sbom.HashAlgorithm_SHA384, sbom.HashAlgorithm_SHA512, sbom.HashAlgorithm_SHA3_256, sbom.HashAlgorithm_SHA3_384, sbom.HashAlgorithm_SHA3_512, sbom.HashAlgorithm_BLAKE2B_256, sbom.HashAlgorithm_BLAKE2B_384, sbom.HashAlgorithm_BLAKE2B_512, sbom.HashAlgorithm_BLAKE3}
	for _, nd := range rich.Nodes {
		nd.Hashes = map[int32]string{}
		for i, a := range algos {
			nd.Hashes[int32(a)] = fmt.Sprintf("%02x%02x", i, i+1)
		}
		for i := 0; i < 20; i++ {
			ref := &sbom.ExternalReference{Type: sbom.ExternalReference_WEBSITE, Url: fmt.Sprintf("https://ref/%d", (i*3)%20), Comment: fmt.Sprintf("c%d", i)}
			if i%2 == 0 {
				ref.Type = sbom.ExternalReference_VCS
			}
			if i < 12 {
				ref.Hashes = map[int32]string{int32(algos[i]): fmt.Sprintf("r%02d", i), int32(algos[(i+5)%12]): fmt.Sprintf("s%02d", i)}
			}
			nd.ExternalReferences = append(nd.ExternalReferences, ref)
		}
	}
	rich.Nodes[1].Identifiers = map[int32]string{int32(sbom.SoftwareIdentifierType_PURL): "pkg:npm/x@1", int32(sbom.SoftwareIdentifierType_CPE23): "cpe:2.3:a:x:y:1:*:*:*:*:*:*:*"}
	out["rich"] = rich
	return out
}

// ContactChain returns a person whose contacts nest depth levels below it (level 0 is the person itself, every level
// also has a second, leaf contact so that lists have two elements).
func ContactChain(depth int) *sbom.Person {
	top := &sbom.Person{Name: "level-0", Email: "l0@example.com"}
	cur := top
	for l := 1; l <= depth; l++ {
		next := &sbom.Person{Name: fmt.Sprintf("level-%d", l), Email: fmt.Sprintf("l%d@example.com", l)}
		cur.Contacts = []*sbom.Person{next, {Name: fmt.Sprintf("leaf-%d", l)}}
		cur = next
	}
	return top
}

// PersonAt walks level steps down the first contacts.
func PersonAt(p *sbom.Person, level int) *sbom.Person {
	for l := 0; l < level && p != nil; l++ {
		if len(p.Contacts) == 0 {
			return nil
		}
		p = p.Contacts[0]
	}
	return p
}

// DepthLadder: nesting depths around the powers of two up to max, and the first few.
func DepthLadder(max int) []int {
	seen := map[int]bool{}
	var out []int
	add := func(d int) {
		if d >= 1 && d <= max && !seen[d] {
			seen[d] = true
			out = append(out, d)
		}
	}
	for d := 1; d <= 5; d++ {
		add(d)
	}
	for p := 8; p <= max+1; p *= 2 {
		add(p - 1)
		add(p)
		add(p + 1)
	}
	add(max)
	sort.Ints(out)
	return out
}
