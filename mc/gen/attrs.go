package gen

import (
	"fmt"

	"google.golang.org/protobuf/proto"
	"google.golang.org/protobuf/reflect/protoreflect"
)

// Fields lists the field descriptors of a message type in declaration order.
func Fields(m proto.Message) []protoreflect.FieldDescriptor {
	fds := m.ProtoReflect().Descriptor().Fields()
	out := make([]protoreflect.FieldDescriptor, 0, fds.Len())
	for i := 0; i < fds.Len(); i++ {
		out = append(out, fds.Get(i))
	}
	return out
}

// FieldsExcept is Fields minus the named ones.
func FieldsExcept(m proto.Message, skip ...string) []protoreflect.FieldDescriptor {
	sk := map[string]bool{}
	for _, s := range skip {
		sk[s] = true
	}
	var out []protoreflect.FieldDescriptor
	for _, fd := range Fields(m) {
		if !sk[string(fd.Name())] {
			out = append(out, fd)
		}
	}
	return out
}

// scalarValue builds the k-th non-zero value of a scalar field kind.
func scalarValue(fd protoreflect.FieldDescriptor, k int, tag string) protoreflect.Value {
	switch fd.Kind() {
	case protoreflect.StringKind:
		return protoreflect.ValueOfString(fmt.Sprintf("%s-%s%d", fd.Name(), tag, k))
	case protoreflect.BoolKind:
		return protoreflect.ValueOfBool(true)
	case protoreflect.EnumKind:
		vals := fd.Enum().Values()
		n := k
		if n >= vals.Len() {
			n = 1 + (k % (vals.Len() - 1))
		}
		return protoreflect.ValueOfEnum(vals.Get(n).Number())
	case protoreflect.Int32Kind, protoreflect.Sint32Kind, protoreflect.Sfixed32Kind:
		return protoreflect.ValueOfInt32(int32(k))
	case protoreflect.Int64Kind, protoreflect.Sint64Kind, protoreflect.Sfixed64Kind:
		return protoreflect.ValueOfInt64(int64(k) * 1000)
	case protoreflect.Uint32Kind, protoreflect.Fixed32Kind:
		return protoreflect.ValueOfUint32(uint32(k))
	case protoreflect.Uint64Kind, protoreflect.Fixed64Kind:
		return protoreflect.ValueOfUint64(uint64(k))
	case protoreflect.BytesKind:
		return protoreflect.ValueOfBytes([]byte{byte(k)})
	case protoreflect.FloatKind:
		return protoreflect.ValueOfFloat32(float32(k))
	case protoreflect.DoubleKind:
		return protoreflect.ValueOfFloat64(float64(k))
	}
	panic("unsupported kind " + fd.Kind().String())
}

// fillMessage populates a fresh message; depth limits recursion into message fields.
func fillMessage(m protoreflect.Message, k int, tag string, depth int) {
	fds := m.Descriptor().Fields()
	if m.Descriptor().FullName() == "google.protobuf.Timestamp" {
		m.Set(fds.ByName("seconds"), protoreflect.ValueOfInt64(int64(1_700_000_000+1000*k)))
		return
	}
	for i := 0; i < fds.Len(); i++ {
		fd := fds.Get(i)
		if (fd.Kind() == protoreflect.MessageKind) && depth <= 0 && !fd.IsMap() {
			continue
		}
		SetFieldDepth(m, fd, k, tag, depth-1)
	}
}

// SetField sets field fd of m to its k-th non-empty value (k >= 1). Lists get
// one element appended, maps one entry put, messages are created and filled.
func SetField(m protoreflect.Message, fd protoreflect.FieldDescriptor, k int, tag string) {
	SetFieldDepth(m, fd, k, tag, 1)
}

func SetFieldDepth(m protoreflect.Message, fd protoreflect.FieldDescriptor, k int, tag string, depth int) {
	switch {
	case fd.IsMap():
		mp := m.Mutable(fd).Map()
		var key protoreflect.MapKey
		switch fd.MapKey().Kind() {
		case protoreflect.StringKind:
			key = protoreflect.ValueOfString(fmt.Sprintf("k%d", k)).MapKey()
		case protoreflect.Int32Kind:
			key = protoreflect.ValueOfInt32(int32(k)).MapKey()
		case protoreflect.Int64Kind:
			key = protoreflect.ValueOfInt64(int64(k)).MapKey()
		default:
			panic("unsupported map key kind")
		}
		if fd.MapValue().Kind() == protoreflect.MessageKind {
			nv := mp.NewValue()
			fillMessage(nv.Message(), k, tag, depth)
			mp.Set(key, nv)
		} else {
			mp.Set(key, scalarValue(fd.MapValue(), k, tag))
		}
	case fd.IsList():
		l := m.Mutable(fd).List()
		if fd.Kind() == protoreflect.MessageKind {
			el := l.NewElement()
			fillMessage(el.Message(), k, tag, depth)
			l.Append(el)
		} else {
			l.Append(scalarValue(fd, k, tag))
		}
	case fd.Kind() == protoreflect.MessageKind:
		nm := m.NewField(fd)
		fillMessage(nm.Message(), k, tag, depth)
		m.Set(fd, nm)
	default:
		m.Set(fd, scalarValue(fd, k, tag))
	}
}

// FieldSnap renders one field of a message with Snap's conventions ("" when unset).
func FieldSnap(m proto.Message, fd protoreflect.FieldDescriptor) string {
	r := m.ProtoReflect()
	if !r.Has(fd) {
		return ""
	}
	c := r.New()
	// copy just this field into an empty message of the same type
	c.Set(fd, r.Get(fd))
	return Snap(c.Interface())
}

// Full returns a message with every field set (lists with n elements).
func Full(m proto.Message, tag string, listLen int) {
	r := m.ProtoReflect()
	for _, fd := range Fields(m) {
		if fd.IsList() || fd.IsMap() {
			for k := 1; k <= listLen; k++ {
				SetFieldDepth(r, fd, k, tag, 2)
			}
		} else {
			SetFieldDepth(r, fd, 1, tag, 2)
		}
	}
}

// EmptyMaps replaces every map field of m, at every nesting level, by an empty non-nil map
// (the value class between nil and populated: sharing it is only visible through a key insertion).
func EmptyMaps(m proto.Message) {
	emptyMaps(m.ProtoReflect())
}

func emptyMaps(r protoreflect.Message) {
	fds := r.Descriptor().Fields()
	for i := 0; i < fds.Len(); i++ {
		fd := fds.Get(i)
		switch {
		case fd.IsMap():
			r.Clear(fd)
			r.Mutable(fd).Map() // allocates an empty map
		case fd.IsList() && fd.Kind() == protoreflect.MessageKind:
			l := r.Get(fd).List()
			for j := 0; j < l.Len(); j++ {
				emptyMaps(l.Get(j).Message())
			}
		case fd.Kind() == protoreflect.MessageKind && r.Has(fd):
			emptyMaps(r.Get(fd).Message())
		}
	}
}

// FullDeep is Full with n entries in the lists and maps of the nested messages as well (to the given nesting depth):
// an external reference with several hashes, a person with several contacts who have several contacts. Code that
// orders, joins or indexes a nested collection behaves differently from two entries on.
func FullDeep(m proto.Message, tag string, n, depth int) {
	Full(m, tag, n)
	widen(m.ProtoReflect(), tag, n, depth)
}

func widen(r protoreflect.Message, tag string, n, depth int) {
	if depth <= 0 || r.Descriptor().FullName() == "google.protobuf.Timestamp" {
		return
	}
	fds := r.Descriptor().Fields()
	for i := 0; i < fds.Len(); i++ {
		fd := fds.Get(i)
		visit := func(nm protoreflect.Message) {
			nf := nm.Descriptor().Fields()
			for j := 0; j < nf.Len(); j++ {
				nfd := nf.Get(j)
				if !nfd.IsList() && !nfd.IsMap() {
					continue
				}
				have := 0
				if nfd.IsList() {
					have = nm.Get(nfd).List().Len()
				} else {
					have = nm.Get(nfd).Map().Len()
				}
				for k := have + 1; k <= n; k++ {
					SetFieldDepth(nm, nfd, k, tag, depth-1)
				}
			}
			widen(nm, tag, n, depth-1)
		}
		switch {
		case fd.IsMap():
			if fd.MapValue().Kind() == protoreflect.MessageKind {
				r.Get(fd).Map().Range(func(_ protoreflect.MapKey, v protoreflect.Value) bool { visit(v.Message()); return true })
			}
		case fd.IsList():
			if fd.Kind() == protoreflect.MessageKind {
				l := r.Get(fd).List()
				for j := 0; j < l.Len(); j++ {
					visit(l.Get(j).Message())
				}
			}
		case fd.Kind() == protoreflect.MessageKind && r.Has(fd):
			visit(r.Get(fd).Message())
		}
	}
}
