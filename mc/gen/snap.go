// Package gen holds alphabets, generators, canonical snapshots and the small
// reference models shared by the property packages.
package gen

import (
	"fmt"
	"sort"
	"strings"

	"google.golang.org/protobuf/proto"
	"google.golang.org/protobuf/reflect/protoreflect"
)

// Snap is an order-sensitive, field-by-field dump of a message: list order is
// kept, map keys are sorted, unset scalar fields are omitted (proto3 cannot
// distinguish them from zero), nil and empty messages differ.
func Snap(m proto.Message) string {
	if m == nil {
		return "<nil>"
	}
	r := m.ProtoReflect()
	if !r.IsValid() {
		return "<nil>"
	}
	var sb strings.Builder
	snapMsg(&sb, r)
	return sb.String()
}

func snapMsg(sb *strings.Builder, r protoreflect.Message) {
	sb.WriteString("{")
	fds := r.Descriptor().Fields()
	for i := 0; i < fds.Len(); i++ {
		fd := fds.Get(i)
		if !r.Has(fd) {
			continue
		}
		v := r.Get(fd)
		fmt.Fprintf(sb, "%s=", fd.Name())
		switch {
		case fd.IsList():
			l := v.List()
			sb.WriteString("[")
			for j := 0; j < l.Len(); j++ {
				snapVal(sb, fd, l.Get(j))
				sb.WriteString(",")
			}
			sb.WriteString("]")
		case fd.IsMap():
			mp := v.Map()
			type kv struct{ k, v string }
			var kvs []kv
			mp.Range(func(k protoreflect.MapKey, mv protoreflect.Value) bool {
				var vb strings.Builder
				snapVal(&vb, fd.MapValue(), mv)
				kvs = append(kvs, kv{fmt.Sprintf("%020v", k.Interface()), vb.String()})
				return true
			})
			sort.Slice(kvs, func(a, b int) bool { return kvs[a].k < kvs[b].k })
			sb.WriteString("map[")
			for _, e := range kvs {
				fmt.Fprintf(sb, "%s:%s,", strings.TrimLeft(e.k, " "), e.v)
			}
			sb.WriteString("]")
		default:
			snapVal(sb, fd, v)
		}
		sb.WriteString(";")
	}
	if u := r.GetUnknown(); len(u) > 0 {
		fmt.Fprintf(sb, "unknown=%x;", []byte(u))
	}
	sb.WriteString("}")
}

func snapVal(sb *strings.Builder, fd protoreflect.FieldDescriptor, v protoreflect.Value) {
	switch fd.Kind() {
	case protoreflect.MessageKind, protoreflect.GroupKind:
		snapMsg(sb, v.Message())
	case protoreflect.StringKind:
		fmt.Fprintf(sb, "%q", v.String())
	case protoreflect.EnumKind:
		fmt.Fprintf(sb, "e%d", v.Enum())
	case protoreflect.BytesKind:
		fmt.Fprintf(sb, "%x", v.Bytes())
	default:
		fmt.Fprintf(sb, "%v", v.Interface())
	}
}

// SnapDiff shows the first region where two snapshots differ.
func SnapDiff(before, after string) string {
	i := 0
	for i < len(before) && i < len(after) && before[i] == after[i] {
		i++
	}
	lo := i - 60
	if lo < 0 {
		lo = 0
	}
	cut := func(s string) string {
		hi := i + 100
		if hi > len(s) {
			hi = len(s)
		}
		if lo > len(s) {
			return ""
		}
		return "…" + s[lo:hi] + "…"
	}
	return fmt.Sprintf("first difference at offset %d:\n  before %s\n  after  %s", i, cut(before), cut(after))
}
