// Package vmap is the map-iteration-order seam. The instrumentation rewrites every `range` over a map
// in the library's packages into a loop over vmap.Keys(m); the harness decides the order, so that the
// one source of nondeterminism the Go runtime adds on its own (randomised map iteration) becomes an
// environment answer the checks own: the same case can be run with ascending, descending and rotated
// key order, and a result that depends on the order shows up deterministically.
package vmap

import (
	"fmt"
	"reflect"
	"sort"
)

// Order modes.
const (
	Ascending = iota
	Descending
	Rotated     // ascending, started in the middle
	Native      // the runtime's own (random) order
	Alternating // ascending on even calls, descending on odd calls (two iterations of equal maps inside one case see different orders, as they may at run time)
	AlternatingOdd
)

// Mode is the current order; set by the harness between cases (single-goroutine workers) or before
// the threads of a schedule start.
var Mode = Ascending

// Calls counts Keys calls, Unordered those whose key type has no defined order (pointers, structs,
// interfaces...: left in native order). Both are reported in the evidence.
var Calls, Unordered int64

// Modes is what an order-sweeping check iterates over.
var Modes = []int{Ascending, Descending, Rotated}

func ModeName(m int) string {
	return [...]string{"ascending", "descending", "rotated", "native", "alternating", "alternating-odd"}[m]
}

// Keys returns the keys of m in the order the harness chose.
//
//go:norace
func Keys[M ~map[K]V, K comparable, V any](m M) []K {
	mode := pick()
	ks := make([]K, 0, len(m))
	for k := range m {
		ks = append(ks, k)
	}
	if mode == Native || len(ks) < 2 {
		return ks
	}
	var less func(a, b K) bool
	switch reflect.TypeOf(ks[0]).Kind() {
	case reflect.String:
		less = func(a, b K) bool { return reflect.ValueOf(a).String() < reflect.ValueOf(b).String() }
	case reflect.Int, reflect.Int8, reflect.Int16, reflect.Int32, reflect.Int64:
		less = func(a, b K) bool { return reflect.ValueOf(a).Int() < reflect.ValueOf(b).Int() }
	case reflect.Uint, reflect.Uint8, reflect.Uint16, reflect.Uint32, reflect.Uint64, reflect.Uintptr:
		less = func(a, b K) bool { return reflect.ValueOf(a).Uint() < reflect.ValueOf(b).Uint() }
	case reflect.Float32, reflect.Float64:
		less = func(a, b K) bool { return reflect.ValueOf(a).Float() < reflect.ValueOf(b).Float() }
	case reflect.Bool:
		less = func(a, b K) bool { return !reflect.ValueOf(a).Bool() && reflect.ValueOf(b).Bool() }
	case reflect.Struct, reflect.Array:
		// value types: order by their printed form (deterministic for structs of basic fields)
		less = func(a, b K) bool { return fmt.Sprintf("%#v", a) < fmt.Sprintf("%#v", b) }
	default:
		unordered()
		return ks
	}
	sort.SliceStable(ks, func(i, j int) bool { return less(ks[i], ks[j]) })
	switch mode {
	case Descending:
		for i, j := 0, len(ks)-1; i < j; i, j = i+1, j-1 {
			ks[i], ks[j] = ks[j], ks[i]
		}
	case Rotated:
		h := len(ks) / 2
		ks = append(append(make([]K, 0, len(ks)), ks[h:]...), ks[:h]...)
	}
	return ks
}

var seq int64

// pick counts the call and resolves the alternating modes. It must not synchronise: an atomic operation here would
// order all map iterations of different goroutines for ThreadSanitizer and hide the races of the code under test
// (the bookkeeping itself is invisible to the detector: norace).
//
//go:norace
func pick() int {
	Calls++
	mode := Mode
	if mode == Alternating || mode == AlternatingOdd {
		seq++
		if (seq%2 == 0) == (mode == Alternating) {
			return Descending
		}
		return Ascending
	}
	return mode
}

//go:norace
func unordered() { Unordered++ }

// ResetSeq restarts the call parity of the alternating modes (called by the engine before every run of a case).
//
//go:norace
func ResetSeq() { seq = 0 }

// On reports whether the seam is compiled in (set by the generated code's init).
var On bool

// Sites is the number of rewritten range statements (set by generated init functions).
var Sites int
