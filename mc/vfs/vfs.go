// Package vfs is the file-system seam (E4): it mirrors the part of package os a
// file store can plausibly use, works on a real directory, decomposes compound
// calls into logged primitive steps, and can (a) record the step list, (b) crash
// at step k after p bytes of a write and freeze, (c) make step k fail.
//
// pkg/storage is compiled against it through a build overlay that rewrites the
// import "os" to "mcverif/vfs" (and release-utils/util to mcverif/vfs/vutil).
package vfs

import (
	"errors"
	"io"
	"io/fs"
	"os"
	"path/filepath"
	"syscall"
	"time"
)

type (
	LinkError    = os.LinkError
	SyscallError = os.SyscallError
	FileMode     = fs.FileMode
	FileInfo     = fs.FileInfo
	DirEntry     = fs.DirEntry
	PathError    = fs.PathError
	Signal       = os.Signal
	ProcAttr     = os.ProcAttr
	Process      = os.Process
	ProcessState = os.ProcessState
)

const (
	O_RDONLY = os.O_RDONLY
	O_WRONLY = os.O_WRONLY
	O_RDWR   = os.O_RDWR
	O_APPEND = os.O_APPEND
	O_CREATE = os.O_CREATE
	O_EXCL   = os.O_EXCL
	O_SYNC   = os.O_SYNC
	O_TRUNC  = os.O_TRUNC

	ModePerm       = fs.ModePerm
	ModeDir        = fs.ModeDir
	ModeAppend     = fs.ModeAppend
	ModeExclusive  = fs.ModeExclusive
	ModeTemporary  = fs.ModeTemporary
	ModeSymlink    = fs.ModeSymlink
	ModeDevice     = fs.ModeDevice
	ModeNamedPipe  = fs.ModeNamedPipe
	ModeSocket     = fs.ModeSocket
	ModeSetuid     = fs.ModeSetuid
	ModeSetgid     = fs.ModeSetgid
	ModeCharDevice = fs.ModeCharDevice
	ModeSticky     = fs.ModeSticky
	ModeIrregular  = fs.ModeIrregular
	ModeType       = fs.ModeType

	SEEK_SET = os.SEEK_SET
	SEEK_CUR = os.SEEK_CUR
	SEEK_END = os.SEEK_END

	PathListSeparator = os.PathListSeparator

	PathSeparator = os.PathSeparator
	DevNull       = os.DevNull
)

var (
	ErrNotExist   = fs.ErrNotExist
	ErrExist      = fs.ErrExist
	ErrPermission = fs.ErrPermission
	ErrInvalid    = fs.ErrInvalid
	ErrClosed     = fs.ErrClosed

	ErrDeadlineExceeded = os.ErrDeadlineExceeded
	ErrNoDeadline       = os.ErrNoDeadline
	ErrProcessDone      = os.ErrProcessDone
	Interrupt           = os.Interrupt
	Kill                = os.Kill

	Stdin  = os.Stdin
	Stdout = os.Stdout
	Stderr = os.Stderr
	Args   = os.Args
)

// Step is one logged primitive operation.
type Step struct {
	Kind     string `json:"kind"` // stat open create mkdir write sync close rename remove chmod read readdir
	Path     string `json:"path"`
	Path2    string `json:"path2,omitempty"`
	Bytes    int    `json:"bytes,omitempty"`
	Mutating bool   `json:"mutating"`
}

const (
	Passthrough = iota
	Record
	Crash
	Fault
)

var (
	mode       = Passthrough
	log        []Step
	crashAt    int
	crashBytes int
	frozen     bool
	faultAt    int
	faultErr   error
	// ErrFrozen is returned by every operation after the crash point.
	ErrFrozen = errors.New("vfs: process is dead (crash injected)")
)

// Hook, when set, is called before every step (used to make file-system steps scheduling points).
var Hook func(s Step)

// Reset puts the seam into the given mode and clears the log.
func Reset(m int) { mode, log, frozen, alsoFaultAt = m, nil, false, -1 }

// SetCrash arms a crash at step k; if that step is a write, its first p bytes are performed.
func SetCrash(k, p int) { Reset(Crash); crashAt, crashBytes = k, p }

// SetFaultCrash arms a fault at step fk AND a crash at the later step ck (after p bytes if it is a write): the store
// meets an error, takes whatever path it takes then, and the process dies somewhere on that path. ck < 0: no crash.
func SetFaultCrash(fk int, err error, ck, p int) {
	Reset(Crash)
	crashAt, crashBytes = ck, p
	alsoFaultAt, alsoFaultErr = fk, err
}

var (
	alsoFaultAt  = -1
	alsoFaultErr error
)

// SetFault makes step k fail with err without executing it.
func SetFault(k int, err error) { Reset(Fault); faultAt, faultErr = k, err }

// Log returns the steps logged since the last Reset.
func Log() []Step { return append([]Step{}, log...) }

// Frozen tells whether the crash point was reached.
func Frozen() bool { return frozen }

// gate logs a step and decides: run it (n = bytes to perform for writes, -1 = all), or return err.
func gate(s Step) (n int, err error) {
	if Hook != nil {
		Hook(s) // a scheduling point when the seam is combined with the controlled scheduler
	}
	i := len(log)
	if mode != Passthrough {
		log = append(log, s)
	}
	if frozen {
		return 0, ErrFrozen
	}
	switch mode {
	case Crash:
		if i == alsoFaultAt {
			return 0, &fs.PathError{Op: s.Kind, Path: s.Path, Err: alsoFaultErr}
		}
		if i == crashAt {
			frozen = true
			if s.Kind == "write" {
				if crashBytes > s.Bytes {
					return s.Bytes, ErrFrozen
				}
				return crashBytes, ErrFrozen
			}
			return 0, ErrFrozen
		}
	case Fault:
		if i == faultAt {
			return 0, &fs.PathError{Op: s.Kind, Path: s.Path, Err: faultErr}
		}
	}
	return -1, nil
}

// File wraps *os.File so that writes, syncs and closes are steps.
type File struct {
	f    *os.File
	name string
}

func (f *File) Name() string { return f.name }
func (f *File) Fd() uintptr  { return f.f.Fd() }

func (f *File) Write(b []byte) (int, error) {
	n, err := gate(Step{Kind: "write", Path: f.name, Bytes: len(b), Mutating: true})
	if err != nil {
		if n > 0 {
			k, _ := f.f.Write(b[:n])
			return k, err
		}
		return 0, err
	}
	return f.f.Write(b)
}

func (f *File) WriteString(s string) (int, error) { return f.Write([]byte(s)) }

func (f *File) WriteAt(b []byte, off int64) (int, error) {
	n, err := gate(Step{Kind: "write", Path: f.name, Bytes: len(b), Mutating: true})
	if err != nil {
		if n > 0 {
			k, _ := f.f.WriteAt(b[:n], off)
			return k, err
		}
		return 0, err
	}
	return f.f.WriteAt(b, off)
}

func (f *File) Read(b []byte) (int, error) {
	if _, err := gate(Step{Kind: "read", Path: f.name}); err != nil {
		return 0, err
	}
	return f.f.Read(b)
}

func (f *File) ReadAt(b []byte, off int64) (int, error) {
	if _, err := gate(Step{Kind: "read", Path: f.name}); err != nil {
		return 0, err
	}
	return f.f.ReadAt(b, off)
}

func (f *File) Seek(off int64, whence int) (int64, error) { return f.f.Seek(off, whence) }

func (f *File) Sync() error {
	if _, err := gate(Step{Kind: "sync", Path: f.name, Mutating: true}); err != nil {
		return err
	}
	return f.f.Sync()
}

func (f *File) Close() error {
	_, err := gate(Step{Kind: "close", Path: f.name, Mutating: true})
	cerr := f.f.Close() // the descriptor is always released; a dead process loses it anyway
	if err != nil {
		return err
	}
	return cerr
}

func (f *File) Chmod(m FileMode) error {
	if _, err := gate(Step{Kind: "chmod", Path: f.name, Mutating: true}); err != nil {
		return err
	}
	return f.f.Chmod(m)
}

func (f *File) Truncate(size int64) error {
	if _, err := gate(Step{Kind: "truncate", Path: f.name, Mutating: true}); err != nil {
		return err
	}
	return f.f.Truncate(size)
}

func (f *File) Stat() (FileInfo, error) { return f.f.Stat() }

func (f *File) ReadDir(n int) ([]DirEntry, error) { return f.f.ReadDir(n) }

func (f *File) Readdirnames(n int) ([]string, error) { return f.f.Readdirnames(n) }

func (f *File) Readdir(n int) ([]FileInfo, error)     { return f.f.Readdir(n) }
func (f *File) Chdir() error                          { return f.f.Chdir() }
func (f *File) SetDeadline(t time.Time) error         { return f.f.SetDeadline(t) }
func (f *File) SetReadDeadline(t time.Time) error     { return f.f.SetReadDeadline(t) }
func (f *File) SetWriteDeadline(t time.Time) error    { return f.f.SetWriteDeadline(t) }
func (f *File) SyscallConn() (syscall.RawConn, error) { return f.f.SyscallConn() }

func (f *File) Chown(uid, gid int) error {
	if _, err := gate(Step{Kind: "chown", Path: f.name, Mutating: true}); err != nil {
		return err
	}
	return f.f.Chown(uid, gid)
}

// ReadFrom and WriteTo go through Write / Read so that every transfer stays a logged step.
func (f *File) ReadFrom(r io.Reader) (int64, error) {
	return io.Copy(struct{ io.Writer }{f}, r)
}

func (f *File) WriteTo(w io.Writer) (int64, error) {
	return io.Copy(w, struct{ io.Reader }{f})
}

// NewFile and Pipe hand out wrapped files as well.
func NewFile(fd uintptr, name string) *File {
	of := os.NewFile(fd, name)
	if of == nil {
		return nil
	}
	return &File{f: of, name: name}
}

func Pipe() (*File, *File, error) {
	r, w, err := os.Pipe()
	if err != nil {
		return nil, nil, err
	}
	return &File{f: r, name: "|0"}, &File{f: w, name: "|1"}, nil
}

func Stat(name string) (FileInfo, error) {
	if _, err := gate(Step{Kind: "stat", Path: name}); err != nil {
		return nil, err
	}
	return os.Stat(name)
}

func Lstat(name string) (FileInfo, error) {
	if _, err := gate(Step{Kind: "stat", Path: name}); err != nil {
		return nil, err
	}
	return os.Lstat(name)
}

func Mkdir(name string, perm FileMode) error {
	if _, err := gate(Step{Kind: "mkdir", Path: name, Mutating: true}); err != nil {
		return err
	}
	return os.Mkdir(name, perm)
}

func MkdirAll(name string, perm FileMode) error {
	if _, err := gate(Step{Kind: "mkdir", Path: name, Mutating: true}); err != nil {
		return err
	}
	return os.MkdirAll(name, perm)
}

func MkdirTemp(dir, pattern string) (string, error) {
	if _, err := gate(Step{Kind: "mkdir", Path: dir + "/" + pattern, Mutating: true}); err != nil {
		return "", err
	}
	return os.MkdirTemp(dir, pattern)
}

func OpenFile(name string, flag int, perm FileMode) (*File, error) {
	kind, mut := "open", false
	if flag&(O_CREATE|O_TRUNC) != 0 {
		kind, mut = "create", true
	} else if flag&(O_WRONLY|O_RDWR|O_APPEND) != 0 {
		mut = true
	}
	if _, err := gate(Step{Kind: kind, Path: name, Mutating: mut}); err != nil {
		return nil, err
	}
	f, err := os.OpenFile(name, flag, perm)
	if err != nil {
		return nil, err
	}
	return &File{f: f, name: name}, nil
}

func Create(name string) (*File, error) { return OpenFile(name, O_RDWR|O_CREATE|O_TRUNC, 0o666) }
func Open(name string) (*File, error)   { return OpenFile(name, O_RDONLY, 0) }

func CreateTemp(dir, pattern string) (*File, error) {
	if _, err := gate(Step{Kind: "create", Path: dir + "/" + pattern, Mutating: true}); err != nil {
		return nil, err
	}
	f, err := os.CreateTemp(dir, pattern)
	if err != nil {
		return nil, err
	}
	return &File{f: f, name: f.Name()}, nil
}

func WriteFile(name string, data []byte, perm FileMode) error {
	f, err := OpenFile(name, O_WRONLY|O_CREATE|O_TRUNC, perm)
	if err != nil {
		return err
	}
	_, err = f.Write(data)
	if err1 := f.Close(); err1 != nil && err == nil {
		err = err1
	}
	return err
}

func ReadFile(name string) ([]byte, error) {
	if _, err := gate(Step{Kind: "read", Path: name}); err != nil {
		return nil, err
	}
	return os.ReadFile(name)
}

func ReadDir(name string) ([]DirEntry, error) {
	if _, err := gate(Step{Kind: "readdir", Path: name}); err != nil {
		return nil, err
	}
	return os.ReadDir(name)
}

// CrossDevice, when set, makes every rename between different directories fail with EXDEV, as it does when the
// two directories are on different file systems (an environment answer, not a fault of one step).
var CrossDevice bool

func Rename(oldpath, newpath string) error {
	if _, err := gate(Step{Kind: "rename", Path: oldpath, Path2: newpath, Mutating: true}); err != nil {
		return err
	}
	if CrossDevice && filepath.Dir(oldpath) != filepath.Dir(newpath) {
		return &os.LinkError{Op: "rename", Old: oldpath, New: newpath, Err: syscall.EXDEV}
	}
	return os.Rename(oldpath, newpath)
}

func Link(oldname, newname string) error {
	if _, err := gate(Step{Kind: "link", Path: oldname, Path2: newname, Mutating: true}); err != nil {
		return err
	}
	return os.Link(oldname, newname)
}

func Symlink(oldname, newname string) error {
	if _, err := gate(Step{Kind: "link", Path: oldname, Path2: newname, Mutating: true}); err != nil {
		return err
	}
	return os.Symlink(oldname, newname)
}

func Remove(name string) error {
	if _, err := gate(Step{Kind: "remove", Path: name, Mutating: true}); err != nil {
		return err
	}
	return os.Remove(name)
}

func RemoveAll(name string) error {
	if _, err := gate(Step{Kind: "remove", Path: name, Mutating: true}); err != nil {
		return err
	}
	return os.RemoveAll(name)
}

func Chmod(name string, m FileMode) error {
	if _, err := gate(Step{Kind: "chmod", Path: name, Mutating: true}); err != nil {
		return err
	}
	return os.Chmod(name, m)
}

func Chtimes(name string, a, m time.Time) error { return os.Chtimes(name, a, m) }

func Truncate(name string, size int64) error {
	if _, err := gate(Step{Kind: "truncate", Path: name, Mutating: true}); err != nil {
		return err
	}
	return os.Truncate(name, size)
}

func IsNotExist(err error) bool   { return os.IsNotExist(err) }
func IsExist(err error) bool      { return os.IsExist(err) }
func IsPermission(err error) bool { return os.IsPermission(err) }
func IsTimeout(err error) bool    { return os.IsTimeout(err) }
func SameFile(a, b FileInfo) bool { return os.SameFile(a, b) }

func Getenv(k string) string            { return os.Getenv(k) }
func LookupEnv(k string) (string, bool) { return os.LookupEnv(k) }
func TempDir() string                   { return os.TempDir() }
func Getpid() int                       { return os.Getpid() }
func Getuid() int                       { return os.Getuid() }
func Hostname() (string, error)         { return os.Hostname() }
func Getwd() (string, error)            { return os.Getwd() }
func UserHomeDir() (string, error)      { return os.UserHomeDir() }
func UserCacheDir() (string, error)     { return os.UserCacheDir() }
func Exit(code int)                     { os.Exit(code) }
func Executable() (string, error)       { return os.Executable() }
func ExpandEnv(s string) string         { return os.ExpandEnv(s) }
func DirFS(dir string) fs.FS            { return os.DirFS(dir) }

// the rest of package os, so that any use of it in the store compiles against the seam
func Readlink(name string) (string, error) {
	if _, err := gate(Step{Kind: "stat", Path: name}); err != nil {
		return "", err
	}
	return os.Readlink(name)
}

func Chown(name string, uid, gid int) error {
	if _, err := gate(Step{Kind: "chown", Path: name, Mutating: true}); err != nil {
		return err
	}
	return os.Chown(name, uid, gid)
}

func Lchown(name string, uid, gid int) error {
	if _, err := gate(Step{Kind: "chown", Path: name, Mutating: true}); err != nil {
		return err
	}
	return os.Lchown(name, uid, gid)
}

func Chdir(dir string) error                        { return os.Chdir(dir) }
func Clearenv()                                     { os.Clearenv() }
func Environ() []string                             { return os.Environ() }
func Expand(s string, m func(string) string) string { return os.Expand(s, m) }
func FindProcess(pid int) (*os.Process, error)      { return os.FindProcess(pid) }
func Getegid() int                                  { return os.Getegid() }
func Geteuid() int                                  { return os.Geteuid() }
func Getgid() int                                   { return os.Getgid() }
func Getgroups() ([]int, error)                     { return os.Getgroups() }
func Getpagesize() int                              { return os.Getpagesize() }
func Getppid() int                                  { return os.Getppid() }
func IsPathSeparator(c uint8) bool                  { return os.IsPathSeparator(c) }
func NewSyscallError(sc string, err error) error    { return os.NewSyscallError(sc, err) }
func Setenv(k, v string) error                      { return os.Setenv(k, v) }
func Unsetenv(k string) error                       { return os.Unsetenv(k) }
func UserConfigDir() (string, error)                { return os.UserConfigDir() }
func CopyFS(dir string, fsys fs.FS) error           { return os.CopyFS(dir, fsys) }
func StartProcess(name string, argv []string, attr *os.ProcAttr) (*os.Process, error) {
	return os.StartProcess(name, argv, attr)
}

// Errno values for fault injection.
var (
	EIO    error = syscall.EIO
	EACCES error = syscall.EACCES
	ENOSPC error = syscall.ENOSPC
	EROFS  error = syscall.EROFS
	EEXIST error = syscall.EEXIST
	EMFILE error = syscall.EMFILE
)
