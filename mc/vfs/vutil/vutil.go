// Package vutil mirrors the helpers of sigs.k8s.io/release-utils/util that a file store uses.
package vutil

import (
	"mcverif/vfs"
)

// Exists mirrors util.Exists: false only when stat reports that the path does not exist.
func Exists(path string) bool {
	if _, err := vfs.Stat(path); vfs.IsNotExist(err) {
		return false
	}
	return true
}
