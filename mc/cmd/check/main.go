// Command check is the single entry point of the explorer:
//
//	check <PROP> <quick|thorough>      supervisor: shards the property's enumeration over worker processes
//	check --worker <PROP> <tier> <shard> <n> <out> <journal>
//	check --replay <file>
package main

import (
	"encoding/json"
	"fmt"
	"os"
	"strconv"

	"mcverif/engine"
	"mcverif/props"
)

func main() {
	if len(os.Args) < 2 {
		fmt.Println("usage: check <PROP> <quick|thorough> | --replay <file>")
		os.Exit(2)
	}
	switch os.Args[1] {
	case "--worker":
		spec, ok := props.Registry[os.Args[2]]
		if !ok {
			os.Exit(2)
		}
		shard, _ := strconv.Atoi(os.Args[4])
		n, _ := strconv.Atoi(os.Args[5])
		os.Exit(engine.Worker(spec, os.Args[3], shard, n, os.Args[6], os.Args[7]))
	case "--replay":
		b, err := os.ReadFile(os.Args[2])
		if err != nil {
			fmt.Println(err)
			os.Exit(2)
		}
		var rf struct{ Property string }
		_ = json.Unmarshal(b, &rf)
		spec, ok := props.Registry[rf.Property]
		if !ok {
			fmt.Println("unknown property in replay file:", rf.Property)
			os.Exit(2)
		}
		os.Exit(engine.Replay(spec, os.Args[2]))
	case "--aux":
		f, ok := props.Aux[os.Args[2]]
		if !ok {
			os.Exit(2)
		}
		os.Exit(f(os.Args[3:]))
	case "--list":
		for id := range props.Registry {
			fmt.Println(id)
		}
	default:
		spec, ok := props.Registry[os.Args[1]]
		if !ok {
			fmt.Println("unknown property", os.Args[1])
			os.Exit(2)
		}
		tier := "quick"
		if len(os.Args) > 2 {
			tier = os.Args[2]
		}
		if tier != "quick" && tier != "thorough" {
			fmt.Println("tier must be quick or thorough")
			os.Exit(2)
		}
		os.Exit(engine.Supervise(spec, tier))
	}
}
