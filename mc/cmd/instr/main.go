// Command instr generates the build overlay that binds the seams to the current
// sources of /repo: every non-test file of the listed packages is copied with
// selected import paths rewritten (the code itself is untouched).
//
//	instr <repo> <outdir> <seam>...      seams: vfs (pkg/storage: os -> mcverif/vfs), sync (reader/writer/formats/storage: sync -> mcverif/vsync)
package main

import (
	"bytes"
	"encoding/json"
	"fmt"
	"go/ast"
	"go/format"
	"go/parser"
	"go/token"
	"os"
	"path/filepath"
	"strconv"
	"strings"
)

type rule struct {
	pkgs    []string
	imports map[string][2]string // old path -> (new path, local name)
}

var seams = map[string]rule{
	"vfs": {pkgs: []string{"pkg/storage"}, imports: map[string][2]string{
		"os":                             {"mcverif/vfs", "os"},
		"sigs.k8s.io/release-utils/util": {"mcverif/vfs/vutil", "util"},
	}},
	"sync": {pkgs: []string{"pkg/reader", "pkg/writer", "pkg/formats", "pkg/storage", "pkg/sbom"}, imports: map[string][2]string{
		"sync":        {"mcverif/vsync", "sync"},
		"sync/atomic": {"mcverif/vsync/vatomic", "atomic"},
	}},
}

func main() {
	if len(os.Args) == 4 && os.Args[1] == "--literals" {
		if err := literals(os.Args[2], os.Args[3]); err != nil {
			fmt.Println("instr: literals:", err)
			os.Exit(3)
		}
		return
	}
	if len(os.Args) >= 4 && os.Args[1] == "--enumerations" {
		if err := enumerations(os.Args[2], os.Args[3:]); err != nil {
			fmt.Println("instr: enumerations:", err)
			os.Exit(3)
		}
		return
	}
	if len(os.Args) < 4 {
		fmt.Println("usage: instr <repo> <outdir> <seam>...")
		os.Exit(2)
	}
	repo, out := os.Args[1], os.Args[2]
	overlay := map[string]string{}
	rewritten := 0
	for _, sn := range os.Args[3:] {
		if sn == "maporder" {
			// must be listed first: it type-checks the original sources; the import seams are applied on top of its output
			n, err := mapOrderSeam(repo, out, overlay)
			if err != nil {
				fmt.Println("instr: maporder:", err)
				os.Exit(3)
			}
			fmt.Printf("instr: maporder: %d map range statements rewritten\n", n)
			continue
		}
		if sn == "points" {
			// must be listed last: it works on top of the files the other seams produced
			n, err := pointsSeam(repo, out, overlay)
			if err != nil {
				fmt.Println("instr: points:", err)
				os.Exit(3)
			}
			fmt.Printf("instr: points: %d code points inserted\n", n)
			continue
		}
		r, ok := seams[sn]
		if !ok {
			fmt.Println("unknown seam", sn)
			os.Exit(2)
		}
		for _, pkg := range r.pkgs {
			files, _ := filepath.Glob(filepath.Join(repo, pkg, "*.go"))
			for _, f := range files {
				if strings.HasSuffix(f, "_test.go") || strings.HasSuffix(f, ".pb.go") {
					continue // generated protobuf code keeps the real sync package (descriptor initialisation)
				}
				src := f
				if prev, ok := overlay[f]; ok {
					src = prev // apply a second seam on top of the first
				}
				fset := token.NewFileSet()
				af, err := parser.ParseFile(fset, src, nil, parser.ParseComments)
				if err != nil {
					fmt.Println("instr: cannot parse", f, err)
					os.Exit(3)
				}
				changed := false
				for _, is := range af.Imports {
					p, _ := strconv.Unquote(is.Path.Value)
					if nw, ok := r.imports[p]; ok {
						is.Path.Value = strconv.Quote(nw[0])
						if is.Name == nil {
							is.Name = ast.NewIdent(nw[1])
						}
						changed = true
					}
				}
				if !changed {
					continue
				}
				var buf bytes.Buffer
				if err := format.Node(&buf, fset, af); err != nil {
					fmt.Println("instr: cannot print", f, err)
					os.Exit(3)
				}
				dst := filepath.Join(out, sn+"-"+strings.ReplaceAll(strings.TrimPrefix(f, repo+"/"), "/", "_"))
				if err := os.WriteFile(dst, buf.Bytes(), 0o644); err != nil {
					fmt.Println(err)
					os.Exit(3)
				}
				overlay[f] = dst
				rewritten++
			}
		}
	}
	b, _ := json.MarshalIndent(map[string]any{"Replace": overlay}, "", " ")
	if err := os.WriteFile(filepath.Join(out, "overlay.json"), b, 0o644); err != nil {
		fmt.Println(err)
		os.Exit(3)
	}
	fmt.Printf("instr: %d files rewritten\n", rewritten)
}
