package main

import (
	"bytes"
	"crypto/sha256"
	"encoding/hex"
	"encoding/json"
	"fmt"
	"go/ast"
	"go/format"
	"go/importer"
	"go/parser"
	"go/token"
	"go/types"
	"os"
	"path/filepath"
	"sort"
	"strconv"
	"strings"
)

// mapOrderPkgs are the library packages whose map iterations are put under the harness's control.
var mapOrderPkgs = []string{"pkg/sbom", "pkg/native", "pkg/native/serializers", "pkg/native/unserializers", "pkg/formats", "pkg/formats/spdx", "pkg/formats/cyclonedx", "pkg/reader", "pkg/writer", "pkg/storage"}

// mapOrderSeam type-checks each package and rewrites every `range` over a map-typed expression into a loop
// over vmap.Keys. Returns file -> rewritten path.
func mapOrderSeam(repo, out string, overlay map[string]string) (int, error) {
	sites := 0
	// cache: the rewritten files only depend on the packages' sources
	h := sha256.New()
	h.Write([]byte("maporder-v1"))
	for _, pkg := range mapOrderPkgs {
		files, _ := filepath.Glob(filepath.Join(repo, pkg, "*.go"))
		sort.Strings(files)
		for _, f := range files {
			if strings.HasSuffix(f, "_test.go") {
				continue
			}
			b, _ := os.ReadFile(f)
			fmt.Fprintf(h, "%s %d\n", f, len(b))
			h.Write(b)
		}
	}
	stamp := hex.EncodeToString(h.Sum(nil))
	cache := filepath.Join(filepath.Dir(out), "overlay-maporder-cache")
	if b, err := os.ReadFile(filepath.Join(cache, "stamp")); err == nil && string(b) == stamp {
		var idx struct {
			Sites int
			Files map[string]string
		}
		if ib, err := os.ReadFile(filepath.Join(cache, "index.json")); err == nil && json.Unmarshal(ib, &idx) == nil {
			okAll := true
			for src, base := range idx.Files {
				data, err := os.ReadFile(filepath.Join(cache, base))
				if err != nil {
					okAll = false
					break
				}
				dst := filepath.Join(out, base)
				if os.WriteFile(dst, data, 0o644) != nil {
					okAll = false
					break
				}
				overlay[src] = dst
			}
			if okAll {
				return idx.Sites, nil
			}
		}
	}
	_ = os.RemoveAll(cache)
	_ = os.MkdirAll(cache, 0o755)
	cached := map[string]string{}
	defer func() {
		if sites > 0 {
			ib, _ := json.Marshal(map[string]any{"Sites": sites, "Files": cached})
			_ = os.WriteFile(filepath.Join(cache, "index.json"), ib, 0o644)
			_ = os.WriteFile(filepath.Join(cache, "stamp"), []byte(stamp), 0o644)
		}
	}()
	fset := token.NewFileSet()
	imp := importer.ForCompiler(fset, "source", nil)
	oldwd, _ := os.Getwd()
	if err := os.Chdir(repo); err != nil { // the source importer resolves module imports relative to the working directory
		return 0, err
	}
	defer os.Chdir(oldwd) //nolint:errcheck
	for _, pkg := range mapOrderPkgs {
		files, _ := filepath.Glob(filepath.Join(repo, pkg, "*.go"))
		var afs []*ast.File
		var names []string
		for _, f := range files {
			if strings.HasSuffix(f, "_test.go") {
				continue
			}
			af, err := parser.ParseFile(fset, f, nil, parser.ParseComments)
			if err != nil {
				return 0, fmt.Errorf("parse %s: %w", f, err)
			}
			afs = append(afs, af)
			names = append(names, f)
		}
		if len(afs) == 0 {
			continue
		}
		var terr error
		conf := types.Config{Importer: imp, Error: func(err error) {
			if terr == nil {
				terr = err
			}
		}}
		info := &types.Info{Types: map[ast.Expr]types.TypeAndValue{}}
		if _, err := conf.Check(pkg, fset, afs, info); err != nil || terr != nil {
			return 0, fmt.Errorf("type-check %s: %v %v", pkg, err, terr)
		}
		for i, af := range afs {
			n := rewriteMapRanges(af, info)
			if n == 0 {
				continue
			}
			sites += n
			addImport(af, "mcverif/vmap")
			af.Decls = append(af.Decls, initDecl(n))
			var buf bytes.Buffer
			if err := format.Node(&buf, fset, af); err != nil {
				return 0, fmt.Errorf("print %s: %w", names[i], err)
			}
			dst := filepath.Join(out, "maporder-"+strings.ReplaceAll(strings.TrimPrefix(names[i], repo+"/"), "/", "_"))
			if err := os.WriteFile(dst, buf.Bytes(), 0o644); err != nil {
				return 0, err
			}
			_ = os.WriteFile(filepath.Join(cache, filepath.Base(dst)), buf.Bytes(), 0o644)
			cached[names[i]] = filepath.Base(dst)
			overlay[names[i]] = dst
		}
	}
	return sites, nil
}

func isMapRange(rs *ast.RangeStmt, info *types.Info) bool {
	tv, ok := info.Types[rs.X]
	if !ok || tv.Type == nil {
		return false
	}
	_, isMap := tv.Type.Underlying().(*types.Map)
	return isMap
}

var counter int

func rewriteMapRanges(af *ast.File, info *types.Info) int {
	n := 0
	rewriteList := func(list []ast.Stmt) {
		for i, s := range list {
			switch st := s.(type) {
			case *ast.RangeStmt:
				if isMapRange(st, info) {
					list[i] = convert(st, nil)
					n++
				}
			case *ast.LabeledStmt:
				if rs, ok := st.Stmt.(*ast.RangeStmt); ok && isMapRange(rs, info) {
					list[i] = convert(rs, st.Label)
					n++
				}
			}
		}
	}
	ast.Inspect(af, func(nd ast.Node) bool {
		switch b := nd.(type) {
		case *ast.BlockStmt:
			rewriteList(b.List)
		case *ast.CaseClause:
			rewriteList(b.Body)
		case *ast.CommClause:
			rewriteList(b.Body)
		}
		return true
	})
	return n
}

func ident(s string) *ast.Ident { return ast.NewIdent(s) }

func isBlank(e ast.Expr) bool {
	if e == nil {
		return true
	}
	id, ok := e.(*ast.Ident)
	return ok && id.Name == "_"
}

// convert builds
//
//	{ __mN := X; [L:] for _, __kN := range vmap.Keys(__mN) { __vN, __okN := __mN[__kN]; if !__okN { continue }; K, V := __kN, __vN; body } }
func convert(rs *ast.RangeStmt, label *ast.Ident) ast.Stmt {
	counter++
	sfx := strconv.Itoa(counter)
	m, k, v, ok := "__vm_m"+sfx, "__vm_k"+sfx, "__vm_v"+sfx, "__vm_ok"+sfx
	var prelude []ast.Stmt
	needV := !isBlank(rs.Value)
	vLHS := ast.Expr(ident("_"))
	if needV {
		vLHS = ident(v)
	}
	prelude = append(prelude,
		&ast.AssignStmt{Lhs: []ast.Expr{vLHS, ident(ok)}, Tok: token.DEFINE, Rhs: []ast.Expr{&ast.IndexExpr{X: ident(m), Index: ident(k)}}},
		&ast.IfStmt{Cond: &ast.UnaryExpr{Op: token.NOT, X: ident(ok)}, Body: &ast.BlockStmt{List: []ast.Stmt{&ast.BranchStmt{Tok: token.CONTINUE}}}},
	)
	var lhs, rhs []ast.Expr
	if !isBlank(rs.Key) {
		lhs, rhs = append(lhs, rs.Key), append(rhs, ident(k))
	}
	if needV {
		lhs, rhs = append(lhs, rs.Value), append(rhs, ident(v))
	}
	if len(lhs) > 0 {
		tok := rs.Tok
		if tok != token.DEFINE && tok != token.ASSIGN {
			tok = token.DEFINE
		}
		prelude = append(prelude, &ast.AssignStmt{Lhs: lhs, Tok: tok, Rhs: rhs})
	}
	body := &ast.BlockStmt{List: append(prelude, rs.Body.List...)}
	loop := ast.Stmt(&ast.RangeStmt{
		Key: ident("_"), Value: ident(k), Tok: token.DEFINE,
		X:    &ast.CallExpr{Fun: &ast.SelectorExpr{X: ident("vmap"), Sel: ident("Keys")}, Args: []ast.Expr{ident(m)}},
		Body: body,
	})
	if label != nil {
		loop = &ast.LabeledStmt{Label: label, Stmt: loop}
	}
	return &ast.BlockStmt{List: []ast.Stmt{
		&ast.AssignStmt{Lhs: []ast.Expr{ident(m)}, Tok: token.DEFINE, Rhs: []ast.Expr{rs.X}},
		loop,
	}}
}

func addImport(af *ast.File, path string) {
	for _, is := range af.Imports {
		if p, _ := strconv.Unquote(is.Path.Value); p == path {
			return
		}
	}
	spec := &ast.ImportSpec{Path: &ast.BasicLit{Kind: token.STRING, Value: strconv.Quote(path)}}
	af.Imports = append(af.Imports, spec)
	for _, d := range af.Decls {
		if gd, ok := d.(*ast.GenDecl); ok && gd.Tok == token.IMPORT {
			gd.Specs = append(gd.Specs, spec)
			if !gd.Lparen.IsValid() {
				gd.Lparen = gd.Pos() // force parenthesised form
			}
			return
		}
	}
	af.Decls = append([]ast.Decl{&ast.GenDecl{Tok: token.IMPORT, Specs: []ast.Spec{spec}}}, af.Decls...)
}

// initDecl: func init() { vmap.On = true; vmap.Sites += n }
func initDecl(n int) ast.Decl {
	return &ast.FuncDecl{Name: ident("init"), Type: &ast.FuncType{Params: &ast.FieldList{}}, Body: &ast.BlockStmt{List: []ast.Stmt{
		&ast.AssignStmt{Lhs: []ast.Expr{&ast.SelectorExpr{X: ident("vmap"), Sel: ident("On")}}, Tok: token.ASSIGN, Rhs: []ast.Expr{ident("true")}},
		&ast.AssignStmt{Lhs: []ast.Expr{&ast.SelectorExpr{X: ident("vmap"), Sel: ident("Sites")}}, Tok: token.ADD_ASSIGN, Rhs: []ast.Expr{&ast.BasicLit{Kind: token.INT, Value: strconv.Itoa(n)}}},
	}}}
}
