package main

import (
	"bytes"
	"fmt"
	"go/ast"
	"go/format"
	"go/parser"
	"go/token"
	"os"
	"path/filepath"
	"strconv"
	"strings"
)

// pointsPkgs: the library packages that get code points (function entries and loop bodies).
var pointsPkgs = []string{"pkg/sbom", "pkg/native/serializers", "pkg/native/unserializers", "pkg/formats", "pkg/formats/spdx", "pkg/formats/cyclonedx", "pkg/reader", "pkg/writer", "pkg/storage"}

// pointsSeam inserts `vpoint.P()` at the entry of every function (methods and function literals included) and at the
// top of every for / range body, on top of whatever earlier seams produced. Generated files (*.pb.go) are left alone.
func pointsSeam(repo, out string, overlay map[string]string) (int, error) {
	sites := 0
	call := func() ast.Stmt {
		return &ast.ExprStmt{X: &ast.CallExpr{Fun: &ast.SelectorExpr{X: ast.NewIdent("vpoint"), Sel: ast.NewIdent("P")}}}
	}
	first := true
	for _, pkg := range pointsPkgs {
		files, _ := filepath.Glob(filepath.Join(repo, pkg, "*.go"))
		for _, f := range files {
			if strings.HasSuffix(f, "_test.go") || strings.HasSuffix(f, ".pb.go") {
				continue
			}
			src := f
			if prev, ok := overlay[f]; ok {
				src = prev
			}
			fset := token.NewFileSet()
			af, err := parser.ParseFile(fset, src, nil, parser.ParseComments)
			if err != nil {
				return 0, fmt.Errorf("cannot parse %s: %v", f, err)
			}
			n := 0
			ast.Inspect(af, func(nd ast.Node) bool {
				var body *ast.BlockStmt
				switch x := nd.(type) {
				case *ast.FuncDecl:
					if x.Name.Name == "init" {
						return true // package initialisation runs before any scheduler exists; its loops still get points (harmless: the seam is off)
					}
					body = x.Body
				case *ast.FuncLit:
					body = x.Body
				case *ast.ForStmt:
					body = x.Body
				case *ast.RangeStmt:
					body = x.Body
				}
				if body != nil {
					body.List = append([]ast.Stmt{call()}, body.List...)
					n++
				}
				return true
			})
			if n == 0 {
				continue
			}
			sites += n
			// import
			imp := &ast.ImportSpec{Path: &ast.BasicLit{Kind: token.STRING, Value: strconv.Quote("mcverif/vpoint")}}
			af.Imports = append(af.Imports, imp)
			gd := &ast.GenDecl{Tok: token.IMPORT, Specs: []ast.Spec{imp}}
			// the import declaration goes right after the existing ones (or first)
			pos := 0
			for i, d := range af.Decls {
				if g, ok := d.(*ast.GenDecl); ok && g.Tok == token.IMPORT {
					pos = i + 1
				}
			}
			af.Decls = append(af.Decls[:pos], append([]ast.Decl{gd}, af.Decls[pos:]...)...)
			var buf bytes.Buffer
			if err := format.Node(&buf, fset, af); err != nil {
				return 0, fmt.Errorf("cannot print %s: %v", f, err)
			}
			text := buf.String()
			if first {
				first = false
				text += "\nfunc init() { vpoint.Sites = -1 }\n" // replaced below once the total is known
			}
			dst := filepath.Join(out, "points-"+strings.ReplaceAll(strings.TrimPrefix(f, repo+"/"), "/", "_"))
			if err := os.WriteFile(dst, []byte(text), 0o644); err != nil {
				return 0, err
			}
			overlay[f] = dst
		}
	}
	// write the total into the one init function
	for _, dst := range overlay {
		b, err := os.ReadFile(dst)
		if err == nil && bytes.Contains(b, []byte("vpoint.Sites = -1")) {
			_ = os.WriteFile(dst, bytes.Replace(b, []byte("vpoint.Sites = -1"), []byte(fmt.Sprintf("vpoint.Sites = %d", sites)), 1), 0o644)
		}
	}
	return sites, nil
}
