package main

import (
	"encoding/json"
	"go/ast"
	"go/parser"
	"go/token"
	"os"
	"path/filepath"
	"strconv"
	"strings"
)

// enumerations extracts the closed value sets of the two format libraries the translators are written against: every
// const block of their (non-test) sources that declares three or more string constants is one enumeration (checksum
// algorithms, relationship types, component types, external reference types, ...). The checks let every member of
// an input that holds one value of an enumeration take all the others.
func enumerations(outFile string, dirs []string) error {
	var enums [][]string
	for _, dir := range dirs {
		ents, err := os.ReadDir(dir)
		if err != nil {
			return err
		}
		for _, e := range ents {
			if e.IsDir() || !strings.HasSuffix(e.Name(), ".go") || strings.HasSuffix(e.Name(), "_test.go") {
				continue
			}
			f, err := parser.ParseFile(token.NewFileSet(), filepath.Join(dir, e.Name()), nil, 0)
			if err != nil {
				continue
			}
			for _, d := range f.Decls {
				gd, ok := d.(*ast.GenDecl)
				if !ok || gd.Tok != token.CONST {
					continue
				}
				var vals []string
				for _, sp := range gd.Specs {
					vs, ok := sp.(*ast.ValueSpec)
					if !ok {
						continue
					}
					for _, v := range vs.Values {
						if bl, ok := v.(*ast.BasicLit); ok && bl.Kind == token.STRING {
							if s, err := strconv.Unquote(bl.Value); err == nil && s != "" && len(s) <= 64 {
								vals = append(vals, s)
							}
						}
					}
				}
				if len(vals) >= 3 {
					enums = append(enums, vals)
				}
			}
		}
	}
	b, _ := json.Marshal(enums)
	tmp := outFile + ".tmp" + strconv.Itoa(os.Getpid())
	if err := os.WriteFile(tmp, b, 0o644); err != nil {
		return err
	}
	return os.Rename(tmp, outFile)
}
