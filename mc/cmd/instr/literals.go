package main

import (
	"encoding/json"
	"go/ast"
	"go/parser"
	"go/token"
	"os"
	"path/filepath"
	"sort"
	"strconv"
	"strings"
)

// literals extracts the string literals of the library's current non-test sources:
//
//	all         every string literal (<= 48 bytes, single line): the vocabulary the code knows
//	structural  literals the code searches for, splits on, trims, joins with or compares against: arguments of
//	            strings/bytes/regexp/path functions, operands of == / != / +, declared string constants
//
// The checks derive value menus from them (gen.Vocabulary, gen.TokenCompositions), so that a word or separator a
// change introduces into the code is in the alphabets of the run that checks that change.
func literals(repo, outFile string) error {
	all, structural := map[string]bool{}, map[string]bool{}
	lit := func(e ast.Expr) (string, bool) {
		bl, ok := e.(*ast.BasicLit)
		if !ok || bl.Kind != token.STRING {
			return "", false
		}
		s, err := strconv.Unquote(bl.Value)
		if err != nil || s == "" || len(s) > 48 || strings.ContainsAny(s, "\n\x00") {
			return "", false
		}
		return s, true
	}
	searchPkgs := map[string]bool{"strings": true, "bytes": true, "regexp": true, "filepath": true, "path": true, "slices": true}
	err := filepath.Walk(filepath.Join(repo, "pkg"), func(p string, info os.FileInfo, err error) error {
		if err != nil || info.IsDir() || !strings.HasSuffix(p, ".go") || strings.HasSuffix(p, "_test.go") {
			return nil
		}
		fset := token.NewFileSet()
		f, err := parser.ParseFile(fset, p, nil, 0)
		if err != nil {
			return nil
		}
		generated := strings.HasSuffix(p, ".pb.go") // enum name tables: vocabulary, not structure
		ast.Inspect(f, func(n ast.Node) bool {
			switch x := n.(type) {
			case *ast.ImportSpec:
				return false
			case *ast.BasicLit:
				if s, ok := lit(x); ok {
					all[s] = true
				}
				return true
			}
			if generated {
				return true
			}
			switch x := n.(type) {
			case *ast.CallExpr:
				if se, ok := x.Fun.(*ast.SelectorExpr); ok {
					if id, ok := se.X.(*ast.Ident); ok && searchPkgs[id.Name] {
						for _, a := range x.Args {
							if s, ok := lit(a); ok {
								structural[s] = true
							}
						}
					}
				}
			case *ast.BinaryExpr:
				if x.Op == token.EQL || x.Op == token.NEQ || x.Op == token.ADD {
					for _, e := range []ast.Expr{x.X, x.Y} {
						if s, ok := lit(e); ok && len(s) <= 16 {
							structural[s] = true
						}
					}
				}
			case *ast.CompositeLit:
				// short literals in slices and maps: separator lists, prefix tables
				for _, e := range x.Elts {
					if kv, ok := e.(*ast.KeyValueExpr); ok {
						if s, ok := lit(kv.Key); ok && len(s) <= 8 {
							structural[s] = true
						}
						e = kv.Value
					}
					if s, ok := lit(e); ok && len(s) <= 8 {
						structural[s] = true
					}
				}
			case *ast.GenDecl:
				if x.Tok == token.CONST {
					for _, sp := range x.Specs {
						if vs, ok := sp.(*ast.ValueSpec); ok {
							for _, v := range vs.Values {
								if s, ok := lit(v); ok && len(s) <= 16 {
									structural[s] = true
								}
							}
						}
					}
				}
			}
			return true
		})
		return nil
	})
	if err != nil {
		return err
	}
	list := func(m map[string]bool) []string {
		var l []string
		for s := range m {
			l = append(l, s)
		}
		sort.Strings(l)
		return l
	}
	b, _ := json.Marshal(map[string][]string{"all": list(all), "structural": list(structural)})
	tmp := outFile + ".tmp" + strconv.Itoa(os.Getpid())
	if err := os.WriteFile(tmp, b, 0o644); err != nil {
		return err
	}
	return os.Rename(tmp, outFile)
}
