module mcverif

go 1.22.4

require (
	github.com/CycloneDX/cyclonedx-go v0.9.0
	github.com/protobom/protobom v0.0.0
	github.com/sirupsen/logrus v1.9.3
	github.com/spdx/tools-golang v0.5.5
	google.golang.org/protobuf v1.34.2
)

require (
	github.com/anchore/go-struct-converter v0.0.0-20230627203149-c72ef8859ca9 // indirect
	github.com/blang/semver/v4 v4.0.0 // indirect
	github.com/common-nighthawk/go-figure v0.0.0-20210622060536-734e95fb86be // indirect
	github.com/google/go-cmp v0.6.0 // indirect
	github.com/google/uuid v1.6.0 // indirect
	github.com/spf13/cobra v1.8.0 // indirect
	github.com/spf13/pflag v1.0.5 // indirect
	golang.org/x/sys v0.20.0 // indirect
	sigs.k8s.io/release-utils v0.8.2 // indirect
)

replace github.com/protobom/protobom => /repo
