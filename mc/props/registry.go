// Package props registers every property's explorer.
package props

import (
	"mcverif/engine"
	"mcverif/props/c15"
)

var Registry = map[string]engine.Spec{
	"C15": c15.Spec,
}
