// Package props registers every property's explorer.
package props

import (
	"mcverif/engine"
	"mcverif/props/c09"
	"mcverif/props/c10"
	"mcverif/props/c15"
	"mcverif/props/c16"
)

var Registry = map[string]engine.Spec{
	"C09": c09.Spec,
	"C10": c10.Spec,
	"C15": c15.Spec,
	"C16": c16.Spec,
}
