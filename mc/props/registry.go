// Package props registers every property's explorer.
package props

import (
	"mcverif/engine"
	"mcverif/props/c01"
	"mcverif/props/c02"
	"mcverif/props/c03"
	"mcverif/props/c04"
	"mcverif/props/c05"
	"mcverif/props/c06"
	"mcverif/props/c07"
	"mcverif/props/c08"
	"mcverif/props/c09"
	"mcverif/props/c10"
	"mcverif/props/c11"
	"mcverif/props/c12"
	"mcverif/props/c13"
	"mcverif/props/c14"
	"mcverif/props/c15"
	"mcverif/props/c16"
	"mcverif/props/c17"
	"mcverif/props/c18"
	"mcverif/props/store"
)

var Registry = map[string]engine.Spec{
	"C01": c01.Spec,
	"C02": c02.Spec,
	"C03": c03.Spec,
	"C04": c04.Spec,
	"C05": c05.Spec,
	"C06": c06.Spec,
	"C07": c07.Spec,
	"C08": c08.Spec,
	"C09": c09.Spec,
	"C10": c10.Spec,
	"C11": c11.Spec,
	"C12": c12.Spec,
	"C13": c13.Spec,
	"C14": c14.Spec,
	"C15": c15.Spec,
	"C16": c16.Spec,
	"C17": c17.Spec,
	"C18": c18.Spec,
	"C19": store.SpecC19,
	"C20": store.SpecC20,
}

// Aux are helper entry points run in fresh child processes by some checks.
var Aux = map[string]func(args []string) int{
	"c07ref":      c07.Aux,
	"c04probe":    c04.Aux,
	"c18hist":     c18.Aux,
	"c17race":     c17.Aux,
	"c17first":    c17.AuxFirst,
	"c20syscalls": store.AuxSyscalls,
	"c11race":     c11.Aux,
	"c06ref":      c06.Aux,
	"c05ref":      c05.Aux,
}
