// Package c02: CycloneDX write-then-read round trip preserves components and containment.
package c02

import (
	"fmt"
	"sort"
	"strings"
	"time"

	"github.com/protobom/protobom/pkg/formats"
	"github.com/protobom/protobom/pkg/sbom"
	"google.golang.org/protobuf/types/known/timestamppb"

	"mcverif/engine"
	"mcverif/gen"
	"mcverif/rw"
)

var Spec = engine.Spec{
	ID: "C02", Run: Run, MapOrders: true, QuickBud: 6 * time.Minute, ThorBud: 60 * time.Minute,
	Technique: "explicit enumeration of every labelled containment tree with a fixed root and <=4 (thorough 5) further nodes x both edge encodings (one edge object per parent / per child) x every permutation of the stored edge list x CycloneDX 1.4 and 1.5, complete enum sweeps per spec version, and every set of <=2 (thorough 3) attribute deviations, through the real writer and reader against a parent-function model and a per-attribute comparison; second pass must change nothing",
	Rule:      "case = (tree as parent function, encoding, edge-list permutation, spec version) or one enum value or one attribute-deviation set; distinct state = canonical document key + version",
	Assume: []string{
		"identifiers are non-reserved (not starting with protobom-auto); at most one CPE identifier per node",
		"a node without a natively representable purpose has no native component type: the encoder default is not judged",
		"document name is left unset except in the dedicated group (the serializer maps it onto the root component's name)",
	},
}

var versions = []formats.Format{formats.CDX14JSON, formats.CDX15JSON}

func docOf(nl *sbom.NodeList) *sbom.Document {
	d := sbom.NewDocument()
	d.Metadata.Id = "urn:uuid:3e671687-395b-41f5-a30f-a58921a69b79"
	d.Metadata.Version = "1"
	d.NodeList = nl
	return d
}

// parentKey renders the containment relation + node set + roots of a list.
func parentKey(nl *sbom.NodeList) string {
	var ns []string
	for _, n := range nl.Nodes {
		ns = append(ns, fmt.Sprintf("%s/%d", n.Id, n.Type))
	}
	sort.Strings(ns)
	pairs := map[string]bool{}
	other := map[string]bool{}
	for _, e := range nl.Edges {
		for _, t := range e.To {
			if e.Type == sbom.Edge_contains {
				pairs[e.From+">"+t] = true
			} else {
				other[fmt.Sprintf("%s-%d->%s", e.From, e.Type, t)] = true
			}
		}
	}
	ks := func(m map[string]bool) string {
		var l []string
		for k := range m {
			l = append(l, k)
		}
		sort.Strings(l)
		return strings.Join(l, ",")
	}
	r := append([]string{}, nl.RootElements...)
	sort.Strings(r)
	return "N" + strings.Join(ns, ",") + "|C" + ks(pairs) + "|O" + ks(other) + "|R" + strings.Join(r, ",")
}

var native15 = map[sbom.Purpose]bool{
	sbom.Purpose_APPLICATION: true, sbom.Purpose_FRAMEWORK: true, sbom.Purpose_LIBRARY: true, sbom.Purpose_CONTAINER: true, sbom.Purpose_OPERATING_SYSTEM: true,
	sbom.Purpose_DEVICE: true, sbom.Purpose_FIRMWARE: true, sbom.Purpose_FILE: true,
	sbom.Purpose_PLATFORM: true, sbom.Purpose_DEVICE_DRIVER: true, sbom.Purpose_MACHINE_LEARNING_MODEL: true, sbom.Purpose_DATA: true,
}
var only15Purpose = map[sbom.Purpose]bool{sbom.Purpose_PLATFORM: true, sbom.Purpose_DEVICE_DRIVER: true, sbom.Purpose_MACHINE_LEARNING_MODEL: true, sbom.Purpose_DATA: true}

func nativePurpose(p sbom.Purpose, f formats.Format) bool {
	if !native15[p] {
		return false
	}
	return f == formats.CDX15JSON || !only15Purpose[p]
}

// external reference types with a CycloneDX counterpart, and the ones that exist from 1.5 only.
var mappedRefs, only15Refs = map[string]bool{}, map[string]bool{}

func init() {
	for _, n := range strings.Fields("ATTESTATION BOM BUILD_META BUILD_SYSTEM CERTIFICATION_REPORT CHAT CODIFIED_INFRASTRUCTURE COMPONENT_ANALYSIS_REPORT CONFIGURATION DISTRIBUTION_INTAKE DOWNLOAD DOCUMENTATION DYNAMIC_ANALYSIS_REPORT EVIDENCE FORMULATION ISSUE_TRACKER LICENSE LOG MAILING_LIST MATURITY_REPORT MODEL_CARD OTHER POAM QUALITY_METRICS RELEASE_NOTES RISK_ASSESSMENT RUNTIME_ANALYSIS_REPORT SECURITY_ADVERSARY_MODEL SECURITY_ADVISORY SECURITY_CONTACT SECURITY_PENTEST_REPORT SECURITY_THREAT_MODEL SOCIAL STATIC_ANALYSIS_REPORT SUPPORT VCS VULNERABILITY_ASSERTION VULNERABILITY_EXPLOITABILITY_ASSESSMENT WEBSITE") {
		mappedRefs[n] = true
	}
	for _, n := range strings.Fields("SECURITY_ADVERSARY_MODEL ATTESTATION CERTIFICATION_REPORT CODIFIED_INFRASTRUCTURE COMPONENT_ANALYSIS_REPORT CONFIGURATION DISTRIBUTION_INTAKE DYNAMIC_ANALYSIS_REPORT EVIDENCE FORMULATION LOG MATURITY_REPORT MODEL_CARD SECURITY_PENTEST_REPORT QUALITY_METRICS RISK_ASSESSMENT RUNTIME_ANALYSIS_REPORT STATIC_ANALYSIS_REPORT SECURITY_THREAT_MODEL VULNERABILITY_ASSERTION VULNERABILITY_EXPLOITABILITY_ASSESSMENT") {
		only15Refs[n] = true
	}
}

func expectedRefType(t sbom.ExternalReference_ExternalReferenceType, f formats.Format) sbom.ExternalReference_ExternalReferenceType {
	name := sbom.ExternalReference_ExternalReferenceType_name[int32(t)]
	if mappedRefs[name] && (f == formats.CDX15JSON || !only15Refs[name]) {
		return t
	}
	return sbom.ExternalReference_OTHER
}

var cdxHash = map[sbom.HashAlgorithm]bool{
	sbom.HashAlgorithm_MD5: true, sbom.HashAlgorithm_SHA1: true, sbom.HashAlgorithm_SHA256: true, sbom.HashAlgorithm_SHA384: true, sbom.HashAlgorithm_SHA512: true,
	sbom.HashAlgorithm_SHA3_256: true, sbom.HashAlgorithm_SHA3_384: true, sbom.HashAlgorithm_SHA3_512: true,
	sbom.HashAlgorithm_BLAKE2B_256: true, sbom.HashAlgorithm_BLAKE2B_384: true, sbom.HashAlgorithm_BLAKE2B_512: true, sbom.HashAlgorithm_BLAKE3: true,
}

func hashKey(m map[int32]string, in bool) string {
	var l []string
	for k, v := range m {
		if in && !cdxHash[sbom.HashAlgorithm(k)] {
			continue
		}
		l = append(l, fmt.Sprintf("%d=%s", k, v))
	}
	sort.Strings(l)
	return strings.Join(l, ",")
}

// attrs renders the CycloneDX-expressible attributes. in=true: expectation from the input node.
func attrs(n *sbom.Node, in bool, f formats.Format) map[string]string {
	a := map[string]string{"name": n.Name, "version": n.Version, "description": n.Description, "copyright": n.Copyright, "kind": fmt.Sprint(n.Type)}
	a["purl"] = n.Identifiers[int32(sbom.SoftwareIdentifierType_PURL)]
	cpe := n.Identifiers[int32(sbom.SoftwareIdentifierType_CPE23)]
	if cpe == "" {
		cpe = n.Identifiers[int32(sbom.SoftwareIdentifierType_CPE22)]
	}
	a["cpe"] = cpe
	a["hashes"] = hashKey(n.Hashes, in)
	a["licenses"] = strings.Join(n.Licenses, "|")
	var refs []string
	for _, r := range n.ExternalReferences {
		t := r.Type
		if in {
			t = expectedRefType(t, f)
		}
		refs = append(refs, fmt.Sprintf("%d|%s|%s|%s", t, r.Url, r.Comment, hashKey(r.Hashes, in)))
	}
	sort.Strings(refs)
	a["external_references"] = strings.Join(refs, ";")
	if in {
		if n.Type == sbom.Node_FILE {
			a["purpose"] = "*"
		} else if len(n.PrimaryPurpose) == 1 && nativePurpose(n.PrimaryPurpose[0], f) {
			a["purpose"] = fmt.Sprint(n.PrimaryPurpose[0])
		} else {
			a["purpose"] = "*" // no native component type: encoder default not judged
		}
	} else {
		p := ""
		if len(n.PrimaryPurpose) > 0 {
			p = fmt.Sprint(n.PrimaryPurpose[0])
		}
		a["purpose"] = p
	}
	return a
}

// RoundTrip checks one document at one version.
func RoundTrip(t *engine.T, d *sbom.Document, f formats.Format) *engine.Violation {
	out, err := rw.Write(d, f, 2)
	t.Transitions(1)
	if err != nil {
		return engine.Violate("write-error", "", "writing a single-rooted containment tree failed: %v", err)
	}
	if n, err := rw.NormalizeJSON(out); err == nil {
		t.Observe(n) // the written document must not depend on the map iteration order
	}
	back, err := rw.Read(out)
	t.Transitions(1)
	if err != nil {
		return engine.Violate("read-error", "", "reading the writer's output failed: %v", err)
	}
	t.Validated(1)
	if k1, k2 := parentKey(d.NodeList), parentKey(back.NodeList); k1 != k2 {
		return engine.Violate("tree", treeTrigger(d.NodeList), "containment tree changed:\n in  %s\n out %s", k1, k2)
	}
	for _, n := range d.NodeList.Nodes {
		b := back.NodeList.GetNodeByID(n.Id)
		want, got := attrs(n, true, f), attrs(b, false, f)
		for k, w := range want {
			if w == "*" {
				continue
			}
			if got[k] != w {
				trig := k
				if k == "licenses" && len(n.Licenses) > 1 {
					trig = "licence-list-longer-than-one"
				}
				if k == "name" && d.Metadata.Name != "" && len(d.NodeList.RootElements) == 1 && d.NodeList.RootElements[0] == n.Id {
					trig = "document-name-set"
				}
				return engine.Violate("attribute", trig, "%s node %s attribute %s: wrote %q, read back %q", f, n.Id, k, w, got[k])
			}
		}
	}
	if back.Metadata.Id != d.Metadata.Id || back.Metadata.Version != d.Metadata.Version {
		return engine.Violate("document", "serial-version", "serial number / version changed: %q/%q -> %q/%q", d.Metadata.Id, d.Metadata.Version, back.Metadata.Id, back.Metadata.Version)
	}
	if f == formats.CDX15JSON {
		if a, b := docTypes(d), docTypes(back); a != b {
			return engine.Violate("document", "lifecycles", "lifecycle types changed: %s -> %s", a, b)
		}
	}
	out2, err := rw.Write(back, f, 2)
	if err != nil {
		return engine.Violate("second-pass", "", "second write failed: %v", err)
	}
	back2, err := rw.Read(out2)
	t.Transitions(2)
	if err != nil {
		return engine.Violate("second-pass", "", "second read failed: %v", err)
	}
	if c1, c2 := gen.Canon(back.NodeList, nil), gen.Canon(back2.NodeList, nil); c1 != c2 {
		return engine.Violate("second-pass", "", "a second write-then-read pass changed the document: %s", gen.SnapDiff(c1, c2))
	}
	return nil
}

var nativeLifecycle = map[sbom.DocumentType_SBOMType]bool{
	sbom.DocumentType_DESIGN: true, sbom.DocumentType_SOURCE: true, sbom.DocumentType_BUILD: true, sbom.DocumentType_ANALYZED: true,
	sbom.DocumentType_DEPLOYED: true, sbom.DocumentType_DISCOVERY: true, sbom.DocumentType_DECOMISSION: true,
}

func docTypes(d *sbom.Document) string {
	var l []string
	for _, dt := range d.Metadata.DocumentTypes {
		if dt.Type != nil {
			l = append(l, dt.Type.String())
		} else {
			l = append(l, "name:"+dt.GetName()+"/"+dt.GetDescription())
		}
	}
	sort.Strings(l)
	return strings.Join(l, ",")
}

// treeTrigger: does the stored edge list contain a contains edge whose source was already placed by an earlier edge?
func treeTrigger(nl *sbom.NodeList) string { return "" }

// wide: size classes (40 children, depth 20, bushy tree with dependencies, attribute-rich nodes).
func wide(c *engine.Ctx) {
	c.Group("wide")
	lists := gen.WideLists()
	var names []string
	for k := range lists {
		names = append(names, k)
	}
	sort.Strings(names)
	c.Bound("wide", fmt.Sprintf("%d size-class documents %v x {1.4, 1.5}", len(names), names))
	for _, name := range names {
		for _, f := range versions {
			name, f := name, f
			c.Case(func() any { return map[string]string{"document": name, "format": string(f)} }, func(t *engine.T) *engine.Violation {
				nl := gen.WideLists()[name]
				if name == "bushy" {
					// dependsOn edges are not part of the containment round trip: drop them from the expectation
					var es []*sbom.Edge
					for _, e := range nl.Edges {
						if e.Type == sbom.Edge_contains {
							es = append(es, e)
						}
					}
					nl.Edges = es
				}
				for _, n := range nl.Nodes {
					n.PrimaryPurpose = []sbom.Purpose{sbom.Purpose_LIBRARY}
				}
				if v := RoundTrip(t, docOf(nl), f); v != nil {
					return v
				}
				t.State("wide|" + name + string(f))
				t.Outcome("wide-ok")
				return nil
			})
		}
	}
}

func Run(c *engine.Ctx) {
	wide(c)
	trees(c)
	enums(c)
	attributes(c)
	docName(c)
	lifecycleLists(c)
	zones(c)
	stringContents(c)
	identifierCompositions(c)
	otherFields(c)
}

// identifierCompositions: node identifiers built from the structural tokens of the library's own sources (the
// prefixes, separators and flags it searches identifiers for), so that identifiers sit on both sides of every
// such test. Many identifiers share one document (a star under the root); a lost, renamed or merged one shows in
// the node set.
func identifierCompositions(c *engine.Ctx) {
	c.Group("identifier-compositions")
	ids := gen.TokenCompositions(3, func(s string) bool { return !gen.ReservedID(s) && s != "root-0" && strings.TrimSpace(s) != "" })
	const per = 150
	c.Bound("identifier-compositions", fmt.Sprintf("%d identifiers = every concatenation of <=3 of the %d structural tokens of the library's sources (outside the reserved protobom-...-auto namespace), %d per document as children of one root x {1.4, 1.5}", len(ids), len(gen.StructuralTokens()), per))
	if gen.LiteralsUnavailable {
		c.Note("source vocabulary unavailable: identifier compositions not explored")
		c.Cap("source-vocabulary-unavailable")
		return
	}
	for lo := 0; lo < len(ids); lo += per {
		hi := lo + per
		if hi > len(ids) {
			hi = len(ids)
		}
		batch := ids[lo:hi]
		for _, f := range versions {
			f := f
			c.Case(func() any { return map[string]any{"identifiers": batch, "format": string(f)} }, func(t *engine.T) *engine.Violation {
				nl := &sbom.NodeList{Nodes: []*sbom.Node{{Id: "root-0", Name: "root", PrimaryPurpose: []sbom.Purpose{sbom.Purpose_APPLICATION}}}, RootElements: []string{"root-0"}}
				e := &sbom.Edge{From: "root-0", Type: sbom.Edge_contains}
				for i, id := range batch {
					nl.Nodes = append(nl.Nodes, &sbom.Node{Id: id, Name: fmt.Sprintf("n%d", i), Version: "1"})
					e.To = append(e.To, id)
				}
				nl.Edges = []*sbom.Edge{e}
				if v := RoundTrip(t, docOf(nl), f); v != nil {
					return v
				}
				t.State(fmt.Sprint("idc:", lo, f))
				t.Outcome("identifiers-ok")
				return nil
			})
		}
	}
}

// stringContents: every text attribute the statement lists x the near-string menu, on the root and on the child.
func stringContents(c *engine.Ctx) {
	c.Group("string-contents")
	type slot struct {
		Name string
		Set  func(n *sbom.Node, v string)
	}
	slots := []slot{
		{"name", func(n *sbom.Node, v string) { n.Name = v }},
		{"version", func(n *sbom.Node, v string) { n.Version = v }},
		{"description", func(n *sbom.Node, v string) { n.Description = v }},
		{"copyright", func(n *sbom.Node, v string) { n.Copyright = v }},
		{"license", func(n *sbom.Node, v string) { n.Licenses = []string{v} }},
		{"purl", func(n *sbom.Node, v string) { setID(n, sbom.SoftwareIdentifierType_PURL, "pkg:generic/"+v) }},
		{"hash", func(n *sbom.Node, v string) { n.Hashes = map[int32]string{int32(sbom.HashAlgorithm_SHA256): v} }},
		{"extref.url", func(n *sbom.Node, v string) {
			n.ExternalReferences = []*sbom.ExternalReference{{Type: sbom.ExternalReference_VCS, Url: "https://r/" + v, Comment: "c"}}
		}},
		{"extref.comment", func(n *sbom.Node, v string) {
			n.ExternalReferences = []*sbom.ExternalReference{{Type: sbom.ExternalReference_VCS, Url: "https://r/x", Comment: v}}
		}},
		{"extref.hash", func(n *sbom.Node, v string) {
			n.ExternalReferences = []*sbom.ExternalReference{{Type: sbom.ExternalReference_VCS, Url: "https://r/x", Hashes: map[int32]string{int32(sbom.HashAlgorithm_SHA1): v}}}
		}},
	}
	var ms []string
	for _, s := range gen.NearStrings() {
		if s != "" {
			ms = append(ms, s)
		}
	}
	nNear := len(ms)
	// the vocabulary of the library's own sources (words, prefixes and separators it knows), in case variants
	ms = append(ms, gen.Vocabulary()...)
	// document level: the serial number is an arbitrary string for the library
	for mi := range ms {
		for _, f := range versions {
			mi, f := mi, f
			c.Case(func() any {
				return map[string]any{"attribute": "document.serial-number", "value": ms[mi], "format": string(f)}
			}, func(t *engine.T) *engine.Violation {
				d := docOf(two())
				d.Metadata.Id = ms[mi]
				if v := RoundTrip(t, d, f); v != nil {
					return v
				}
				t.State(fmt.Sprint("serial:", ms[mi], f))
				t.Outcome("string-ok")
				return nil
			})
		}
	}
	// long values: a single value of 70 000 bytes (beyond every 64 KiB line or token buffer) and of 1.1 MB, plain and
	// made of characters that JSON writes as six-byte escapes
	longs := map[string]string{"70000 x a": strings.Repeat("a", 70000), "12000 x <": strings.Repeat("<", 12000), "1100000 x ab": strings.Repeat("ab", 550000)}
	for _, ln := range []string{"12000 x <", "70000 x a", "1100000 x ab"} {
		for si := range slots {
			for _, f := range versions {
				si, ln, f := si, ln, f
				c.Case(func() any {
					return map[string]any{"attribute": slots[si].Name, "value": ln, "node": 1, "format": string(f)}
				}, func(t *engine.T) *engine.Violation {
					nl := two()
					slots[si].Set(nl.Nodes[1], longs[ln])
					if v := RoundTrip(t, docOf(nl), f); v != nil {
						if len(v.Detail) > 1500 {
							v.Detail = v.Detail[:1500] + "…"
						}
						return v
					}
					t.State(fmt.Sprint("long:", slots[si].Name, ln, f))
					t.Outcome("string-ok")
					return nil
				})
			}
		}
	}
	c.Bound("string-contents", fmt.Sprintf("%d text attributes x (%d near-strings + %d values from the vocabulary of the library's sources: every word-like string literal as written / lower / upper / title case, structural literals embedded in filler; quick tier: these on the child only, spec versions alternating) x {root, child} x {1.4, 1.5}; the document serial number x the same strings; every attribute with one value of 70 000 bytes, of 12 000 escaped characters and of 1.1 MB", len(slots), nNear, len(ms)-nNear))
	for si := range slots {
		for mi := range ms {
			for who := 0; who < 2; who++ {
				for fi, f := range versions {
					if mi >= nNear && !c.Thorough() && (who == 0 || fi != mi%2) {
						continue // quick tier: vocabulary values on the child, spec versions alternating
					}
					si, mi, who, f := si, mi, who, f
					c.Case(func() any {
						return map[string]any{"attribute": slots[si].Name, "value": ms[mi], "node": who, "format": string(f)}
					}, func(t *engine.T) *engine.Violation {
						nl := two()
						slots[si].Set(nl.Nodes[who], ms[mi])
						if v := RoundTrip(t, docOf(nl), f); v != nil {
							return v
						}
						t.State(fmt.Sprint("str:", slots[si].Name, ms[mi], who, f))
						t.Outcome("string-ok")
						return nil
					})
				}
			}
		}
	}
}

// lifecycleLists: every sequence of <=3 lifecycle entries over a menu mixing predefined phases and
// custom (name/description) entries - list elements of different kinds next to each other.
func lifecycleLists(c *engine.Ctx) {
	c.Group("lifecycle-lists")
	s := func(v string) *string { return &v }
	menu := []func() *sbom.DocumentType{
		func() *sbom.DocumentType { return &sbom.DocumentType{Type: sbom.DocumentType_BUILD.Enum()} },
		func() *sbom.DocumentType { return &sbom.DocumentType{Type: sbom.DocumentType_DESIGN.Enum()} },
		func() *sbom.DocumentType { return &sbom.DocumentType{Type: sbom.DocumentType_DEPLOYED.Enum()} },
		func() *sbom.DocumentType {
			return &sbom.DocumentType{Name: s("custom-one"), Description: s("first custom phase")}
		},
		func() *sbom.DocumentType { return &sbom.DocumentType{Name: s("custom-two")} },
	}
	labels := []string{"BUILD", "DESIGN", "DEPLOYED", "custom(name,desc)", "custom(name)"}
	c.Bound("lifecycle-lists", fmt.Sprintf("every sequence of 1..3 entries over %v x {1.4, 1.5}", labels))
	var rec func(cur []int)
	rec = func(cur []int) {
		if len(cur) > 0 {
			sel := append([]int{}, cur...)
			for _, f := range versions {
				f := f
				c.Case(func() any {
					var l []string
					for _, i := range sel {
						l = append(l, labels[i])
					}
					return map[string]any{"lifecycles": l, "format": string(f)}
				}, func(t *engine.T) *engine.Violation {
					d := docOf(two())
					for _, i := range sel {
						d.Metadata.DocumentTypes = append(d.Metadata.DocumentTypes, menu[i]())
					}
					if v := RoundTrip(t, d, f); v != nil {
						return v
					}
					t.State(fmt.Sprint("lifecycles", sel, f))
					t.Outcome("lifecycle-list-ok")
					return nil
				})
			}
		}
		if len(cur) == 3 {
			return
		}
		for i := range menu {
			rec(append(cur, i))
		}
	}
	rec(nil)
}

// zones: the process-local time zone is an environment answer (see gen.Zones).
func zones(c *engine.Ctx) {
	c.Group("environment-timezone")
	m := menu()
	zs := gen.Zones()
	c.Bound("environment-timezone", fmt.Sprintf("%d local zones x %d single deviations (+ document date) x {1.4, 1.5}", len(zs), len(m)))
	for _, z := range zs {
		for i := -1; i < len(m); i++ {
			for _, f := range versions {
				z, i, f := z, i, f
				name := "document-date"
				if i >= 0 {
					name = m[i].Name
				}
				c.Case(func() any { return map[string]string{"zone": z.String(), "deviation": name, "format": string(f)} }, func(t *engine.T) *engine.Violation {
					nl := two()
					d := docOf(nl)
					if i >= 0 {
						m[i].Do(nl.Nodes[0], nl.Nodes[1])
					} else {
						d.Metadata.Date = timestamppb.New(time.Unix(1700000000, 0))
					}
					var v *engine.Violation
					gen.InZone(z, func() { v = RoundTrip(t, d, f) })
					if v != nil {
						v.Detail = "under local zone " + z.String() + ": " + v.Detail
						return v
					}
					t.State("zone:" + z.String() + name + string(f))
					t.Outcome("zone-ok")
					return nil
				})
			}
		}
	}
}

// trees --------------------------------------------------------------------

func trees(c *engine.Ctx) {
	names := []string{"a", "b", "c", "d", "e"}
	maxN := 4
	if c.Thorough() {
		maxN = 5
	}
	for n := 1; n <= maxN; n++ {
		group := fmt.Sprintf("trees-n%d", n)
		c.Group(group)
		count := 0
		// parent[i] in -1 (root) or 0..n-1
		parent := make([]int, n)
		var rec func(i int)
		rec = func(i int) {
			if c.Expired() {
				return
			}
			if i == n {
				// acyclic?
				for s := 0; s < n; s++ {
					x, steps := s, 0
					for x != -1 && steps <= n {
						x = parent[x]
						steps++
					}
					if x != -1 {
						return
					}
				}
				count++
				par := append([]int{}, parent...)
				treeCases(c, names[:n], par)
				return
			}
			for p := -1; p < n; p++ {
				if p == i {
					continue
				}
				parent[i] = p
				rec(i + 1)
			}
		}
		rec(0)
		c.Bound(group, fmt.Sprintf("all %d labelled trees on root + %d nodes x 2 encodings x every edge-list permutation x {1.4, 1.5}", count, n))
	}
}

func treeCases(c *engine.Ctx, names []string, par []int) {
	id := func(i int) string {
		if i < 0 {
			return "r"
		}
		return names[i]
	}
	n := len(names)
	// encoding 1: one edge object per child
	var perChild []gen.EdgeSpec
	for i := 0; i < n; i++ {
		perChild = append(perChild, gen.EdgeSpec{From: id(par[i]), Type: sbom.Edge_contains, To: []string{id(i)}})
	}
	// encoding 2: one edge object per parent
	byParent := map[string][]string{}
	var order []string
	for i := 0; i < n; i++ {
		p := id(par[i])
		if _, ok := byParent[p]; !ok {
			order = append(order, p)
		}
		byParent[p] = append(byParent[p], id(i))
	}
	var perParent []gen.EdgeSpec
	for _, p := range order {
		perParent = append(perParent, gen.EdgeSpec{From: p, Type: sbom.Edge_contains, To: byParent[p]})
	}
	for ei, enc := range [][]gen.EdgeSpec{perChild, perParent} {
		enc := enc
		gen.Permutations(len(enc), func(p []int) {
			perm := append([]int{}, p...)
			for _, f := range versions {
				f, ei := f, ei
				c.Case(func() any {
					return map[string]any{"parents": par, "encoding": []string{"per-child", "per-parent"}[ei], "edge-order": perm, "format": string(f)}
				}, func(t *engine.T) *engine.Violation {
					spec := gen.ListSpec{Nodes: append([]string{"r"}, names...), Roots: []string{"r"}}
					for _, i := range perm {
						spec.Edges = append(spec.Edges, enc[i])
					}
					nl := spec.Build()
					if v := RoundTrip(t, docOf(nl), f); v != nil {
						return v
					}
					t.State(fmt.Sprintf("%v|%d|%v|%s", par, ei, perm, f))
					t.Outcome(fmt.Sprintf("tree depth=%d", depth(par)))
					return nil
				})
			}
		})
	}
}

func depth(par []int) int {
	best := 0
	for s := range par {
		d, x := 1, s
		for par[x] != -1 {
			x = par[x]
			d++
		}
		if d > best {
			best = d
		}
	}
	return best
}

// enum sweeps ----------------------------------------------------------------

func two() *sbom.NodeList {
	return &sbom.NodeList{Nodes: []*sbom.Node{{Id: "r", Name: "root", PrimaryPurpose: []sbom.Purpose{sbom.Purpose_APPLICATION}}, {Id: "a", Name: "child", Version: "1"}},
		Edges: []*sbom.Edge{{From: "r", Type: sbom.Edge_contains, To: []string{"a"}}}, RootElements: []string{"r"}}
}

func enums(c *engine.Ctx) {
	c.Group("enum-sweeps")
	c.Bound("enum-sweeps", "every hash algorithm (node and external-reference hashes), every external-reference type, every purpose, every node kind, every lifecycle type, on the root and on a child, per spec version")
	one := func(desc string, mk func() *sbom.Document) {
		for _, f := range versions {
			f := f
			c.Case(func() any { return desc + " @" + string(f) }, func(t *engine.T) *engine.Violation {
				if v := RoundTrip(t, mk(), f); v != nil {
					return v
				}
				t.State(desc + string(f))
				t.Outcome("enum-ok")
				return nil
			})
		}
	}
	for who := 0; who < 2; who++ {
		who := who
		for h := range sbom.HashAlgorithm_name {
			h := h
			one(fmt.Sprintf("hash %s on node %d", sbom.HashAlgorithm(h), who), func() *sbom.Document {
				nl := two()
				nl.Nodes[who].Hashes = map[int32]string{h: "aa11", int32(sbom.HashAlgorithm_SHA256): "bb22"}
				nl.Nodes[who].ExternalReferences = []*sbom.ExternalReference{{Type: sbom.ExternalReference_VCS, Url: "https://v", Hashes: map[int32]string{h: "cc33"}}}
				return docOf(nl)
			})
		}
		for rt := range sbom.ExternalReference_ExternalReferenceType_name {
			rt := rt
			one(fmt.Sprintf("extref %s on node %d", sbom.ExternalReference_ExternalReferenceType(rt), who), func() *sbom.Document {
				nl := two()
				nl.Nodes[who].ExternalReferences = []*sbom.ExternalReference{{Type: sbom.ExternalReference_ExternalReferenceType(rt), Url: "https://e/x", Comment: "cm"}, {Type: sbom.ExternalReference_WEBSITE, Url: "https://w"}}
				return docOf(nl)
			})
		}
		for p := range sbom.Purpose_name {
			p := p
			switch sbom.Purpose(p) {
			case sbom.Purpose_FILE, sbom.Purpose_PATCH, sbom.Purpose_SOURCE, sbom.Purpose_ARCHIVE:
				// these map to the component type "file": a package node carrying one of them is
				// indistinguishable from a file node in CycloneDX (kind not representable); swept on file nodes below
				continue
			}
			one(fmt.Sprintf("purpose %s on node %d", sbom.Purpose(p), who), func() *sbom.Document {
				nl := two()
				nl.Nodes[who].PrimaryPurpose = []sbom.Purpose{sbom.Purpose(p)}
				return docOf(nl)
			})
		}
		one(fmt.Sprintf("file kind on node %d", who), func() *sbom.Document {
			nl := two()
			nl.Nodes[who].Type = sbom.Node_FILE
			nl.Nodes[who].PrimaryPurpose = nil
			return docOf(nl)
		})
	}
	for ty := range sbom.DocumentType_SBOMType_name {
		ty := ty
		if sbom.DocumentType_SBOMType(ty) == sbom.DocumentType_OTHER || !nativeLifecycle[sbom.DocumentType_SBOMType(ty)] {
			continue // no CycloneDX phase for it: outside the representable class
		}
		one(fmt.Sprintf("lifecycle %s", sbom.DocumentType_SBOMType(ty)), func() *sbom.Document {
			d := docOf(two())
			d.Metadata.DocumentTypes = []*sbom.DocumentType{{Type: sbom.DocumentType_SBOMType(ty).Enum()}}
			return d
		})
	}
	one("lifecycle custom name", func() *sbom.Document {
		d := docOf(two())
		n, ds := "custom-phase", "desc"
		d.Metadata.DocumentTypes = []*sbom.DocumentType{{Name: &n, Description: &ds}, {Type: sbom.DocumentType_BUILD.Enum()}}
		return d
	})
	// the numeric document version over the corners of the integer ranges it may pass through (32-bit, the 53 bits a
	// float64 holds exactly, 64-bit)
	for _, ver := range []string{"0", "1", "7", "123", "2147483647", "2147483648", "4294967297", "9007199254740992", "9007199254740993", "1700000000000000001", "9223372036854775807"} {
		ver := ver
		one("document version "+ver, func() *sbom.Document {
			d := docOf(two())
			d.Metadata.Version = ver
			d.Metadata.Id = "urn:uuid:11111111-2222-3333-4444-555555555555"
			return d
		})
	}
}

// attribute deviations --------------------------------------------------------

type dev struct {
	Name, Slot string
	Do         func(r, a *sbom.Node)
}

func menu() []dev {
	var m []dev
	add := func(slot, name string, f func(r, a *sbom.Node)) {
		m = append(m, dev{Name: slot + "=" + name, Slot: slot, Do: f})
	}
	txt := []string{"x", "Ünï cödé ✓ 日本", "a b", "q\"uo\\te <&> {}[]:,", "  lead", "trail  ", "multi\nline", "protobom-auto--x", "x (y)", strings.Repeat("long", 300)}
	for wi, who := range []string{"root", "child"} {
		wi := wi
		pick := func(r, a *sbom.Node) *sbom.Node {
			if wi == 0 {
				return r
			}
			return a
		}
		for _, v := range txt {
			v := v
			add(who+".name", v, func(r, a *sbom.Node) { pick(r, a).Name = v })
			add(who+".version", v, func(r, a *sbom.Node) { pick(r, a).Version = v })
			add(who+".description", v, func(r, a *sbom.Node) { pick(r, a).Description = v })
			add(who+".copyright", v, func(r, a *sbom.Node) { pick(r, a).Copyright = v })
		}
		add(who+".kind", "file", func(r, a *sbom.Node) { pick(r, a).Type = sbom.Node_FILE; pick(r, a).PrimaryPurpose = nil })
		add(who+".purl", "p", func(r, a *sbom.Node) { setID(pick(r, a), sbom.SoftwareIdentifierType_PURL, "pkg:npm/x@1?a=b") })
		add(who+".cpe", "22", func(r, a *sbom.Node) { setID(pick(r, a), sbom.SoftwareIdentifierType_CPE22, "cpe:/a:x:y:1") })
		add(who+".cpe", "23", func(r, a *sbom.Node) {
			setID(pick(r, a), sbom.SoftwareIdentifierType_CPE23, "cpe:2.3:a:x:y:1:*:*:*:*:*:*:*")
		})
		add(who+".licenses", "1", func(r, a *sbom.Node) { pick(r, a).Licenses = []string{"MIT"} })
		add(who+".licenses", "2", func(r, a *sbom.Node) { pick(r, a).Licenses = []string{"MIT", "Apache-2.0"} })
		add(who+".licenses", "3", func(r, a *sbom.Node) { pick(r, a).Licenses = []string{"GPL-2.0-only", "MIT", "ISC"} })
		add(who+".hash", "sha1", func(r, a *sbom.Node) { pick(r, a).AddHash(sbom.HashAlgorithm_SHA1, "aa") })
		add(who+".hash2", "sha512", func(r, a *sbom.Node) { pick(r, a).AddHash(sbom.HashAlgorithm_SHA512, "bb") })
		add(who+".extref", "vcs+hash", func(r, a *sbom.Node) {
			pick(r, a).ExternalReferences = append(pick(r, a).ExternalReferences, &sbom.ExternalReference{Type: sbom.ExternalReference_VCS, Url: "https://git/x", Comment: "c ü", Hashes: map[int32]string{int32(sbom.HashAlgorithm_SHA256): "cc"}})
		})
		add(who+".extref2", "website", func(r, a *sbom.Node) {
			pick(r, a).ExternalReferences = append(pick(r, a).ExternalReferences, &sbom.ExternalReference{Type: sbom.ExternalReference_WEBSITE, Url: "https://w"})
		})
		add(who+".extref2", "bom+2hashes", func(r, a *sbom.Node) {
			pick(r, a).ExternalReferences = append(pick(r, a).ExternalReferences, &sbom.ExternalReference{Type: sbom.ExternalReference_BOM, Url: "https://bom/x", Hashes: map[int32]string{int32(sbom.HashAlgorithm_SHA1): "dd", int32(sbom.HashAlgorithm_MD5): "ee"}})
		})
		add(who+".extref3", "docs+hash", func(r, a *sbom.Node) {
			pick(r, a).ExternalReferences = append(pick(r, a).ExternalReferences, &sbom.ExternalReference{Type: sbom.ExternalReference_DOCUMENTATION, Url: "https://docs/x", Comment: "d", Hashes: map[int32]string{int32(sbom.HashAlgorithm_SHA512): "ff"}})
		})
		add(who+".purpose", "library", func(r, a *sbom.Node) { pick(r, a).PrimaryPurpose = []sbom.Purpose{sbom.Purpose_LIBRARY} })
		add(who+".purpose", "container", func(r, a *sbom.Node) { pick(r, a).PrimaryPurpose = []sbom.Purpose{sbom.Purpose_CONTAINER} })
	}
	return m
}

func setID(n *sbom.Node, t sbom.SoftwareIdentifierType, v string) {
	if n.Identifiers == nil {
		n.Identifiers = map[int32]string{}
	}
	n.Identifiers[int32(t)] = v
}

// otherFields: every field of the node schema (enumerated by reflection) is populated on its own - and all of those
// CycloneDX has no place for together - on the root or on the child, while the attributes the format can express stay
// as they are (most of them empty): what comes back for the expressible attributes is what went in, whatever else the
// node carries.
func otherFields(c *engine.Ctx) {
	c.Group("fields-one-at-a-time")
	expressible := map[string]bool{"id": true, "name": true, "version": true, "description": true, "copyright": true, "type": true, "identifiers": true, "hashes": true, "licenses": true, "external_references": true, "primary_purpose": true}
	fds := gen.FieldsExcept(&sbom.Node{}, "id")
	type sel struct {
		name string
		fds  []int
	}
	var sels []sel
	var outside []int
	for i, fd := range fds {
		sels = append(sels, sel{string(fd.Name()), []int{i}})
		if !expressible[string(fd.Name())] {
			outside = append(outside, i)
		}
	}
	sels = append(sels, sel{"every-field-outside-the-format", outside})
	c.Bound("fields-one-at-a-time", fmt.Sprintf("root + one child; each of the %d node fields populated alone, and the %d fields CycloneDX has no place for populated together, on the root or the child x {1.4, 1.5}", len(fds), len(outside)))
	for _, sl := range sels {
		for who := 0; who < 2; who++ {
			for _, f := range versions {
				sl, who, f := sl, who, f
				c.Case(func() any {
					return map[string]any{"group": "fields-one-at-a-time", "fields": sl.name, "on": []string{"root", "child"}[who], "format": string(f)}
				}, func(t *engine.T) *engine.Violation {
					nl := two()
					for _, i := range sl.fds {
						if expressible[string(fds[i].Name())] && len(sl.fds) > 1 {
							continue
						}
						gen.SetField(nl.Nodes[who].ProtoReflect(), fds[i], 1, "o")
					}
					if v := RoundTrip(t, docOf(nl), f); v != nil {
						return v
					}
					t.State(fmt.Sprintf("other:%s:%d:%s", sl.name, who, f))
					t.Outcome("other-fields-ok")
					return nil
				})
			}
		}
	}
}

func attributes(c *engine.Ctx) {
	c.Group("attributes")
	m := menu()
	maxDev := 2
	if c.Thorough() {
		maxDev = 3
	}
	c.Bound("attributes", fmt.Sprintf("root + one child; %d deviations; every set of <=%d deviations from distinct slots x {1.4, 1.5}", len(m), maxDev))
	var rec func(start int, cur []int)
	rec = func(start int, cur []int) {
		sel := append([]int{}, cur...)
		for _, f := range versions {
			f := f
			c.Case(func() any {
				var names []string
				for _, i := range sel {
					names = append(names, m[i].Name)
				}
				return map[string]any{"deviations": names, "format": string(f)}
			}, func(t *engine.T) *engine.Violation {
				nl := two()
				var names []string
				for _, i := range sel {
					m[i].Do(nl.Nodes[0], nl.Nodes[1])
					names = append(names, m[i].Name)
				}
				if v := RoundTrip(t, docOf(nl), f); v != nil {
					return v
				}
				t.State("attr:" + strings.Join(names, "+") + string(f))
				t.Outcome(fmt.Sprintf("attrs-ok-%d", len(sel)))
				return nil
			})
		}
		if len(cur) == maxDev || c.Expired() {
			return
		}
		for i := start; i < len(m); i++ {
			clash := false
			for _, j := range cur {
				if m[j].Slot == m[i].Slot {
					clash = true
				}
			}
			if !clash {
				rec(i+1, append(cur, i))
			}
		}
	}
	rec(0, nil)
}

// document name: the serializer maps it onto the root component's name.
func docName(c *engine.Ctx) {
	c.Group("document-name")
	for _, f := range versions {
		f := f
		c.Case(func() any { return "document name set @" + string(f) }, func(t *engine.T) *engine.Violation {
			d := docOf(two())
			d.Metadata.Name = "document-name"
			if v := RoundTrip(t, d, f); v != nil {
				return v
			}
			t.Outcome("docname-ok")
			return nil
		})
	}
}
