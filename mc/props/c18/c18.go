// Package c18: reader and writer configuration is isolated per instance.
package c18

import (
	"bytes"
	"fmt"
	"io"
	"os"
	"os/exec"
	"path/filepath"
	"strings"
	"time"

	"github.com/protobom/protobom/pkg/formats"
	"github.com/protobom/protobom/pkg/native"
	"github.com/protobom/protobom/pkg/reader"
	"github.com/protobom/protobom/pkg/sbom"
	"github.com/protobom/protobom/pkg/storage"
	"github.com/protobom/protobom/pkg/writer"

	"mcverif/engine"
	"mcverif/rw"
)

var Spec = engine.Spec{
	ID: "C18", Run: Run, QuickBud: 6 * time.Minute, ThorBud: 30 * time.Minute,
	Technique: "exhaustive enumeration of construction/call histories (constructors with option subsets, per-call overrides, WriteStream/Store/ParseStream calls) up to a depth bound, each history executed from the initial package state in a fresh process; after every step every live instance's observable configuration is compared with a struct-copy reference model (library defaults overlaid with the instance's own constructor options)",
	Rule:      "case = one history (sequence of steps); step alphabet: writer.New / reader.New with option sets, per-call override write/parse, WriteStream, Store; distinct state = the history; oracle evaluated after every step on every live instance",
	Assume:    []string{"package-level defaults cannot be reset in-process, so every history runs in its own child process (initial state = freshly started process)"},
}

// recorder is a storage backend that records the options it is called with.
type recorder struct {
	lastStore    *storage.StoreOptions
	lastRetrieve *storage.RetrieveOptions
	calls        int
}

func (r *recorder) Store(_ *sbom.Document, o *storage.StoreOptions) error {
	r.lastStore = o
	r.calls++
	return nil
}
func (r *recorder) Retrieve(_ string, o *storage.RetrieveOptions) (*sbom.Document, error) {
	r.lastRetrieve = o
	r.calls++
	return sbom.NewDocument(), nil
}

const recFormat = formats.Format("application/x-mcverif-recorder")

// recUnserializer records the format options it is handed.
type recUnserializer struct{ got any }

func (u *recUnserializer) Unserialize(_ io.Reader, _ *native.UnserializeOptions, fo interface{}) (*sbom.Document, error) {
	u.got = fo
	return sbom.NewDocument(), nil
}

// model of one instance's configuration
type wcfg struct {
	Format    formats.Format
	Indent    int
	NoClobber bool
	FmtOpt    any
	Ser       *native.SerializeOptions
	Backend   any // StoreOptions.BackendOptions
}
type rcfg struct {
	FmtOpt any
	Uns    *native.UnserializeOptions
	Ret    *storage.RetrieveOptions
}

type winst struct {
	w    *writer.Writer
	rec  *recorder
	want wcfg
	// instances built by a value-corner constructor: the step that built them and what they looked like at birth
	corner string
	born   wcfg
}
type rinst struct {
	r      *reader.Reader
	rec    *recorder
	want   rcfg
	corner string
	born   rcfg
}

type world struct {
	ws []*winst
	rs []*rinst
	// instances built without a store/retrieve backend of their own: they carry the library's default backend (a file
	// system backend without data directory), which belongs to the instance like the rest of its configuration
	defs []*defInst
}

type defInst struct {
	kind    string // "reader" / "writer"
	backend func() storage.StoreRetriever
	path    string // the data directory configured on THIS instance's backend ("" = never configured)
}

var (
	so1 = &native.SerializeOptions{}
	uo1 = &native.UnserializeOptions{}
	ro1 = &storage.RetrieveOptions{BackendOptions: "ro1"}
)

type wopt struct {
	Name  string
	Opt   func() writer.WriterOption
	Apply func(c *wcfg)
}

func wopts() []wopt {
	return []wopt{
		{"Format(spdx23)", func() writer.WriterOption { return writer.WithFormat(formats.SPDX23JSON) }, func(c *wcfg) { c.Format = formats.SPDX23JSON }},
		{"Format(cdx15)", func() writer.WriterOption { return writer.WithFormat(formats.CDX15JSON) }, func(c *wcfg) { c.Format = formats.CDX15JSON }},
		{"Render(indent1)", func() writer.WriterOption { return writer.WithRenderOptions(&native.RenderOptions{Indent: 1}) }, func(c *wcfg) { c.Indent = 1 }},
		{"Serialize", func() writer.WriterOption { return writer.WithSerializeOptions(so1) }, func(c *wcfg) { c.Ser = so1 }},
		{"FormatOptions(k=v)", func() writer.WriterOption { return writer.WithFormatOptions("k", "v") }, func(c *wcfg) { c.FmtOpt = "v" }},
		{"Store(noclobber)", func() writer.WriterOption { return writer.WithStoreOptions(&storage.StoreOptions{NoClobber: true}) }, func(c *wcfg) { c.NoClobber = true }},
	}
}

type ropt struct {
	Name  string
	Opt   func() reader.ReaderOption
	Apply func(c *rcfg)
}

func ropts() []ropt {
	return []ropt{
		{"FormatOptions(k=v)", func() reader.ReaderOption { return reader.WithFormatOptions("k", "v") }, func(c *rcfg) { c.FmtOpt = "v" }},
		{"Unserialize", func() reader.ReaderOption { return reader.WithUnserializeOptions(uo1) }, func(c *rcfg) { c.Uns = uo1 }},
		{"Retrieve", func() reader.ReaderOption { return reader.WithRetrieveOptions(ro1) }, func(c *rcfg) { c.Ret = ro1 }},
	}
}

type step struct {
	Name string
	Do   func(w *world) string // returns a violation text or ""
	// Corner: a constructor called with an unusual option value (nil, zero, negative, huge, empty, unknown). What such an
	// instance must look like is not modelled: its configuration as observed right after construction is its own, two
	// instances built the same way must look the same, and from then on the instance is held to it like any other.
	Corner bool
	Ctor   bool
	// Solo: a step that builds the instance it examines itself; it takes part in the histories of at most two steps
	// (alone, after any step, before any step) - what other instances did before or do afterwards is all that can matter
	Solo bool
}

func testDoc() *sbom.Document {
	d := sbom.NewDocument()
	d.Metadata.Id = "urn:uuid:3e671687-395b-41f5-a30f-a58921a69b79"
	d.NodeList.Nodes = []*sbom.Node{{Id: "a", Name: "na"}, {Id: "b", Name: "nb"}}
	d.NodeList.Edges = []*sbom.Edge{{From: "a", Type: sbom.Edge_contains, To: []string{"b"}}}
	d.NodeList.RootElements = []string{"a"}
	return d
}

type nopCloser struct{ *bytes.Buffer }

func (nopCloser) Close() error { return nil }

func steps(thorough bool) []step {
	var out []step
	wo, ro := wopts(), ropts()
	addW := func(mask int) {
		var names []string
		for i := range wo {
			if mask&(1<<i) != 0 {
				names = append(names, wo[i].Name)
			}
		}
		out = append(out, step{Ctor: true, Name: "writer.New(" + strings.Join(names, ",") + ")", Do: func(w *world) string {
			rec := &recorder{}
			opts := []writer.WriterOption{writer.WithStoreRetriever(rec)}
			want := wcfg{Indent: 4}
			for i := range wo {
				if mask&(1<<i) != 0 {
					opts = append(opts, wo[i].Opt())
					wo[i].Apply(&want)
				}
			}
			w.ws = append(w.ws, &winst{w: writer.New(opts...), rec: rec, want: want})
			return ""
		}})
	}
	addR := func(mask int) {
		var names []string
		for i := range ro {
			if mask&(1<<i) != 0 {
				names = append(names, ro[i].Name)
			}
		}
		out = append(out, step{Ctor: true, Name: "reader.New(" + strings.Join(names, ",") + ")", Do: func(w *world) string {
			rec := &recorder{}
			opts := []reader.ReaderOption{reader.WithStoreRetriever(rec)}
			want := rcfg{}
			for i := range ro {
				if mask&(1<<i) != 0 {
					opts = append(opts, ro[i].Opt())
					ro[i].Apply(&want)
				}
			}
			w.rs = append(w.rs, &rinst{r: reader.New(opts...), rec: rec, want: want})
			return ""
		}})
	}
	if thorough {
		for m := 0; m < 1<<len(wo); m++ {
			if m&1 != 0 && m&2 != 0 {
				continue // two WithFormat options: the later wins; covered by the explicit step below
			}
			addW(m)
		}
		for m := 0; m < 1<<len(ro); m++ {
			addR(m)
		}
	} else {
		for _, m := range []int{0, 1, 2, 4, 8, 16, 32, 1 | 4 | 8 | 16 | 32} {
			addW(m)
		}
		for _, m := range []int{0, 1, 2, 4, 7} {
			addR(m)
		}
	}
	// per-call override on the most recent writer: must not persist
	out = append(out, step{Name: "last-writer.WriteStreamWithOptions(override cdx13/indent7)", Do: func(w *world) string {
		if len(w.ws) == 0 {
			return ""
		}
		i := w.ws[len(w.ws)-1]
		var buf bytes.Buffer
		o := &writer.Options{Format: formats.CDX13JSON, RenderOptions: &native.RenderOptions{Indent: 7}, SerializeOptions: &native.SerializeOptions{}}
		o.SetFormatOptions("k", "per-call")
		if err := i.w.WriteStreamWithOptions(testDoc(), nopCloser{&buf}, o); err != nil {
			return "per-call override write failed: " + err.Error()
		}
		f, err := rw.Sniff(bytes.NewReader(buf.Bytes()))
		if err != nil || f != formats.CDX13JSON {
			return fmt.Sprintf("per-call override asked for %s but the output is detected as (%q,%v)", formats.CDX13JSON, f, err)
		}
		return ""
	}})
	// per-call options that belong to someone else: the first writer's Options object, and a shared value used with two writers
	out = append(out, step{Name: "last-writer.WriteFileWithOptions(first-writer.Options)", Do: func(w *world) string {
		if len(w.ws) < 2 {
			return ""
		}
		first, last := w.ws[0], w.ws[len(w.ws)-1]
		f := filepath.Join(os.Getenv("MCVERIF_SCRATCH"), fmt.Sprintf("c18-%d.out", os.Getpid()))
		defer os.Remove(f)
		_ = last.w.WriteFileWithOptions(testDoc(), f, first.w.Options) // may fail when neither has a format; configuration must stay put either way
		return ""
	}})
	out = append(out, step{Name: "all-writers.WriteFileWithOptions(one shared per-call value without format)", Do: func(w *world) string {
		if len(w.ws) == 0 {
			return ""
		}
		shared := &writer.Options{RenderOptions: &native.RenderOptions{Indent: 3}, SerializeOptions: &native.SerializeOptions{}}
		for k, i := range w.ws {
			f := filepath.Join(os.Getenv("MCVERIF_SCRATCH"), fmt.Sprintf("c18-%d-%d.out", os.Getpid(), k))
			err := i.w.WriteFileWithOptions(testDoc(), f, shared)
			b, _ := os.ReadFile(f)
			os.Remove(f)
			if shared.Format != "" {
				return fmt.Sprintf("WriteFileWithOptions wrote format %q into the per-call options value it was handed", shared.Format)
			}
			if unwritable(i.want.Format) {
				if err == nil {
					return fmt.Sprintf("writer #%d has no format and the per-call options name none, yet the write succeeded", k)
				}
				continue
			}
			if err != nil {
				return fmt.Sprintf("writer #%d: WriteFileWithOptions failed: %v", k, err)
			}
			if got, serr := rw.Sniff(bytes.NewReader(b)); serr != nil || got != i.want.Format {
				return fmt.Sprintf("writer #%d (format %q) wrote (%q,%v) through a per-call options value without format", k, i.want.Format, got, serr)
			}
		}
		return ""
	}})
	out = append(out, step{Name: "last-writer.WriteFile", Do: func(w *world) string {
		if len(w.ws) == 0 {
			return ""
		}
		i := w.ws[len(w.ws)-1]
		f := filepath.Join(os.Getenv("MCVERIF_SCRATCH"), fmt.Sprintf("c18-%d.wf", os.Getpid()))
		defer os.Remove(f)
		err := i.w.WriteFile(testDoc(), f)
		if unwritable(i.want.Format) {
			if err == nil {
				return "a writer constructed without format wrote a file successfully (format leaked from elsewhere)"
			}
			return ""
		}
		if err != nil {
			return "WriteFile with the instance's format failed: " + err.Error()
		}
		b, _ := os.ReadFile(f)
		if got, serr := rw.Sniff(bytes.NewReader(b)); serr != nil || got != i.want.Format {
			return fmt.Sprintf("WriteFile used (%q,%v), the instance was constructed with %q", got, serr, i.want.Format)
		}
		return ""
	}})
	out = append(out, step{Name: "last-reader.ParseFileWithOptions(first-reader.Options)", Do: func(w *world) string {
		if len(w.rs) < 2 {
			return ""
		}
		first, last := w.rs[0], w.rs[len(w.rs)-1]
		b, err := rw.Write(testDoc(), formats.CDX15JSON, 0)
		if err != nil {
			return "harness: " + err.Error()
		}
		f := filepath.Join(os.Getenv("MCVERIF_SCRATCH"), fmt.Sprintf("c18-%d.in", os.Getpid()))
		_ = os.WriteFile(f, b, 0o644)
		defer os.Remove(f)
		if _, err := last.r.ParseFileWithOptions(f, first.r.Options); err != nil {
			return "ParseFileWithOptions failed: " + err.Error()
		}
		if _, err := last.r.ParseFile(f); err != nil {
			return "ParseFile failed: " + err.Error()
		}
		return ""
	}})
	out = append(out, step{Name: "last-writer.WriteStream", Do: func(w *world) string {
		if len(w.ws) == 0 {
			return ""
		}
		i := w.ws[len(w.ws)-1]
		var buf bytes.Buffer
		err := i.w.WriteStream(testDoc(), nopCloser{&buf})
		if unwritable(i.want.Format) {
			if err == nil {
				f, _ := rw.Sniff(bytes.NewReader(buf.Bytes()))
				return fmt.Sprintf("a writer constructed without format wrote successfully as %q (format leaked from elsewhere)", f)
			}
			return ""
		}
		if err != nil {
			return "WriteStream with the instance's format failed: " + err.Error()
		}
		f, serr := rw.Sniff(bytes.NewReader(buf.Bytes()))
		if serr != nil || f != i.want.Format {
			return fmt.Sprintf("WriteStream used (%q,%v), the instance was constructed with %q", f, serr, i.want.Format)
		}
		if i.want.Format == formats.SPDX23JSON {
			// the instance's indent is observable in SPDX output
			wantPrefix := "{\n" + strings.Repeat(" ", i.want.Indent) + `"`
			if !strings.HasPrefix(buf.String(), wantPrefix) {
				return fmt.Sprintf("WriteStream did not use the instance's indent %d: output starts %q", i.want.Indent, firstN(buf.String(), 12))
			}
		}
		return ""
	}})
	out = append(out, step{Name: "last-writer.Store through a real file-system backend", Do: func(w *world) string {
		if len(w.ws) == 0 {
			return ""
		}
		i := w.ws[len(w.ws)-1]
		dir := filepath.Join(os.Getenv("MCVERIF_SCRATCH"), fmt.Sprintf("c18-%d-store-%d", os.Getpid(), len(w.ws)))
		defer os.RemoveAll(dir)
		fsb := storage.NewFileSystem()
		fsb.Options.Path = dir
		old := i.w.Storage
		i.w.Storage = fsb
		err := i.w.Store(testDoc())
		i.w.Storage = old
		if err != nil && !(i.want.NoClobber && strings.Contains(err.Error(), "clobber")) {
			return "Store through the file-system backend failed: " + err.Error()
		}
		return ""
	}})
	out = append(out, step{Name: "last-writer.Store", Do: func(w *world) string {
		if len(w.ws) == 0 {
			return ""
		}
		i := w.ws[len(w.ws)-1]
		if err := i.w.Store(testDoc()); err != nil {
			return "Store failed: " + err.Error()
		}
		if i.rec.lastStore == nil {
			if i.want.NoClobber {
				return "Store passed nil options to the backend although the instance was constructed with NoClobber"
			}
			return ""
		}
		if i.rec.lastStore.NoClobber != i.want.NoClobber {
			return fmt.Sprintf("Store passed NoClobber=%v to the backend, the instance was constructed with NoClobber=%v", i.rec.lastStore.NoClobber, i.want.NoClobber)
		}
		return ""
	}})
	out = append(out, step{Name: "last-reader.ParseStreamWithOptions(override format)", Do: func(w *world) string {
		if len(w.rs) == 0 {
			return ""
		}
		i := w.rs[len(w.rs)-1]
		b, err := rw.Write(testDoc(), formats.SPDX23JSON, 0)
		if err != nil {
			return "harness: " + err.Error()
		}
		o := &reader.Options{Format: formats.SPDX23JSON, UnserializeOptions: &native.UnserializeOptions{}}
		if _, err := i.r.ParseStreamWithOptions(bytes.NewReader(b), o); err != nil {
			return "per-call parse failed: " + err.Error()
		}
		return ""
	}})
	out = append(out, step{Name: "last-reader.ParseStreamWithOptions(per-call format options)", Do: func(w *world) string {
		if len(w.rs) == 0 {
			return ""
		}
		i := w.rs[len(w.rs)-1]
		ru := &recUnserializer{}
		reader.RegisterUnserializer(recFormat, ru)
		defer reader.UnregisterUnserializer(recFormat)
		o := &reader.Options{Format: recFormat, UnserializeOptions: &native.UnserializeOptions{}}
		o.SetFormatOptions(ru, "per-call")
		if _, err := i.r.ParseStreamWithOptions(bytes.NewReader([]byte("{}")), o); err != nil {
			return "per-call parse failed: " + err.Error()
		}
		if ru.got != "per-call" {
			return fmt.Sprintf("the driver received format options %v, the call passed %q (per-call options must override the instance's for that call)", ru.got, "per-call")
		}
		// and the instance's own configuration serves calls without override
		ru2 := &recUnserializer{}
		reader.RegisterUnserializer(recFormat, ru2)
		o2 := &reader.Options{Format: recFormat, UnserializeOptions: &native.UnserializeOptions{}}
		if _, err := i.r.ParseStreamWithOptions(bytes.NewReader([]byte("{}")), o2); err != nil {
			return "parse failed: " + err.Error()
		}
		if ru2.got != nil {
			return fmt.Sprintf("the driver received format options %v although the call passed none (a per-call override persisted)", ru2.got)
		}
		return ""
	}})
	// two instances built from one option list with spare capacity: a prefix of it, then all of it (a constructor that
	// appends to the slice it was handed writes into the caller's list)
	out = append(out, step{Name: "two writers from one option list (prefix, then all)", Do: func(w *world) string {
		rec1, rec2 := &recorder{}, &recorder{}
		all := make([]writer.WriterOption, 0, 8)
		all = append(all, writer.WithStoreRetriever(rec1), writer.WithFormat(formats.SPDX23JSON), writer.WithRenderOptions(&native.RenderOptions{Indent: 1}), writer.WithFormat(formats.CDX15JSON), writer.WithStoreOptions(&storage.StoreOptions{NoClobber: true}))
		w1 := writer.New(all[:2]...)
		all[0] = writer.WithStoreRetriever(rec2)
		w2 := writer.New(all...)
		w.ws = append(w.ws, &winst{w: w1, rec: rec1, want: wcfg{Format: formats.SPDX23JSON, Indent: 4}})
		w.ws = append(w.ws, &winst{w: w2, rec: rec2, want: wcfg{Format: formats.CDX15JSON, Indent: 1, NoClobber: true}})
		return ""
	}})
	out = append(out, step{Name: "two readers from one option list (prefix, then all)", Do: func(w *world) string {
		rec1, rec2 := &recorder{}, &recorder{}
		all := make([]reader.ReaderOption, 0, 8)
		all = append(all, reader.WithStoreRetriever(rec1), reader.WithFormatOptions("k", "v"), reader.WithRetrieveOptions(ro1))
		r1 := reader.New(all[:1]...)
		all[0] = reader.WithStoreRetriever(rec2)
		r2 := reader.New(all...)
		w.rs = append(w.rs, &rinst{r: r1, rec: rec1, want: rcfg{}})
		w.rs = append(w.rs, &rinst{r: r2, rec: rec2, want: rcfg{FmtOpt: "v", Ret: ro1}})
		return ""
	}})
	// a reader fixed to one format (set in place: there is no constructor option for it) and per-call options that
	// leave the format empty (= detect) or name another one: the per-call value decides that call, the instance keeps its
	// own
	for _, fixed := range []formats.Format{formats.CDX15JSON, formats.SPDX23JSON} {
		fixed := fixed
		out = append(out, step{Solo: true, Name: fmt.Sprintf("reader fixed to %s: per-call options without format / with the other format", fam2(fixed)), Do: func(w *world) string {
			other := formats.SPDX23JSON
			if fixed == formats.SPDX23JSON {
				other = formats.CDX15JSON
			}
			r := reader.New()
			r.Options.Format = fixed
			in, err := rw.Write(testDoc(), other, 2)
			if err != nil {
				return "harness: " + err.Error()
			}
			wantNodes := len(testDoc().NodeList.Nodes)
			for _, pc := range []formats.Format{"", other} {
				d, err := r.ParseStreamWithOptions(bytes.NewReader(in), &reader.Options{Format: pc, UnserializeOptions: &native.UnserializeOptions{}})
				if err != nil || d == nil || d.NodeList == nil || len(d.NodeList.Nodes) != wantNodes {
					n := -1
					if d != nil && d.NodeList != nil {
						n = len(d.NodeList.Nodes)
					}
					return fmt.Sprintf("reader fixed to %s, per-call options with format %q, a %s document of %d nodes: got %d nodes, err=%v (the per-call options decide the call)", fixed, pc, other, wantNodes, n, err)
				}
				if r.Options.Format != fixed {
					return fmt.Sprintf("a call with per-call options changed the reader's own format to %q", r.Options.Format)
				}
			}
			return ""
		}})
	}
	// configuring an instance after construction through its exported Options value: only that instance changes
	out = append(out, step{Name: "last-writer.Options.RenderOptions.Indent = 9 (in place)", Do: func(w *world) string {
		if len(w.ws) == 0 {
			return ""
		}
		i := w.ws[len(w.ws)-1]
		if i.w.Options.RenderOptions == nil {
			return "writer has nil RenderOptions"
		}
		i.w.Options.RenderOptions.Indent = 9
		i.want.Indent = 9
		return ""
	}})
	out = append(out, step{Name: "last-writer.Options.StoreOptions.NoClobber = true (in place)", Do: func(w *world) string {
		if len(w.ws) == 0 {
			return ""
		}
		i := w.ws[len(w.ws)-1]
		if i.w.Options.StoreOptions == nil {
			return "writer has nil StoreOptions"
		}
		i.w.Options.StoreOptions.NoClobber = true
		i.want.NoClobber = true
		return ""
	}})
	out = append(out, step{Name: "last-writer.Options.Format = cdx14 (in place)", Do: func(w *world) string {
		if len(w.ws) == 0 {
			return ""
		}
		i := w.ws[len(w.ws)-1]
		i.w.Options.Format = formats.CDX14JSON
		i.want.Format = formats.CDX14JSON
		return ""
	}})
	// failing forms of every call kind: whatever the error, nobody's configuration may move
	perCallR := func() *reader.Options {
		o := &reader.Options{UnserializeOptions: &native.UnserializeOptions{}, RetrieveOptions: &storage.RetrieveOptions{BackendOptions: "per-call"}}
		o.SetFormatOptions("k", "per-call")
		return o
	}
	missing := func() string {
		return filepath.Join(os.Getenv("MCVERIF_SCRATCH"), fmt.Sprintf("c18-%d-no-such-dir", os.Getpid()), "no-such-file")
	}
	out = append(out, step{Name: "last-reader.ParseFileWithOptions(per-call options) on a missing file [fails]", Do: func(w *world) string {
		if len(w.rs) == 0 {
			return ""
		}
		if _, err := w.rs[len(w.rs)-1].r.ParseFileWithOptions(missing(), perCallR()); err == nil {
			return "parsing a missing file succeeded"
		}
		return ""
	}})
	out = append(out, step{Name: "last-reader.ParseFileWithOptions(first-reader.Options) on an undetectable file [fails]", Do: func(w *world) string {
		if len(w.rs) < 2 {
			return ""
		}
		first, last := w.rs[0], w.rs[len(w.rs)-1]
		f := filepath.Join(os.Getenv("MCVERIF_SCRATCH"), fmt.Sprintf("c18-%d.bad", os.Getpid()))
		_ = os.WriteFile(f, []byte("this is not an SBOM\n"), 0o644)
		defer os.Remove(f)
		if _, err := last.r.ParseFileWithOptions(f, first.r.Options); err == nil {
			return "parsing an undetectable file succeeded"
		}
		return ""
	}})
	out = append(out, step{Name: "last-reader.ParseFile on a missing file [fails]", Do: func(w *world) string {
		if len(w.rs) == 0 {
			return ""
		}
		if _, err := w.rs[len(w.rs)-1].r.ParseFile(missing()); err == nil {
			return "parsing a missing file succeeded"
		}
		return ""
	}})
	out = append(out, step{Name: "last-reader.ParseStreamWithOptions(per-call options, unregistered format) [fails]", Do: func(w *world) string {
		if len(w.rs) == 0 {
			return ""
		}
		o := perCallR()
		o.Format = formats.Format("application/x-nobody-registered-this")
		if _, err := w.rs[len(w.rs)-1].r.ParseStreamWithOptions(bytes.NewReader([]byte("{}")), o); err == nil {
			return "parsing with an unregistered format succeeded"
		}
		return ""
	}})
	out = append(out, step{Name: "last-writer.WriteFileWithOptions(per-call options) into a missing directory [fails]", Do: func(w *world) string {
		if len(w.ws) == 0 {
			return ""
		}
		o := &writer.Options{Format: formats.CDX14JSON, RenderOptions: &native.RenderOptions{Indent: 9}, SerializeOptions: &native.SerializeOptions{}, StoreOptions: &storage.StoreOptions{NoClobber: true}}
		o.SetFormatOptions("k", "per-call")
		if err := w.ws[len(w.ws)-1].w.WriteFileWithOptions(testDoc(), missing(), o); err == nil {
			os.Remove(missing())
			return "writing into a missing directory succeeded"
		}
		return ""
	}})
	out = append(out, step{Name: "last-writer.WriteStreamWithOptions(per-call options, unregistered format) [fails]", Do: func(w *world) string {
		if len(w.ws) == 0 {
			return ""
		}
		var buf bytes.Buffer
		o := &writer.Options{Format: formats.Format("application/x-nobody-registered-this"), RenderOptions: &native.RenderOptions{Indent: 9}, SerializeOptions: &native.SerializeOptions{}}
		o.SetFormatOptions("k", "per-call")
		if err := w.ws[len(w.ws)-1].w.WriteStreamWithOptions(testDoc(), nopCloser{&buf}, o); err == nil {
			return "writing with an unregistered format succeeded"
		}
		return ""
	}})
	out = append(out, step{Name: "last-reader.Retrieve", Do: func(w *world) string {
		if len(w.rs) == 0 {
			return ""
		}
		i := w.rs[len(w.rs)-1]
		if _, err := i.r.Retrieve("some-id"); err != nil {
			return "Retrieve failed: " + err.Error()
		}
		if i.rec.lastRetrieve != i.want.Ret {
			return fmt.Sprintf("Retrieve passed %v to the backend, the instance was constructed with %v", i.rec.lastRetrieve, i.want.Ret)
		}
		return ""
	}})

	// default backends: instances built without WithStoreRetriever, and their backend configured in place (the only way
	// to give the default backend a data directory)
	out = append(out, step{Ctor: true, Name: "reader.New() [default backend]", Do: func(w *world) string {
		r := reader.New()
		w.defs = append(w.defs, &defInst{kind: "reader", backend: func() storage.StoreRetriever { return r.Storage }})
		return ""
	}})
	out = append(out, step{Ctor: true, Name: "writer.New() [default backend]", Do: func(w *world) string {
		wr := writer.New()
		w.defs = append(w.defs, &defInst{kind: "writer", backend: func() storage.StoreRetriever { return wr.Storage }})
		return ""
	}})
	for _, which := range []string{"first", "last"} {
		which := which
		out = append(out, step{Name: which + "-default-backend-instance: data directory of its backend set in place", Do: func(w *world) string {
			if len(w.defs) == 0 {
				return ""
			}
			k := 0
			if which == "last" {
				k = len(w.defs) - 1
			}
			fsb, ok := w.defs[k].backend().(*storage.FileSystem)
			if !ok {
				return fmt.Sprintf("default backend of %s #%d is %T, not the file system backend", w.defs[k].kind, k, w.defs[k].backend())
			}
			w.defs[k].path = fmt.Sprintf("/var/lib/sbom/instance-%d", k)
			fsb.Options.Path = w.defs[k].path
			return ""
		}})
	}
	// value corners: constructors called with unusual option values
	cornerW := func(name string, mk func() []writer.WriterOption) {
		out = append(out, step{Corner: true, Ctor: true, Name: "writer.New(" + name + ")", Do: func(w *world) string {
			rec := &recorder{}
			wr := writer.New(append([]writer.WriterOption{writer.WithStoreRetriever(rec)}, mk()...)...)
			o := wr.Options
			if o == nil || o.RenderOptions == nil || o.StoreOptions == nil || o.SerializeOptions == nil {
				return fmt.Sprintf("writer.New(%s) yields an instance with missing option structs: %+v", name, o)
			}
			got := wcfg{Format: o.Format, Indent: o.RenderOptions.Indent, NoClobber: o.StoreOptions.NoClobber, FmtOpt: o.GetFormatOptions("k"), Backend: o.StoreOptions.BackendOptions}
			for _, e := range w.ws {
				if e.corner == name && e.born != got {
					return fmt.Sprintf("two writers built by writer.New(%s) differ at birth: %+v then %+v (the configuration is not a function of the defaults and the instance's own options)", name, e.born, got)
				}
			}
			w.ws = append(w.ws, &winst{w: wr, rec: rec, want: got, corner: name, born: got})
			return ""
		}})
	}
	cornerW("Render(nil)", func() []writer.WriterOption { return []writer.WriterOption{writer.WithRenderOptions(nil)} })
	cornerW("Render(indent 0)", func() []writer.WriterOption {
		return []writer.WriterOption{writer.WithRenderOptions(&native.RenderOptions{Indent: 0})}
	})
	cornerW("Render(indent -1)", func() []writer.WriterOption {
		return []writer.WriterOption{writer.WithRenderOptions(&native.RenderOptions{Indent: -1})}
	})
	cornerW("Render(indent 1<<20)", func() []writer.WriterOption {
		return []writer.WriterOption{writer.WithRenderOptions(&native.RenderOptions{Indent: 1 << 20})}
	})
	cornerW("Render(indent 2),Render(indent -3)", func() []writer.WriterOption {
		return []writer.WriterOption{writer.WithRenderOptions(&native.RenderOptions{Indent: 2}), writer.WithRenderOptions(&native.RenderOptions{Indent: -3})}
	})
	// a format nobody registered a serializer for: the option records what it was given (writes then fail, as they do
	// for an instance without format); the expected value is stated, not taken from the instance
	out = append(out, step{Corner: true, Ctor: true, Name: "writer.New(Format(unregistered))", Do: func(w *world) string {
		rec := &recorder{}
		wr := writer.New(writer.WithStoreRetriever(rec), writer.WithFormat(unregisteredFormat))
		o := wr.Options
		if o == nil || o.RenderOptions == nil || o.StoreOptions == nil || o.SerializeOptions == nil {
			return fmt.Sprintf("writer.New(Format(unregistered)) yields an instance with missing option structs: %+v", o)
		}
		if o.Format != unregisteredFormat {
			return fmt.Sprintf("writer.New(WithFormat(%q)): Options.Format=%q (the instance's configuration is what its own options say, over the defaults)", unregisteredFormat, o.Format)
		}
		got := wcfg{Format: o.Format, Indent: o.RenderOptions.Indent, NoClobber: o.StoreOptions.NoClobber, FmtOpt: o.GetFormatOptions("k"), Backend: o.StoreOptions.BackendOptions}
		w.ws = append(w.ws, &winst{w: wr, rec: rec, want: got, corner: "Format(unregistered)", born: got})
		return ""
	}})
	cornerW("Format(empty)", func() []writer.WriterOption { return []writer.WriterOption{writer.WithFormat("")} })
	cornerW("Format(spdx23),Format(empty)", func() []writer.WriterOption {
		return []writer.WriterOption{writer.WithFormat(formats.SPDX23JSON), writer.WithFormat("")}
	})
	cornerW("FormatOptions(k=nil)", func() []writer.WriterOption { return []writer.WriterOption{writer.WithFormatOptions("k", nil)} })
	cornerW("FormatOptions(empty key)", func() []writer.WriterOption { return []writer.WriterOption{writer.WithFormatOptions("", "v")} })
	cornerW("Store(nil)", func() []writer.WriterOption { return []writer.WriterOption{writer.WithStoreOptions(nil)} })
	cornerW("Store(zero value)", func() []writer.WriterOption {
		return []writer.WriterOption{writer.WithStoreOptions(&storage.StoreOptions{})}
	})
	cornerW("Store(backend options only)", func() []writer.WriterOption {
		return []writer.WriterOption{writer.WithStoreOptions(&storage.StoreOptions{BackendOptions: "b"})}
	})
	cornerW("Serialize(nil)", func() []writer.WriterOption { return []writer.WriterOption{writer.WithSerializeOptions(nil)} })
	cornerW("StoreRetriever(nil)", func() []writer.WriterOption { return []writer.WriterOption{writer.WithStoreRetriever(nil)} })
	cornerR := func(name string, mk func() []reader.ReaderOption) {
		out = append(out, step{Corner: true, Ctor: true, Name: "reader.New(" + name + ")", Do: func(w *world) string {
			rec := &recorder{}
			rd := reader.New(append([]reader.ReaderOption{reader.WithStoreRetriever(rec)}, mk()...)...)
			o := rd.Options
			if o == nil || o.UnserializeOptions == nil {
				return fmt.Sprintf("reader.New(%s) yields an instance with missing option structs: %+v", name, o)
			}
			got := rcfg{FmtOpt: o.GetFormatOptions("k"), Ret: o.RetrieveOptions}
			for _, e := range w.rs {
				if e.corner == name && (e.born.FmtOpt != got.FmtOpt || (e.born.Ret == nil) != (got.Ret == nil)) {
					return fmt.Sprintf("two readers built by reader.New(%s) differ at birth: %+v then %+v", name, e.born, got)
				}
			}
			w.rs = append(w.rs, &rinst{r: rd, rec: rec, want: got, corner: name, born: got})
			return ""
		}})
	}
	cornerR("FormatOptions(k=nil)", func() []reader.ReaderOption { return []reader.ReaderOption{reader.WithFormatOptions("k", nil)} })
	cornerR("FormatOptions(empty key)", func() []reader.ReaderOption { return []reader.ReaderOption{reader.WithFormatOptions("", "v")} })
	cornerR("Unserialize(nil)", func() []reader.ReaderOption { return []reader.ReaderOption{reader.WithUnserializeOptions(nil)} })
	cornerR("Retrieve(nil)", func() []reader.ReaderOption { return []reader.ReaderOption{reader.WithRetrieveOptions(nil)} })
	cornerR("Retrieve(zero value)", func() []reader.ReaderOption {
		return []reader.ReaderOption{reader.WithRetrieveOptions(&storage.RetrieveOptions{})}
	})
	cornerR("StoreRetriever(nil)", func() []reader.ReaderOption { return []reader.ReaderOption{reader.WithStoreRetriever(nil)} })
	return out
}

func firstN(s string, n int) string {
	if len(s) > n {
		return s[:n]
	}
	return s
}

// observe compares every live instance with its model.
func observe(w *world) string {
	for k, d := range w.defs {
		fsb, ok := d.backend().(*storage.FileSystem)
		if !ok || fsb == nil {
			return fmt.Sprintf("%s #%d built without a backend of its own carries %T, not a file system backend", d.kind, k, d.backend())
		}
		if fsb.Options.Path != d.path {
			return fmt.Sprintf("%s #%d (default backend): data directory %q, want %q - what was configured on this instance only", d.kind, k, fsb.Options.Path, d.path)
		}
	}
	for k, i := range w.ws {
		o := i.w.Options
		if o == nil {
			return fmt.Sprintf("writer #%d has nil Options", k)
		}
		if o.Format != i.want.Format {
			return fmt.Sprintf("writer #%d: Options.Format=%q, want %q (own constructor options over defaults)", k, o.Format, i.want.Format)
		}
		if o.RenderOptions == nil || o.RenderOptions.Indent != i.want.Indent {
			return fmt.Sprintf("writer #%d: RenderOptions=%+v, want indent %d", k, o.RenderOptions, i.want.Indent)
		}
		if o.StoreOptions == nil || o.StoreOptions.NoClobber != i.want.NoClobber {
			return fmt.Sprintf("writer #%d: StoreOptions=%+v, want NoClobber=%v", k, o.StoreOptions, i.want.NoClobber)
		}
		if o.StoreOptions.BackendOptions != i.want.Backend {
			return fmt.Sprintf("writer #%d: StoreOptions.BackendOptions=%v, want %v (own constructor options over defaults)", k, o.StoreOptions.BackendOptions, i.want.Backend)
		}
		if got := o.GetFormatOptions("k"); got != i.want.FmtOpt {
			return fmt.Sprintf("writer #%d: format options[k]=%v, want %v", k, got, i.want.FmtOpt)
		}
		// SerializeOptions / UnserializeOptions are empty structs: pointer identity is not observable
		if o.SerializeOptions == nil {
			return fmt.Sprintf("writer #%d: SerializeOptions is nil", k)
		}
	}
	for k, i := range w.rs {
		o := i.r.Options
		if o == nil {
			return fmt.Sprintf("reader #%d has nil Options", k)
		}
		if o.Format != "" {
			return fmt.Sprintf("reader #%d: Options.Format=%q, want empty", k, o.Format)
		}
		if got := o.GetFormatOptions("k"); got != i.want.FmtOpt {
			return fmt.Sprintf("reader #%d: format options[k]=%v, want %v", k, got, i.want.FmtOpt)
		}
		if o.UnserializeOptions == nil {
			return fmt.Sprintf("reader #%d: UnserializeOptions is nil", k)
		}
		if o.RetrieveOptions != i.want.Ret {
			return fmt.Sprintf("reader #%d: RetrieveOptions=%v, want %v", k, o.RetrieveOptions, i.want.Ret)
		}
	}
	return ""
}

// Aux runs one history in this (fresh) process: args = tier, then step indices.
const unregisteredFormat = formats.Format("application/x-nobody-registered-this")

// unwritable: a writer whose format is empty or has no serializer cannot write; its write calls fail.
func unwritable(f formats.Format) bool { return f == "" || f == unregisteredFormat }

func Aux(args []string) int {
	rw.SilenceStdout()
	all := steps(args[0] == "thorough")
	w := &world{}
	for pos, a := range args[1:] {
		var idx int
		fmt.Sscan(a, &idx)
		if msg := all[idx].Do(w); msg != "" {
			fmt.Fprintf(os.Stderr, "VIOLATION|call|step %d (%s): %s\n", pos, all[idx].Name, msg)
			return 0
		}
		if msg := observe(w); msg != "" {
			fmt.Fprintf(os.Stderr, "VIOLATION|config|after step %d (%s): %s\n", pos, all[idx].Name, msg)
			return 0
		}
	}
	fmt.Fprintln(os.Stderr, "OK")
	return 0
}

func runHistory(t *engine.T, self, tier string, h []int) *engine.Violation {
	args := []string{"--aux", "c18hist", tier}
	for _, i := range h {
		args = append(args, fmt.Sprint(i))
	}
	out, err := exec.Command(self, args...).CombinedOutput()
	t.Transitions(len(h))
	t.Validated(len(h))
	res := strings.TrimSpace(string(out))
	if err != nil {
		return engine.Violate("process-abort", "", "history aborted the process: %v\n%s", err, firstN(res, 1500))
	}
	if strings.HasPrefix(res, "VIOLATION|") {
		p := strings.SplitN(res, "|", 3)
		return &engine.Violation{Clause: p[1], Detail: p[2]}
	}
	if res != "OK" {
		return engine.Violate("harness", "", "unexpected child output: %s", firstN(res, 500))
	}
	t.State(fmt.Sprint(h))
	t.Outcome(fmt.Sprintf("ok-len%d", len(h)))
	return nil
}

func Run(c *engine.Ctx) {
	all := steps(c.Thorough())
	depth := 3
	c.Group("histories")
	c.Bound("histories", fmt.Sprintf("all histories of <= %d steps over %d steps, one fresh process per history", depth, len(all)))
	self, _ := os.Executable()
	tier := c.Tier
	var rec func(cur []int)
	rec = func(cur []int) {
		if len(cur) > 0 {
			h := append([]int{}, cur...)
			c.Case(func() any {
				var names []string
				for _, i := range h {
					names = append(names, all[i].Name)
				}
				return names
			}, func(t *engine.T) *engine.Violation { return runHistory(t, self, tier, h) })
		}
		if len(cur) == depth || c.Expired() {
			return
		}
		for i := range all {
			if all[i].Corner {
				continue // explored by the value-corners group below
			}
			if len(cur) >= 2 {
				solo := all[i].Solo
				for _, j := range cur {
					solo = solo || all[j].Solo
				}
				if solo {
					continue // histories with a self-contained step have at most two steps
				}
			}
			rec(append(cur, i))
		}
	}
	rec(nil)

	// value corners: X = a constructor with an unusual option value, E = any step, Y = any constructor (X again included)
	c.Group("value-corners")
	nCorner, nCtor, lastW, lastR := 0, 5, -1, -1
	for i, s := range all {
		if s.Corner {
			nCorner++
		}
		if s.Ctor && !s.Corner && strings.HasPrefix(s.Name, "writer.New(") {
			lastW = i
		}
		if s.Ctor && !s.Corner && strings.HasPrefix(s.Name, "reader.New(") {
			lastR = i
		}
	}
	c.Bound("value-corners", fmt.Sprintf("every history [X, E, Y] and [X, Y] with X one of %d constructors called with an unusual option value (nil, zero, negative, huge, empty, unregistered, the same option twice), E any of the %d steps, Y one of %d constructors (without options, with the most options, X again); an instance's configuration as observed at birth is its own (two instances built the same way must agree), every later step is judged as in the histories group", nCorner, len(all), nCtor))
	run := func(h []int) {
		c.Case(func() any {
			var names []string
			for _, i := range h {
				names = append(names, all[i].Name)
			}
			return names
		}, func(t *engine.T) *engine.Violation { return runHistory(t, self, tier, h) })
	}
	for x := range all {
		if !all[x].Corner || c.Expired() {
			continue
		}
		for y := range all {
			// Y: the constructors without options, X again, and the constructors with the most options
			if !(y == x || all[y].Name == "writer.New()" || all[y].Name == "reader.New()" || y == lastW || y == lastR) {
				continue
			}
			run([]int{x, y})
			for e := range all {
				run([]int{x, e, y})
			}
		}
	}
}

func fam2(f formats.Format) string {
	if strings.Contains(string(f), "cyclonedx") {
		return "CycloneDX"
	}
	return "SPDX"
}
