// Package c01: SPDX 2.3 write-then-read round trip preserves the SBOM graph.
package c01

import (
	"fmt"
	"regexp"
	"sort"
	"strings"
	"time"

	"github.com/protobom/protobom/pkg/formats"
	"github.com/protobom/protobom/pkg/sbom"
	"google.golang.org/protobuf/proto"
	"google.golang.org/protobuf/types/known/timestamppb"

	"mcverif/engine"
	"mcverif/gen"
	"mcverif/rw"
	"mcverif/vmap"
)

var Spec = engine.Spec{
	ID: "C01", Run: Run, MapOrders: true, MapOrdersQuick: []int{vmap.Alternating}, QuickBud: 6 * time.Minute, ThorBud: 60 * time.Minute,
	Technique: "explicit enumeration of document construction spaces (all graph shapes over <=3 (thorough 4) SPDX ids with ordered edge-object lists, root subsets and kind patterns; full enum sweeps; all attribute-deviation sets of size <=2 (thorough 3)) through the real writer (SPDX23JSON, 3 indents) and reader, against a set-of-triples graph model and a per-attribute comparison; second pass must change nothing",
	Rule:      "case = one constructed document (+ indent); distinct state = canonical document key; oracle = reference triple (nodes with kind, typed triples, roots) and listed attributes equal after write->read, idempotent on a second pass",
	Assume: []string{
		"identifier alphabet: valid SPDX idstrings without SPDXRef- prefix; text alphabet {'', x, unicode, 'a b'} plus NOASSERTION/NONE where the convention applies; no surrounding whitespace (the writer trims copyright text on purpose)",
		"copyright text is compared after trimming surrounding whitespace (the writer trims it deliberately); attributes compared are the ones the statement lists; file_name, comment, summary, description, source info, attribution, licence lists are not judged",
	},
}

var ids = []string{"a", "b-1", "C.x", "d"}

const (
	tc = sbom.Edge_contains
	td = sbom.Edge_dependsOn
	to = sbom.Edge_other
)

// graphKey is the reference triple of a node list.
func graphKey(nl *sbom.NodeList) string {
	var ns []string
	for _, n := range nl.Nodes {
		ns = append(ns, fmt.Sprintf("%s/%d", n.Id, n.Type))
	}
	sort.Strings(ns)
	m := gen.ModelOf(nl)
	return "N" + strings.Join(ns, ",") + "|E" + strings.Join(gen.SortedTriples(m.Edges), ",") + "|R" + strings.Join(gen.SortedIDs(m.Roots), ",")
}

func sentinel(s string) string {
	if s == "NOASSERTION" || s == "NONE" {
		return ""
	}
	return s
}

func personKey(ps []*sbom.Person) string {
	if len(ps) == 0 {
		return ""
	}
	p := ps[0]
	return fmt.Sprintf("name=%q org=%v email=%q", p.Name, p.IsOrg, p.Email)
}

// unrepresentableActor: the SPDX actor mini-syntax is "Name (email)"; a name that ends in a parenthesised group cannot be
// told from name + e-mail when no e-mail follows, and an e-mail cannot contain blanks or parentheses.
func unrepresentableActor(ps []*sbom.Person) bool {
	if len(ps) == 0 {
		return false
	}
	p := ps[0]
	if p.Email == "" && strings.HasSuffix(strings.TrimSpace(p.Name), ")") && strings.Contains(p.Name, "(") {
		return true
	}
	if p.Email == "" && p.Name == "NOASSERTION" {
		return true // SPDX's own sentinel for "no supplier / originator stated": an actor with exactly this name is not expressible
	}
	return strings.ContainsAny(p.Email, " \t\n()")
}

// actorNeedsJSONEscape: the actor's name or e-mail contains a character the JSON encoder writes as an escape sequence
// (the SPDX library's actor decoder strips the quotes without undoing escapes: known finding).
func actorNeedsJSONEscape(ps []*sbom.Person) bool {
	if len(ps) == 0 {
		return false
	}
	for _, r := range ps[0].Name + ps[0].Email {
		if r < 0x20 || r == '"' || r == '\\' || r == '<' || r == '>' || r == '&' || r == 0x2028 || r == 0x2029 {
			return true
		}
	}
	return false
}

func dateKey(t *timestamppb.Timestamp) string {
	if t == nil {
		return ""
	}
	return fmt.Sprint(t.AsTime().Unix())
}

var nativePurposes = map[sbom.Purpose]bool{
	sbom.Purpose_APPLICATION: true, sbom.Purpose_FRAMEWORK: true, sbom.Purpose_LIBRARY: true, sbom.Purpose_CONTAINER: true,
	sbom.Purpose_OPERATING_SYSTEM: true, sbom.Purpose_DEVICE: true, sbom.Purpose_FIRMWARE: true, sbom.Purpose_SOURCE: true,
	sbom.Purpose_ARCHIVE: true, sbom.Purpose_FILE: true, sbom.Purpose_INSTALL: true, sbom.Purpose_OTHER: true,
}

var nativeRefs = map[sbom.ExternalReference_ExternalReferenceType]bool{
	sbom.ExternalReference_BOWER: true, sbom.ExternalReference_MAVEN_CENTRAL: true, sbom.ExternalReference_NPM: true, sbom.ExternalReference_NUGET: true,
	sbom.ExternalReference_OTHER: true, sbom.ExternalReference_SECURITY_ADVISORY: true, sbom.ExternalReference_SECURITY_FIX: true, sbom.ExternalReference_SECURITY_OTHER: true,
}

// attrs renders the attributes the statement lists, for comparison. in=true renders the
// expectation from the input node (unrepresentable parts dropped), in=false the parsed node.
func attrs(n *sbom.Node, in bool) map[string]string {
	a := map[string]string{}
	a["name"] = n.Name
	a["license_concluded"] = sentinel(n.LicenseConcluded)
	a["license_comments"] = n.LicenseComments
	// the writer trims surrounding whitespace of the copyright text on purpose (SPDX text field); compared trimmed
	a["copyright"] = sentinel(strings.TrimSpace(n.Copyright))
	var hs []string
	for k, v := range n.Hashes {
		if in && sbom.HashAlgorithm(k).ToSPDX() == "" {
			continue
		}
		hs = append(hs, fmt.Sprintf("%d=%s", k, v))
	}
	sort.Strings(hs)
	a["hashes"] = strings.Join(hs, ",")
	if n.Type == sbom.Node_FILE {
		return a
	}
	a["version"] = n.Version
	a["url_home"] = n.UrlHome
	a["url_download"] = sentinel(n.UrlDownload)
	var idl []string
	for k, v := range n.Identifiers {
		if in && sbom.SoftwareIdentifierType(k).ToSPDX2Type() == "" {
			continue
		}
		idl = append(idl, fmt.Sprintf("%d=%s", k, v))
	}
	sort.Strings(idl)
	a["identifiers"] = strings.Join(idl, ",")
	var refs []string
	for _, r := range n.ExternalReferences {
		if in && (r.Url == "" || !nativeRefs[r.Type]) {
			continue // not representable natively: not judged
		}
		if !in && !nativeRefs[r.Type] {
			continue
		}
		refs = append(refs, fmt.Sprintf("%d|%s|%s", r.Type, r.Url, r.Comment))
	}
	sort.Strings(refs)
	a["external_references"] = strings.Join(refs, ",")
	pp := ""
	if len(n.PrimaryPurpose) > 0 && nativePurposes[n.PrimaryPurpose[0]] {
		pp = fmt.Sprint(n.PrimaryPurpose[0])
	}
	if in && (len(n.PrimaryPurpose) > 1 || (len(n.PrimaryPurpose) == 1 && !nativePurposes[n.PrimaryPurpose[0]])) {
		pp = "*" // several purposes or a purpose SPDX 2.3 has no native value for: degradation, not judged
	}
	a["primary_purpose"] = pp
	a["release_date"] = dateKey(n.ReleaseDate)
	a["build_date"] = dateKey(n.BuildDate)
	a["valid_until_date"] = dateKey(n.ValidUntilDate)
	a["supplier"] = personKey(n.Suppliers)
	a["originator"] = personKey(n.Originators)
	if in && unrepresentableActor(n.Suppliers) {
		a["supplier"] = "*"
	}
	if in && unrepresentableActor(n.Originators) {
		a["originator"] = "*"
	}
	return a
}

// hasForeignRefs: the input has references that degrade to OTHER (then OTHER refs of the output are not comparable 1:1).
func hasForeignRefs(n *sbom.Node) bool {
	for k := range n.Identifiers {
		if sbom.SoftwareIdentifierType(k).ToSPDX2Type() == "" {
			return true // written as an untyped OTHER reference
		}
	}
	for _, r := range n.ExternalReferences {
		if !nativeRefs[r.Type] && r.Url != "" {
			return true
		}
	}
	return false
}

// RoundTrip checks one document; returns the violation or nil.
func RoundTrip(t *engine.T, d *sbom.Document, indent int) *engine.Violation {
	out, err := rw.Write(d, formats.SPDX23JSON, indent)
	t.Transitions(1)
	if err != nil {
		return engine.Violate("write-error", "", "writing a representable document failed: %v", err)
	}
	if n, err := rw.NormalizeJSON(out); err == nil {
		t.Observe(n) // the written document must not depend on the map iteration order
	}
	back, err := rw.Read(out)
	t.Transitions(1)
	if err != nil {
		return engine.Violate("read-error", "", "reading the writer's output failed: %v", err)
	}
	t.Validated(1)
	if g1, g2 := graphKey(d.NodeList), graphKey(back.NodeList); g1 != g2 {
		clause := "graph"
		return engine.Violate(clause, "", "graph changed:\n in  %s\n out %s", g1, g2)
	}
	for _, n := range d.NodeList.Nodes {
		b := back.NodeList.GetNodeByID(n.Id)
		want, got := attrs(n, true), attrs(b, false)
		for k, w := range want {
			if w == "*" {
				continue
			}
			if k == "external_references" && hasForeignRefs(n) {
				continue
			}
			if got[k] != w {
				trig := k
				if (k == "supplier" && actorNeedsJSONEscape(n.Suppliers)) || (k == "originator" && actorNeedsJSONEscape(n.Originators)) {
					trig = "actor-needs-json-escape"
				}
				return engine.Violate("attribute", trig, "node %s attribute %s: wrote %q, read back %q", n.Id, k, w, got[k])
			}
		}
	}
	// second pass changes nothing further
	out2, err := rw.Write(back, formats.SPDX23JSON, indent)
	if err != nil {
		return engine.Violate("second-pass", "", "second write failed: %v", err)
	}
	back2, err := rw.Read(out2)
	t.Transitions(2)
	if err != nil {
		return engine.Violate("second-pass", "", "second read failed: %v", err)
	}
	if c1, c2 := gen.Canon(back.NodeList, nil), gen.Canon(back2.NodeList, nil); c1 != c2 {
		return engine.Violate("second-pass", "", "a second write-then-read pass changed the document: %s", gen.SnapDiff(c1, c2))
	}
	return nil
}

func docOf(nl *sbom.NodeList) *sbom.Document {
	d := sbom.NewDocument()
	d.Metadata.Id = "doc"
	d.Metadata.Name = "doc-name"
	d.NodeList = nl
	return d
}

// wide: size classes.
func wide(c *engine.Ctx) {
	c.Group("wide")
	lists := gen.WideLists()
	var names []string
	for k := range lists {
		names = append(names, k)
	}
	sort.Strings(names)
	c.Bound("wide", fmt.Sprintf("%d size-class documents %v x indents {0,4}", len(names), names))
	for _, name := range names {
		for _, ind := range []int{0, 4} {
			name, ind := name, ind
			c.Case(func() any { return map[string]any{"document": name, "indent": ind} }, func(t *engine.T) *engine.Violation {
				nl := gen.WideLists()[name]
				for _, n := range nl.Nodes {
					// SPDX 2.3 carries no hashes on external references and only native reference types
					for _, r := range n.ExternalReferences {
						r.Hashes = nil
						r.Type = sbom.ExternalReference_NPM
					}
				}
				if v := RoundTrip(t, docOf(nl), ind); v != nil {
					return v
				}
				t.State(fmt.Sprintf("wide|%s|%d", name, ind))
				t.Outcome("wide-ok")
				return nil
			})
		}
	}
}

func Run(c *engine.Ctx) {
	wide(c)
	shapes(c)
	reserved(c)
	enums(c)
	attributes(c)
	zones(c)
	stringContents(c)
	identifierCompositions(c)
}

var spdxIDString = regexp.MustCompile(`^[a-zA-Z0-9.-]+$`)

// identifierCompositions: node identifiers built from the structural tokens of the library's own sources (the prefixes,
// separators and words it searches identifiers for), restricted to valid SPDX idstrings. Many identifiers share one
// document: a package root, the identifiers alternately as packages and files, each a target of a typed edge from
// the root, every third one also a root element and the source of an edge back.
func identifierCompositions(c *engine.Ctx) {
	c.Group("identifier-compositions")
	ids := gen.TokenCompositions(3, func(s string) bool {
		return spdxIDString.MatchString(s) && s != "DOCUMENT" && s != "NONE" && s != "NOASSERTION" && s != "root-0"
	})
	const per = 150
	c.Bound("identifier-compositions", fmt.Sprintf("%d identifiers = every concatenation of <=3 of the %d structural tokens of the library's sources that is a valid SPDX idstring; %d per document", len(ids), len(gen.StructuralTokens()), per))
	if gen.LiteralsUnavailable {
		c.Note("source vocabulary unavailable: identifier compositions not explored")
		c.Cap("source-vocabulary-unavailable")
		return
	}
	for lo := 0; lo < len(ids); lo += per {
		hi := lo + per
		if hi > len(ids) {
			hi = len(ids)
		}
		batch, lo := ids[lo:hi], lo
		c.Case(func() any { return map[string]any{"identifiers": batch} }, func(t *engine.T) *engine.Violation {
			nl := &sbom.NodeList{Nodes: []*sbom.Node{{Id: "root-0", Name: "root"}}, RootElements: []string{"root-0"}}
			e := &sbom.Edge{From: "root-0", Type: tc}
			e2 := &sbom.Edge{From: "root-0", Type: td}
			for i, id := range batch {
				n := &sbom.Node{Id: id, Name: fmt.Sprintf("n%d", i)}
				if i%2 == 1 {
					n.Type = sbom.Node_FILE
				}
				nl.Nodes = append(nl.Nodes, n)
				e.To = append(e.To, id)
				if i%3 == 0 {
					e2.To = append(e2.To, id)
					nl.RootElements = append(nl.RootElements, id)
					nl.Edges = append(nl.Edges, &sbom.Edge{From: id, Type: sbom.Edge_other, To: []string{"root-0", id}})
				}
			}
			nl.Edges = append(nl.Edges, e, e2)
			if v := RoundTrip(t, docOf(nl), 2); v != nil {
				return v
			}
			t.State(fmt.Sprint("idc:", lo))
			t.Outcome("identifiers-ok")
			return nil
		})
	}
}

// stringContents: every text attribute the statement lists x the near-string menu (strings that coincide
// under a plausible normalisation or interpretation: printf verbs, percent escapes, case, blanks, unicode
// composition, numeric and path spellings): what is written is what is read back, character for character.
func stringContents(c *engine.Ctx) {
	c.Group("string-contents")
	type slot struct {
		Name string
		Set  func(p, f *sbom.Node, v string)
	}
	slots := []slot{
		{"pkg.hash.raw", func(p, f *sbom.Node, v string) {
			p.Hashes = map[int32]string{int32(sbom.HashAlgorithm_SHA1): v, int32(sbom.HashAlgorithm_MD5): v}
		}},
		{"pkg.name", func(p, f *sbom.Node, v string) { p.Name = v }},
		{"pkg.version", func(p, f *sbom.Node, v string) { p.Version = v }},
		{"pkg.url_home", func(p, f *sbom.Node, v string) { p.UrlHome = v }},
		{"pkg.license_comments", func(p, f *sbom.Node, v string) { p.LicenseComments = v }},
		{"pkg.copyright", func(p, f *sbom.Node, v string) { p.Copyright = v }},
		{"file.name", func(p, f *sbom.Node, v string) { f.Name = v }},
		{"file.copyright", func(p, f *sbom.Node, v string) { f.Copyright = v }},
		{"file.license_comments", func(p, f *sbom.Node, v string) { f.LicenseComments = v }},
		{"pkg.extref.url", func(p, f *sbom.Node, v string) {
			p.ExternalReferences = []*sbom.ExternalReference{{Type: sbom.ExternalReference_NPM, Url: "https://r/" + v, Comment: "c"}}
		}},
		{"pkg.extref.comment", func(p, f *sbom.Node, v string) {
			p.ExternalReferences = []*sbom.ExternalReference{{Type: sbom.ExternalReference_NPM, Url: "https://r/x", Comment: v}}
		}},
		{"pkg.supplier.name(+email)", func(p, f *sbom.Node, v string) {
			p.Suppliers = []*sbom.Person{{Name: v, Email: "info@example.com", IsOrg: true}}
		}},
		{"pkg.supplier.name", func(p, f *sbom.Node, v string) { p.Suppliers = []*sbom.Person{{Name: v}} }},
		{"pkg.originator.name(+email)", func(p, f *sbom.Node, v string) { p.Originators = []*sbom.Person{{Name: v, Email: "o@example.com"}} }},
		{"pkg.originator.name", func(p, f *sbom.Node, v string) { p.Originators = []*sbom.Person{{Name: v, IsOrg: true}} }},
		{"pkg.supplier.email", func(p, f *sbom.Node, v string) { p.Suppliers = []*sbom.Person{{Name: "Sup Plier", Email: v}} }},
		{"pkg.license_concluded", func(p, f *sbom.Node, v string) { p.LicenseConcluded = v }},
		{"pkg.url_download", func(p, f *sbom.Node, v string) { p.UrlDownload = "https://d/" + v }},
		{"pkg.cpe23", func(p, f *sbom.Node, v string) {
			p.Identifiers = map[int32]string{int32(sbom.SoftwareIdentifierType_CPE23): "cpe:2.3:a:" + v}
		}},
		{"file.hash", func(p, f *sbom.Node, v string) { f.Hashes = map[int32]string{int32(sbom.HashAlgorithm_SHA1): v} }},
		{"pkg.purl", func(p, f *sbom.Node, v string) {
			p.Identifiers = map[int32]string{int32(sbom.SoftwareIdentifierType_PURL): "pkg:generic/" + v}
		}},
		{"pkg.hash", func(p, f *sbom.Node, v string) { p.Hashes = map[int32]string{int32(sbom.HashAlgorithm_SHA256): v} }},
	}
	var ms []string
	for _, s := range gen.NearStrings() {
		if strings.TrimSpace(s) == s && s != "" {
			ms = append(ms, s) // surrounding blanks are the writer's deliberate trimming (copyright) and covered by the attribute menu
		}
	}
	// long values: one value of 70 000 bytes (beyond every 64 KiB line or token buffer), of 12 000 characters that JSON
	// writes as six-byte escapes, and of 1.1 MB
	longs := map[string]string{"70000 x a": strings.Repeat("a", 70000), "12000 x <": strings.Repeat("<", 12000), "1100000 x ab": strings.Repeat("ab", 550000)}
	for _, ln := range []string{"12000 x <", "70000 x a", "1100000 x ab"} {
		for si := range slots {
			si, ln := si, ln
			if strings.Contains(slots[si].Name, "supplier") || strings.Contains(slots[si].Name, "originator") {
				if ln == "12000 x <" {
					continue // actor strings with characters that need a JSON escape: known finding (third-party decoder)
				}
			}
			c.Case(func() any { return map[string]string{"attribute": slots[si].Name, "value": ln} }, func(t *engine.T) *engine.Violation {
				p := &sbom.Node{Id: "a", Name: "pkg"}
				f := &sbom.Node{Id: "b-1", Name: "file", Type: sbom.Node_FILE}
				slots[si].Set(p, f, longs[ln])
				nl := &sbom.NodeList{Nodes: []*sbom.Node{p, f}, Edges: []*sbom.Edge{{From: "a", Type: tc, To: []string{"b-1"}}}, RootElements: []string{"a"}}
				if v := RoundTrip(t, docOf(nl), 2); v != nil {
					if len(v.Detail) > 1500 {
						v.Detail = v.Detail[:1500] + "…"
					}
					return v
				}
				t.State("long:" + slots[si].Name + ln)
				t.Outcome("string-ok")
				return nil
			})
		}
	}
	nNear := len(ms)
	for _, s := range gen.Vocabulary() {
		if strings.TrimSpace(s) == s {
			ms = append(ms, s)
		}
	}
	c.Bound("string-contents", fmt.Sprintf("%d text attributes x (%d near-strings + %d values from the vocabulary of the library's sources: every word-like string literal as written / lower / upper / title case, structural literals embedded in filler); every attribute with one value of 70 000 bytes, of 12 000 escaped characters and of 1.1 MB", len(slots), nNear, len(ms)-nNear))
	for si := range slots {
		for mi := range ms {
			si, mi := si, mi
			if slots[si].Name == "pkg.supplier.email" && strings.ContainsAny(ms[mi], " \t\n()\"\\<>&") {
				continue // not an e-mail address: outside the actor mini-syntax
			}
			c.Case(func() any { return map[string]string{"attribute": slots[si].Name, "value": ms[mi]} }, func(t *engine.T) *engine.Violation {
				p := &sbom.Node{Id: "a", Name: "pkg"}
				f := &sbom.Node{Id: "b-1", Name: "file", Type: sbom.Node_FILE}
				slots[si].Set(p, f, ms[mi])
				nl := &sbom.NodeList{Nodes: []*sbom.Node{p, f}, Edges: []*sbom.Edge{{From: "a", Type: tc, To: []string{"b-1"}}}, RootElements: []string{"a"}}
				if v := RoundTrip(t, docOf(nl), 2); v != nil {
					return v
				}
				t.State("str:" + slots[si].Name + ms[mi])
				t.Outcome("string-ok")
				return nil
			})
		}
	}
}

// zones: the process-local time zone is an environment answer; every single-deviation document
// (and the date triple) must round-trip identically under every zone of the menu.
func zones(c *engine.Ctx) {
	c.Group("environment-timezone")
	m := menu()
	zs := gen.Zones()
	c.Bound("environment-timezone", fmt.Sprintf("%d local zones x (%d single deviations + all three dates at once)", len(zs), len(m)))
	for _, z := range zs {
		for i := -1; i < len(m); i++ {
			z, i := z, i
			name := "all-dates"
			if i >= 0 {
				name = m[i].Name
			}
			c.Case(func() any { return map[string]string{"zone": z.String(), "deviation": name} }, func(t *engine.T) *engine.Violation {
				p := &sbom.Node{Id: "a", Name: "pkg"}
				f := &sbom.Node{Id: "b-1", Name: "file", Type: sbom.Node_FILE}
				if i >= 0 {
					m[i].Do(p, f)
				} else {
					p.ReleaseDate = timestamppb.New(time.Unix(1700000000, 0))
					p.BuildDate = timestamppb.New(time.Unix(1600000000, 5))
					p.ValidUntilDate = timestamppb.New(time.Date(2031, 1, 1, 0, 0, 0, 0, time.UTC))
				}
				nl := &sbom.NodeList{Nodes: []*sbom.Node{p, f}, Edges: []*sbom.Edge{{From: "a", Type: tc, To: []string{"b-1"}}}, RootElements: []string{"a"}}
				var v *engine.Violation
				gen.InZone(z, func() { v = RoundTrip(t, docOf(nl), 2) })
				if v != nil {
					v.Detail = "under local zone " + z.String() + ": " + v.Detail
					return v
				}
				t.State("zone:" + z.String() + name)
				t.Outcome("zone-ok")
				return nil
			})
		}
	}
}

func shapes(c *engine.Ctx) {
	run := func(group string, nodeIDs []string, maxEdges int, kindPatterns [][]sbom.Node_NodeType, indents []int) {
		c.Group(group)
		types := []sbom.Edge_Type{tc, td, to}
		objs := gen.EdgeObjects(nodeIDs, types, nodeIDs)
		c.Bound(group, fmt.Sprintf("nodes=%v, ordered edge lists of <=%d objects over %d candidates (3 types, every non-empty target subset incl. self), every root subset, %d kind patterns, indents %v", nodeIDs, maxEdges, len(objs), len(kindPatterns), indents))
		gen.EdgeLists(objs, maxEdges, func(el []gen.EdgeSpec) {
			if c.Expired() {
				return
			}
			for _, roots := range gen.Subsets(nodeIDs) {
				for ki, kp := range kindPatterns {
					for _, ind := range indents {
						spec := gen.ListSpec{Nodes: nodeIDs, Edges: el, Roots: roots}
						kp, ind, ki := kp, ind, ki
						c.Case(func() any { return map[string]any{"list": spec, "kinds": kp, "indent": ind} }, func(t *engine.T) *engine.Violation {
							nl := spec.Build()
							for i, n := range nl.Nodes {
								n.Type = kp[i]
							}
							if v := RoundTrip(t, docOf(nl), ind); v != nil {
								return v
							}
							t.State(fmt.Sprintf("%s|k%d|i%d", gen.CanonKey(nl), ki, ind))
							m := gen.ModelOf(nl)
							t.Outcome(fmt.Sprintf("shape n=%d e=%d r=%d", len(m.Nodes), len(m.Edges), len(m.Roots)))
							return nil
						})
					}
				}
			}
		})
	}
	P, F := sbom.Node_PACKAGE, sbom.Node_FILE
	if !c.Thorough() {
		run("shapes-n2-e3", ids[:2], 3, [][]sbom.Node_NodeType{{P, P}, {P, F}, {F, P}, {F, F}}, []int{0, 1, 4})
		run("shapes-n3-e2", ids[:3], 2, [][]sbom.Node_NodeType{{P, P, P}, {P, F, P}, {F, F, P}}, []int{0, 4})
		run("shapes-n4-e1", ids, 1, [][]sbom.Node_NodeType{{P, P, F, P}}, []int{0, 1, 4})
	} else {
		run("shapes-n2-e3", ids[:2], 3, [][]sbom.Node_NodeType{{P, P}, {P, F}, {F, P}, {F, F}}, []int{0, 1, 4})
		run("shapes-n3-e2", ids[:3], 2, [][]sbom.Node_NodeType{{P, P, P}, {P, F, P}, {F, F, P}, {F, F, F}}, []int{0, 1, 4})
		run("shapes-n3-e3", ids[:3], 3, [][]sbom.Node_NodeType{{P, F, P}}, []int{0})
		run("shapes-n4-e2", ids, 2, [][]sbom.Node_NodeType{{P, P, F, P}}, []int{4})
	}
}

// reserved: identifiers that only differ from SPDX's reserved words by case or by a suffix are ordinary identifiers.
func reserved(c *engine.Ctx) {
	c.Group("reserved-word-identifiers")
	words := []string{"Document", "document", "dOCUMENT", "DOCUMENT2", "DOCUMENT-x", "None", "none", "NONE1", "NoAssertion", "noassertion", "NOASSERTION.x", "SPDXRef", "spdxref-a", "DocumentRef-a", "Package", "File"}
	c.Bound("reserved-word-identifiers", fmt.Sprintf("%d identifiers next to DOCUMENT / NONE / NOASSERTION / SPDXRef as node in three graph positions (root, edge source, edge target) x kind", len(words)))
	for _, w := range words {
		for pos := 0; pos < 3; pos++ {
			for _, kind := range []sbom.Node_NodeType{sbom.Node_PACKAGE, sbom.Node_FILE} {
				w, pos, kind := w, pos, kind
				c.Case(func() any {
					return map[string]any{"id": w, "position": []string{"root+source", "target", "middle"}[pos], "kind": kind.String()}
				}, func(t *engine.T) *engine.Violation {
					nl := &sbom.NodeList{}
					switch pos {
					case 0:
						nl.Nodes = []*sbom.Node{{Id: w, Name: "n", Type: kind}, {Id: "leaf", Name: "l"}}
						nl.Edges = []*sbom.Edge{{From: w, Type: tc, To: []string{"leaf"}}, {From: w, Type: sbom.Edge_describes, To: []string{"leaf"}}}
						nl.RootElements = []string{w}
					case 1:
						nl.Nodes = []*sbom.Node{{Id: "top", Name: "t"}, {Id: w, Name: "n", Type: kind}}
						nl.Edges = []*sbom.Edge{{From: "top", Type: td, To: []string{w}}, {From: "top", Type: sbom.Edge_describes, To: []string{w}}}
						nl.RootElements = []string{"top"}
					default:
						nl.Nodes = []*sbom.Node{{Id: "top", Name: "t"}, {Id: w, Name: "n", Type: kind}, {Id: "leaf", Name: "l", Type: sbom.Node_FILE}}
						nl.Edges = []*sbom.Edge{{From: "top", Type: tc, To: []string{w}}, {From: w, Type: tc, To: []string{"leaf", w}}, {From: "leaf", Type: sbom.Edge_describedBy, To: []string{w}}}
						nl.RootElements = []string{"top", w}
					}
					if v := RoundTrip(t, docOf(nl), 2); v != nil {
						return v
					}
					t.State(fmt.Sprintf("reserved|%s|%d|%d", w, pos, kind))
					t.Outcome("reserved-ok")
					return nil
				})
			}
		}
	}
}

func enums(c *engine.Ctx) {
	c.Group("enum-sweeps")
	one := func(desc string, mk func() *sbom.NodeList) {
		c.Case(func() any { return desc }, func(t *engine.T) *engine.Violation {
			if v := RoundTrip(t, docOf(mk()), 2); v != nil {
				return v
			}
			t.State(desc)
			t.Outcome("enum-ok")
			return nil
		})
	}
	two := func() *sbom.NodeList {
		return &sbom.NodeList{Nodes: []*sbom.Node{{Id: "a", Name: "na"}, {Id: "b-1", Name: "nb", Type: sbom.Node_FILE}}, RootElements: []string{"a"}}
	}
	var ets []int
	for t := range sbom.Edge_Type_name {
		if t != 0 {
			ets = append(ets, int(t))
		}
	}
	sort.Ints(ets)
	c.Bound("enum-sweeps", fmt.Sprintf("%d relationship types singly and in all ordered pairs on one source; %d hash algorithms singly and in all pairs on a package and a file; identifier types, external-reference types, purposes", len(ets), len(sbom.HashAlgorithm_name)))
	for _, et := range ets {
		et := et
		one(fmt.Sprintf("edge-type %s", sbom.Edge_Type(et)), func() *sbom.NodeList {
			nl := two()
			nl.Edges = []*sbom.Edge{{From: "a", Type: sbom.Edge_Type(et), To: []string{"b-1"}}}
			return nl
		})
		for _, et2 := range ets {
			et2 := et2
			if et2 <= et {
				continue
			}
			one(fmt.Sprintf("edge-types %s+%s", sbom.Edge_Type(et), sbom.Edge_Type(et2)), func() *sbom.NodeList {
				nl := two()
				nl.Edges = []*sbom.Edge{{From: "a", Type: sbom.Edge_Type(et), To: []string{"b-1"}}, {From: "b-1", Type: sbom.Edge_Type(et2), To: []string{"a", "b-1"}}}
				return nl
			})
		}
	}
	var has []int
	for h := range sbom.HashAlgorithm_name {
		has = append(has, int(h))
	}
	sort.Ints(has)
	for _, h := range has {
		for _, h2 := range has {
			if h2 < h {
				continue
			}
			h, h2 := h, h2
			one(fmt.Sprintf("hashes %s+%s", sbom.HashAlgorithm(h), sbom.HashAlgorithm(h2)), func() *sbom.NodeList {
				nl := two()
				for _, n := range nl.Nodes {
					n.Hashes = map[int32]string{int32(h): "aa11", int32(h2): "bb22"}
				}
				return nl
			})
		}
	}
	for it := range sbom.SoftwareIdentifierType_name {
		for it2 := range sbom.SoftwareIdentifierType_name {
			it, it2 := it, it2
			one(fmt.Sprintf("identifiers %s+%s", sbom.SoftwareIdentifierType(it), sbom.SoftwareIdentifierType(it2)), func() *sbom.NodeList {
				nl := two()
				nl.Nodes[0].Identifiers = map[int32]string{it: "pkg:generic/x@1", it2: "cpe:2.3:a:b"}
				return nl
			})
		}
	}
	for rt := range sbom.ExternalReference_ExternalReferenceType_name {
		rt := rt
		one(fmt.Sprintf("extref %s", sbom.ExternalReference_ExternalReferenceType(rt)), func() *sbom.NodeList {
			nl := two()
			nl.Nodes[0].ExternalReferences = []*sbom.ExternalReference{{Type: sbom.ExternalReference_ExternalReferenceType(rt), Url: "https://e/x", Comment: "cm"}, {Type: sbom.ExternalReference_NPM, Url: "https://npm/y"}}
			return nl
		})
	}
	for p := range sbom.Purpose_name {
		p := p
		one(fmt.Sprintf("purpose %s", sbom.Purpose(p)), func() *sbom.NodeList {
			nl := two()
			nl.Nodes[0].PrimaryPurpose = []sbom.Purpose{sbom.Purpose(p)}
			return nl
		})
	}
}

type dev struct {
	Name string
	Slot string // deviations of one slot exclude each other
	Do   func(p, f *sbom.Node)
}

func menu() []dev {
	var m []dev
	add := func(slot, name string, f func(p, f *sbom.Node)) {
		m = append(m, dev{Name: slot + "=" + name, Slot: slot, Do: f})
	}
	txt := []string{"x", "Ünï cödé ✓ 日本", "a b", "q\"uo\\te <&> {}[]:,", "  lead", "trail  ", "multi\nline", "tab\tx", "SPDXRef-x", "NOASSERTION-ish", "x (y)", "a:b", "%41+%20", strings.Repeat("long", 300)}
	str := func(slot string, vals []string, set func(n *sbom.Node, v string), file bool) {
		for _, v := range vals {
			v := v
			add(slot, v, func(p, f *sbom.Node) {
				if file {
					set(f, v)
				} else {
					set(p, v)
				}
			})
		}
	}
	sent := append(append([]string{}, txt...), "NOASSERTION", "NONE")
	str("pkg.name", append([]string{""}, txt...), func(n *sbom.Node, v string) { n.Name = v }, false)
	str("pkg.version", txt, func(n *sbom.Node, v string) { n.Version = v }, false)
	str("pkg.url_home", []string{"https://h/x", "https://h/ü"}, func(n *sbom.Node, v string) { n.UrlHome = v }, false)
	str("pkg.url_download", []string{"https://d/x.tgz", "NOASSERTION", "NONE"}, func(n *sbom.Node, v string) { n.UrlDownload = v }, false)
	str("pkg.license_concluded", []string{"MIT", "MIT OR Apache-2.0", "NOASSERTION", "NONE"}, func(n *sbom.Node, v string) { n.LicenseConcluded = v }, false)
	str("pkg.license_comments", txt, func(n *sbom.Node, v string) { n.LicenseComments = v }, false)
	str("pkg.copyright", sent, func(n *sbom.Node, v string) { n.Copyright = v }, false)
	str("file.name", txt, func(n *sbom.Node, v string) { n.Name = v }, true)
	str("file.license_concluded", []string{"MIT", "NOASSERTION"}, func(n *sbom.Node, v string) { n.LicenseConcluded = v }, true)
	str("file.license_comments", txt[:2], func(n *sbom.Node, v string) { n.LicenseComments = v }, true)
	str("file.copyright", sent, func(n *sbom.Node, v string) { n.Copyright = v }, true)
	for _, h := range []sbom.HashAlgorithm{sbom.HashAlgorithm_SHA1, sbom.HashAlgorithm_SHA256, sbom.HashAlgorithm_MD5} {
		h := h
		add("pkg.hash."+h.String(), "aa", func(p, f *sbom.Node) { p.AddHash(h, "aa"+h.String()) })
		add("file.hash."+h.String(), "bb", func(p, f *sbom.Node) { f.AddHash(h, "bb"+h.String()) })
	}
	for _, it := range []sbom.SoftwareIdentifierType{sbom.SoftwareIdentifierType_PURL, sbom.SoftwareIdentifierType_CPE22, sbom.SoftwareIdentifierType_CPE23, sbom.SoftwareIdentifierType_GITOID} {
		it := it
		add("pkg.identifier."+it.String(), "v", func(p, f *sbom.Node) {
			if p.Identifiers == nil {
				p.Identifiers = map[int32]string{}
			}
			p.Identifiers[int32(it)] = map[sbom.SoftwareIdentifierType]string{sbom.SoftwareIdentifierType_PURL: "pkg:apk/w/p@1?a=b", sbom.SoftwareIdentifierType_CPE22: "cpe:/a:x:p:1", sbom.SoftwareIdentifierType_CPE23: "cpe:2.3:a:x:p:1:*:*:*:*:*:*:*", sbom.SoftwareIdentifierType_GITOID: "gitoid:blob:sha1:aa"}[it]
		})
	}
	for rt := range nativeRefs {
		rt := rt
		add("pkg.extref."+rt.String(), "u", func(p, f *sbom.Node) {
			p.ExternalReferences = append(p.ExternalReferences, &sbom.ExternalReference{Type: rt, Url: "https://r/" + rt.String(), Comment: "c " + rt.String()})
		})
	}
	for pp := range nativePurposes {
		pp := pp
		add("pkg.purpose", pp.String(), func(p, f *sbom.Node) { p.PrimaryPurpose = []sbom.Purpose{pp} })
	}
	dates := map[string]time.Time{"epoch": time.Unix(0, 0), "1700000000": time.Unix(1700000000, 0), "plus999ms": time.Unix(1700000000, 999_000_000), "year9999": time.Date(9999, 12, 31, 23, 59, 59, 0, time.UTC),
		// corners of the range: Go's zero time (the smallest valid timestamp), one second later, one second before the epoch
		"go-zero-time": time.Time{}, "year0001+1s": time.Time{}.Add(time.Second), "minus1s": time.Unix(-1, 0), "year1969": time.Date(1969, 7, 20, 20, 17, 40, 0, time.UTC)}
	for dn, dv := range dates {
		dn, dv := dn, dv
		add("pkg.release_date", dn, func(p, f *sbom.Node) { p.ReleaseDate = timestamppb.New(dv) })
		add("pkg.build_date", dn, func(p, f *sbom.Node) { p.BuildDate = timestamppb.New(dv) })
		add("pkg.valid_until_date", dn, func(p, f *sbom.Node) { p.ValidUntilDate = timestamppb.New(dv) })
	}
	for _, org := range []bool{false, true} {
		for _, email := range []string{"", "e@example.com"} {
			org, email := org, email
			add("pkg.supplier", fmt.Sprintf("org=%v email=%q", org, email), func(p, f *sbom.Node) {
				p.Suppliers = []*sbom.Person{{Name: "Sup Plier", IsOrg: org, Email: email}, {Name: "second"}}
			})
			add("pkg.originator", fmt.Sprintf("org=%v email=%q", org, email), func(p, f *sbom.Node) {
				p.Originators = []*sbom.Person{{Name: "Ori Ginator", IsOrg: org, Email: email}}
			})
		}
	}
	// the actor mini-syntax "Name (email)": a name that itself contains parentheses is representable as long as an e-mail follows
	add("pkg.supplier", "parenthesised-name+email", func(p, f *sbom.Node) {
		p.Suppliers = []*sbom.Person{{Name: "ACME (UK) Ltd", IsOrg: true, Email: "info@acme.example"}}
	})
	add("pkg.originator", "parenthesised-name+email", func(p, f *sbom.Node) {
		p.Originators = []*sbom.Person{{Name: "J. (Joe) Doe", Email: "jd@example.com"}}
	})
	sort.SliceStable(m, func(i, j int) bool { return m[i].Name < m[j].Name })
	return m
}

func attributes(c *engine.Ctx) {
	c.Group("attributes")
	m := menu()
	maxDev := 2
	if c.Thorough() {
		maxDev = 3
	}
	c.Bound("attributes", fmt.Sprintf("2-node document (package + file); %d deviations in %d slots; every set of <=%d deviations from distinct slots", len(m), countSlots(m), maxDev))
	var rec func(start int, cur []int)
	rec = func(start int, cur []int) {
		sel := append([]int{}, cur...)
		c.Case(func() any {
			var names []string
			for _, i := range sel {
				names = append(names, m[i].Name)
			}
			return names
		}, func(t *engine.T) *engine.Violation {
			p := &sbom.Node{Id: "a", Name: "pkg"}
			f := &sbom.Node{Id: "b-1", Name: "file", Type: sbom.Node_FILE}
			var names []string
			for _, i := range sel {
				m[i].Do(p, f)
				names = append(names, m[i].Name)
			}
			nl := &sbom.NodeList{Nodes: []*sbom.Node{p, f}, Edges: []*sbom.Edge{{From: "a", Type: tc, To: []string{"b-1"}}}, RootElements: []string{"a"}}
			if v := RoundTrip(t, docOf(proto.Clone(nl).(*sbom.NodeList)), 2); v != nil {
				return v
			}
			t.State("attr:" + strings.Join(names, "+"))
			t.Outcome(fmt.Sprintf("attrs-ok-%d", len(sel)))
			return nil
		})
		if len(cur) == maxDev || c.Expired() {
			return
		}
		for i := start; i < len(m); i++ {
			clash := false
			for _, j := range cur {
				if m[j].Slot == m[i].Slot {
					clash = true
				}
			}
			if clash {
				continue
			}
			rec(i+1, append(cur, i))
		}
	}
	rec(0, nil)
}

func countSlots(m []dev) int {
	s := map[string]bool{}
	for _, d := range m {
		s[d.Slot] = true
	}
	return len(s)
}
