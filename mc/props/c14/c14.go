// Package c14: node diff is sound, complete and reconstructive.
package c14

import (
	"fmt"
	"google.golang.org/protobuf/types/known/timestamppb"
	"sort"
	"strings"
	"time"

	"github.com/protobom/protobom/pkg/sbom"
	"google.golang.org/protobuf/proto"
	"google.golang.org/protobuf/reflect/protoreflect"

	"mcverif/engine"
	"mcverif/gen"
	"mcverif/props/c13"
)

var Spec = engine.Spec{
	ID: "C14", Run: Run, MapOrders: true, QuickBud: 5 * time.Minute, ThorBud: 45 * time.Minute,
	Technique: "explicit enumeration of ordered node pairs (base, base + <=2 (thorough 3) reflection-generated single-field deviations, both directions) against a per-attribute count model and a reconstruction model",
	Rule:      "case = (base, set of <=k deviations, direction); bases: empty, sparse, fully populated by reflection, fully populated with duplicated list elements; distinct state = base + deviation labels + direction",
	Assume:    []string{"attributes compared as sets for list- and map-valued ones and to the second for dates; nested persons / external references identified by their full content"},
}

var ordered = map[string]bool{"protobom.protobom.Person.contacts": true}

// attrContent is the reference content of one attribute, with set semantics.
func attrContent(n *sbom.Node, fd protoreflect.FieldDescriptor) string {
	r := n.ProtoReflect()
	if !r.Has(fd) {
		return ""
	}
	v := r.Get(fd)
	switch {
	case fd.IsList():
		set := map[string]bool{}
		for i := 0; i < v.List().Len(); i++ {
			set[elemContent(fd, v.List().Get(i))] = true
		}
		return strings.Join(sortedKeys(set), ",")
	case fd.IsMap():
		set := map[string]bool{}
		v.Map().Range(func(k protoreflect.MapKey, mv protoreflect.Value) bool {
			set[fmt.Sprintf("%v=%q", k.Interface(), mv.String())] = true
			return true
		})
		return strings.Join(sortedKeys(set), ",")
	default:
		return elemContent(fd, v)
	}
}

func elemContent(fd protoreflect.FieldDescriptor, v protoreflect.Value) string {
	switch fd.Kind() {
	case protoreflect.MessageKind:
		return gen.Canon(v.Message().Interface(), ordered)
	case protoreflect.StringKind:
		return fmt.Sprintf("%q", v.String())
	case protoreflect.EnumKind:
		return fmt.Sprintf("e%d", v.Enum())
	default:
		return fmt.Sprint(v.Interface())
	}
}

func sortedKeys(m map[string]bool) []string {
	out := make([]string, 0, len(m))
	for k := range m {
		out = append(out, k)
	}
	sort.Strings(out)
	return out
}

// rebuild applies a diff to n: remove Removed, then apply Added, attribute by attribute.
func rebuild(n *sbom.Node, d *sbom.NodeDiff) *sbom.Node {
	out := proto.Clone(n).(*sbom.Node)
	if d == nil {
		return out
	}
	ro, ra, rr := out.ProtoReflect(), d.Added.ProtoReflect(), d.Removed.ProtoReflect()
	fds := ro.Descriptor().Fields()
	for i := 0; i < fds.Len(); i++ {
		fd := fds.Get(i)
		switch {
		case fd.IsList():
			rm := map[string]bool{}
			for j := 0; j < rr.Get(fd).List().Len(); j++ {
				rm[elemContent(fd, rr.Get(fd).List().Get(j))] = true
			}
			old := ro.Get(fd).List()
			var keep []protoreflect.Value
			for j := 0; j < old.Len(); j++ {
				if !rm[elemContent(fd, old.Get(j))] {
					keep = append(keep, old.Get(j))
				}
			}
			ro.Clear(fd)
			nl := ro.Mutable(fd).List()
			for _, v := range keep {
				nl.Append(v)
			}
			for j := 0; j < ra.Get(fd).List().Len(); j++ {
				nl.Append(ra.Get(fd).List().Get(j))
			}
		case fd.IsMap():
			mp := ro.Mutable(fd).Map()
			rr.Get(fd).Map().Range(func(k protoreflect.MapKey, _ protoreflect.Value) bool { mp.Clear(k); return true })
			ra.Get(fd).Map().Range(func(k protoreflect.MapKey, v protoreflect.Value) bool { mp.Set(k, v); return true })
		case fd.Kind() == protoreflect.MessageKind:
			if ra.Has(fd) {
				ro.Set(fd, ra.Get(fd))
			} else if rr.Has(fd) {
				ro.Clear(fd)
			}
		default:
			// scalar: a recorded addition replaces, a recorded removal clears
			if ra.Has(fd) {
				ro.Set(fd, ra.Get(fd))
			} else if rr.Has(fd) {
				ro.Clear(fd)
			}
		}
	}
	return out
}

type base struct {
	Label string
	Node  *sbom.Node
}

func bases() []base {
	full := &sbom.Node{}
	gen.Full(full, "A", 2)
	dup := &sbom.Node{}
	gen.Full(dup, "A", 2)
	// duplicate every scalar-list element once
	dup.Licenses = append(dup.Licenses, dup.Licenses[0])
	dup.Attribution = append(dup.Attribution, dup.Attribution[1])
	dup.FileTypes = append(dup.FileTypes, dup.FileTypes[0])
	dup.PrimaryPurpose = append(dup.PrimaryPurpose, dup.PrimaryPurpose[0])
	dup.Suppliers = append(dup.Suppliers, proto.Clone(dup.Suppliers[0]).(*sbom.Person))
	dup.ExternalReferences = append(dup.ExternalReferences, proto.Clone(dup.ExternalReferences[1]).(*sbom.ExternalReference))
	return []base{
		{"empty", &sbom.Node{}},
		{"sparse", &sbom.Node{Id: "n", Name: "sparse", Type: sbom.Node_FILE, Licenses: []string{"MIT"}, Hashes: map[int32]string{1: "aa"}}},
		{"full", full},
		{"full-dup", dup},
		{"full20", full20()},
		{"full-subsecond-dates", subsec()},
		{"full-pre-epoch-subsecond-dates", preEpoch()},
		{"full-deep", fullDeep()},
	}
}

// preEpoch: the three dates before 1970 with half a second (negative seconds, positive nanos: rounding toward zero and
// rounding down differ).
func preEpoch() *sbom.Node {
	n := &sbom.Node{}
	gen.Full(n, "A", 2)
	for i, ts := range []*timestamppb.Timestamp{n.ReleaseDate, n.BuildDate, n.ValidUntilDate} {
		ts.Seconds, ts.Nanos = -1_000_000_000-int64(i), 500_000_000
	}
	return n
}

// fullDeep: three entries in every list and map of the nested messages as well (an external reference with three
// hashes, persons with three contacts who have three contacts).
func fullDeep() *sbom.Node {
	n := &sbom.Node{}
	gen.FullDeep(n, "A", 3, 2)
	return n
}

func full20() *sbom.Node {
	n := &sbom.Node{}
	gen.Full(n, "W", 20)
	return n
}

// subsec: fully populated node whose three dates carry 700 ms.
func subsec() *sbom.Node {
	n := &sbom.Node{}
	gen.Full(n, "A", 2)
	n.ReleaseDate.Nanos, n.BuildDate.Nanos, n.ValidUntilDate.Nanos = 700_000_000, 700_000_000, 700_000_000
	return n
}

func Run(c *engine.Ctx) {
	fds := gen.Fields(&sbom.Node{})
	maxDev := 2
	if c.Thorough() {
		maxDev = 3
	}
	crafted(c, fds)
	stringContents(c, fds)
	deepNesting(c, fds)
	wideCollections(c, fds)
	afterEdit(c, fds)
	sharedElements(c, fds)
	for _, b := range bases() {
		b := b
		if b.Label == "full20" && !c.Thorough() {
			continue // size class: thorough tier
		}
		depth := 2
		devs := gen.Deviations(b.Node, depth)
		c.Group("base-" + b.Label)
		maxDev := maxDev
		if (b.Label == "full-deep" || b.Label == "full-pre-epoch-subsecond-dates") && !c.Thorough() {
			maxDev = 1 // quick tier: single deviations on the widest bases
		}
		c.Bound("base-"+b.Label, fmt.Sprintf("%d single deviations; all subsets of size <= %d (size 3 only over top-level deviations of distinct fields), both directions", len(devs), maxDev))
		run := func(idx []int) {
			labels := make([]string, len(idx))
			for i, k := range idx {
				labels[i] = devs[k].Label
			}
			for dir := 0; dir < 2; dir++ {
				dir := dir
				c.Case(func() any { return map[string]any{"base": b.Label, "deviations": labels, "reverse": dir == 1} }, func(t *engine.T) *engine.Violation {
					n2 := proto.Clone(b.Node).(*sbom.Node)
					if !applyAll(n2, devs, idx) {
						// the deviations address the same list element and cannot be combined (one shortens the list the other indexes)
						t.Outcome("incompatible-deviation-pair")
						return nil
					}
					n1 := proto.Clone(b.Node).(*sbom.Node)
					if dir == 1 {
						n1, n2 = n2, n1
					}
					return diffCase(t, fds, n1, n2, b.Label+strings.Join(labels, "+")+fmt.Sprint(dir))
				})
			}
		}
		run(nil)
		for i := range devs {
			if c.Expired() {
				break
			}
			run([]int{i})
			for j := i + 1; j < len(devs) && maxDev >= 2; j++ {
				run([]int{i, j})
				if maxDev >= 3 && !strings.Contains(devs[i].Label, ".") && !strings.Contains(devs[j].Label, ".") {
					for k := j + 1; k < len(devs); k++ {
						if strings.Contains(devs[k].Label, ".") || devs[k].Field == devs[j].Field || devs[k].Field == devs[i].Field || devs[i].Field == devs[j].Field {
							continue
						}
						run([]int{i, j, k})
					}
				}
			}
		}
	}
}

// crafted: pairs that the flattened equality encoding cannot tell apart (C13's known findings) differ in content
// and must be reported by Diff with the right count and a working reconstruction.
func crafted(c *engine.Ctx, fds []protoreflect.FieldDescriptor) {
	c.Group("encoding-collisions")
	for pi, pr := range c13.CraftedPairs() {
		for dir := 0; dir < 2; dir++ {
			pi, pr, dir := pi, pr, dir
			c.Case(func() any { return map[string]any{"crafted-pair": pi, "reverse": dir == 1} }, func(t *engine.T) *engine.Violation {
				a, b := proto.Clone(pr[0]).(*sbom.Node), proto.Clone(pr[1]).(*sbom.Node)
				if dir == 1 {
					a, b = b, a
				}
				return diffCase(t, fds, a, b, fmt.Sprintf("crafted%d-%d", pi, dir))
			})
		}
	}
}

// stringContents: at every string-valued place of a fully populated node, every ordered pair of the
// near-string menu on the two sides: different strings are a difference, whatever they look like.
func stringContents(c *engine.Ctx, fds []protoreflect.FieldDescriptor) {
	c.Group("string-contents")
	full := &sbom.Node{}
	gen.Full(full, "A", 2)
	slots := gen.StringSlots(full, 2)
	menu := gen.NearStrings()
	var pairs [][2]string
	for i := range menu {
		for j := range menu {
			pairs = append(pairs, [2]string{menu[i], menu[j]})
		}
	}
	nMenuPairs := len(pairs)
	// every word-like literal of the library's sources against its own case variants and padded / prefixed forms
	lits, _ := gen.Literals()
	for _, l := range lits {
		if len(l) > 16 || strings.ContainsAny(l, "%\\\"`") {
			continue
		}
		for _, v := range []string{strings.ToLower(l), strings.ToUpper(l), l + " ", "x" + l} {
			if v != l {
				pairs = append(pairs, [2]string{l, v})
			}
		}
	}
	c.Bound("string-contents", fmt.Sprintf("%d string-valued places (nested to depth 2) x (all %d ordered pairs of a %d-entry near-string menu + %d pairs of a source literal with a case variant / padded / prefixed form of itself)", len(slots), nMenuPairs, len(menu), len(pairs)-nMenuPairs))
	for si := range slots {
		if slots[si].Label == "id" {
			continue // the key, not an attribute
		}
		for pi := range pairs {
			si, pi := si, pi
			c.Case(func() any { return map[string]any{"place": slots[si].Label, "first": pairs[pi][0], "second": pairs[pi][1]} }, func(t *engine.T) *engine.Violation {
				n1, n2 := proto.Clone(full).(*sbom.Node), proto.Clone(full).(*sbom.Node)
				slots[si].Set(n1.ProtoReflect(), pairs[pi][0])
				slots[si].Set(n2.ProtoReflect(), pairs[pi][1])
				return diffCase(t, fds, n1, n2, fmt.Sprintf("str|%s|%d", slots[si].Label, pi))
			})
		}
	}
}

func applyAll(n *sbom.Node, devs []gen.Deviation, idx []int) (ok bool) {
	defer func() {
		if r := recover(); r != nil {
			ok = false
		}
	}()
	for _, k := range idx {
		devs[k].Mutate(n.ProtoReflect())
	}
	return true
}

func diffCase(t *engine.T, fds []protoreflect.FieldDescriptor, n1, n2 *sbom.Node, key string) *engine.Violation {
	want := 0
	var differing []string
	for _, fd := range fds {
		if attrContent(n1, fd) != attrContent(n2, fd) {
			want++
			differing = append(differing, string(fd.Name()))
		}
	}
	d := n1.Diff(n2)
	t.Transitions(1)
	t.Validated(1)
	if d != nil {
		t.Observe(fmt.Sprint(d.DiffCount, gen.Canon(d.Added, ordered), gen.Canon(d.Removed, ordered)))
	} else {
		t.Observe("nil")
	}
	if want == 0 {
		if d != nil {
			return engine.Violate("diff-sound", "", "no attribute differs but Diff reports %d difference(s): added=%s removed=%s", d.DiffCount, gen.Snap(d.Added), gen.Snap(d.Removed))
		}
	} else {
		if d == nil {
			// nested persons / external references are identified by their flattened encoding: values that contain the
			// encoding's separators inherit C13's known finding
			return engine.Violate("diff-complete", c13.EncodingCollisionTrigger(n1, n2), "attributes %v differ but Diff returned nil", differing)
		}
		if d.DiffCount != want {
			return engine.Violate("diff-count", "", "attributes %v differ (%d) but DiffCount=%d", differing, want, d.DiffCount)
		}
		if d.Added == nil || d.Removed == nil {
			return engine.Violate("diff-complete", "nil-parts", "Added or Removed is nil")
		}
		r := rebuild(n1, d)
		for _, fd := range fds {
			if got, exp := attrContent(r, fd), attrContent(n2, fd); got != exp {
				return engine.Violate("diff-reconstruct", string(fd.Name()), "attribute %s: rebuilding the first node with the diff gives %s, the second node has %s\nadded=%s\nremoved=%s", fd.Name(), got, exp, gen.Snap(d.Added), gen.Snap(d.Removed))
			}
		}
	}
	// self / equal copy
	if x := n1.Diff(n1); x != nil {
		return engine.Violate("diff-self", "", "Diff with itself is not nil")
	}
	if x := n2.Diff(proto.Clone(n2).(*sbom.Node)); x != nil {
		return engine.Violate("diff-self", "copy", "Diff with an equal copy is not nil: added=%s removed=%s", gen.Snap(x.Added), gen.Snap(x.Removed))
	}
	t.State(key)
	t.Outcome(fmt.Sprintf("differing=%d", want))
	if want > 0 {
		t.NonTrivial()
	}
	return nil
}

// deepNesting: supplier contact chains of depth 1..130; an edit of the person at any level is one differing attribute
// (suppliers), reported once and reconstructible, in both directions.
func deepNesting(c *engine.Ctx, fds []protoreflect.FieldDescriptor) {
	c.Group("deep-nesting")
	depths := gen.DepthLadder(130)
	c.Bound("deep-nesting", fmt.Sprintf("supplier contact chains of depth %v x an edit of the person at every level, both directions", depths))
	for _, d := range depths {
		for dir := 0; dir < 2; dir++ {
			d, dir := d, dir
			c.Case(func() any { return map[string]any{"depth": d, "reverse": dir == 1} }, func(t *engine.T) *engine.Violation {
				mk := func() *sbom.Node {
					return &sbom.Node{Id: "a", Name: "n", Suppliers: []*sbom.Person{gen.ContactChain(d)}}
				}
				for level := 0; level <= d; level++ {
					n1, n2 := mk(), mk()
					gen.PersonAt(n2.Suppliers[0], level).Name += "x"
					if dir == 1 {
						n1, n2 = n2, n1
					}
					if v := diffCase(t, fds, n1, n2, fmt.Sprint("deep", d, level, dir)); v != nil {
						v.Detail = fmt.Sprintf("contact chain of depth %d, person at level %d edited: %s", d, level, v.Detail)
						return v
					}
				}
				return nil
			})
		}
	}
}

// wideCollections: every list and map of the node with 33, 65 and 130 entries (either side of 32, 64, 128): a node
// against itself and against an equal copy reports nothing; one entry changed at the first, a middle and the last
// position is one differing attribute, reconstructible, in both directions.
func wideCollections(c *engine.Ctx, fds []protoreflect.FieldDescriptor) {
	c.Group("wide-collections")
	sizes := []int{33, 65, 130}
	c.Bound("wide-collections", fmt.Sprintf("node with %v entries in every list and map: self, equal copy, and one entry changed at position first / middle / last of every list- or map-valued attribute, both directions", sizes))
	for _, size := range sizes {
		size := size
		mk := func() *sbom.Node {
			n := &sbom.Node{}
			gen.Full(n, "W", size)
			return n
		}
		c.Case(func() any { return map[string]any{"entries": size, "pair": "self and equal copy"} }, func(t *engine.T) *engine.Violation {
			n := mk()
			if v := diffCase(t, fds, n, n, fmt.Sprint("wide-self", size)); v != nil {
				return v
			}
			return diffCase(t, fds, mk(), mk(), fmt.Sprint("wide-copy", size))
		})
		for _, fd := range fds {
			if !fd.IsList() && !fd.IsMap() {
				continue
			}
			for _, pos := range []int{0, size / 2, size - 1} {
				for dir := 0; dir < 2; dir++ {
					fd, pos, dir := fd, pos, dir
					c.Case(func() any {
						return map[string]any{"entries": size, "attribute": string(fd.Name()), "changed-position": pos, "reverse": dir == 1}
					}, func(t *engine.T) *engine.Violation {
						n1, n2 := mk(), mk()
						r := n2.ProtoReflect()
						if fd.IsList() {
							l := r.Mutable(fd).List()
							if pos >= l.Len() {
								return nil
							}
							switch fd.Kind() {
							case protoreflect.StringKind:
								l.Set(pos, protoreflect.ValueOfString(l.Get(pos).String()+"-changed"))
							case protoreflect.EnumKind:
								l.Set(pos, protoreflect.ValueOfEnum(fd.Enum().Values().Get(0).Number()))
							case protoreflect.MessageKind:
								m := l.Get(pos).Message()
								mf := m.Descriptor().Fields()
								for i := 0; i < mf.Len(); i++ {
									if mf.Get(i).Kind() == protoreflect.StringKind && !mf.Get(i).IsList() && !mf.Get(i).IsMap() {
										m.Set(mf.Get(i), protoreflect.ValueOfString(m.Get(mf.Get(i)).String()+"-changed"))
										break
									}
								}
							default:
								return nil
							}
						} else {
							mp := r.Mutable(fd).Map()
							var ks []protoreflect.MapKey
							mp.Range(func(k protoreflect.MapKey, _ protoreflect.Value) bool { ks = append(ks, k); return true })
							sort.Slice(ks, func(a, b int) bool { return ks[a].Int() < ks[b].Int() })
							if pos >= len(ks) || fd.MapValue().Kind() != protoreflect.StringKind {
								return nil
							}
							mp.Set(ks[pos], protoreflect.ValueOfString(mp.Get(ks[pos]).String()+"-changed"))
						}
						if dir == 1 {
							n1, n2 = n2, n1
						}
						return diffCase(t, fds, n1, n2, fmt.Sprint("wide", size, fd.Name(), pos, dir))
					})
				}
			}
		}
	}
}

// afterEdit: a node is diffed, edited in place, and diffed again; the second report must be the report for a fresh copy
// of the edited node (differential oracle: nothing remembered from the first call may steer the second).
func afterEdit(c *engine.Ctx, fds []protoreflect.FieldDescriptor) {
	c.Group("after-edit")
	base := &sbom.Node{}
	gen.Full(base, "A", 2)
	devs := gen.Deviations(base, 2)
	c.Bound("after-edit", fmt.Sprintf("%d in-place edits of a fully populated node between two Diff calls (as receiver and as argument); second report = report on a fresh copy", len(devs)))
	for di := range devs {
		di := di
		c.Case(func() any { return map[string]string{"edit-after-first-diff": devs[di].Label} }, func(t *engine.T) *engine.Violation {
			v, ref := proto.Clone(base).(*sbom.Node), proto.Clone(base).(*sbom.Node)
			_, _ = v.Diff(ref), ref.Diff(v)
			func() {
				defer func() { _ = recover() }()
				devs[di].Mutate(v.ProtoReflect())
			}()
			fresh := proto.Clone(v).(*sbom.Node)
			t.Transitions(6)
			t.Validated(2)
			if a, b := snapDiff(v.Diff(ref)), snapDiff(fresh.Diff(ref)); a != b {
				return engine.Violate("diff-sound", "after-edit", "after the in-place edit %s edited.Diff(base) differs from the same call on a fresh copy: %s", devs[di].Label, gen.SnapDiff(b, a))
			}
			if a, b := snapDiff(ref.Diff(v)), snapDiff(ref.Diff(fresh)); a != b {
				return engine.Violate("diff-sound", "after-edit", "after the in-place edit %s base.Diff(edited) differs from the same call on a fresh copy: %s", devs[di].Label, gen.SnapDiff(b, a))
			}
			t.State("after-edit|" + devs[di].Label)
			t.Outcome("after-edit-ok")
			return nil
		})
	}
}

func snapDiff(d *sbom.NodeDiff) string {
	if d == nil {
		return "<nil>"
	}
	a, r := "<nil>", "<nil>"
	if d.Added != nil {
		a = gen.Canon(d.Added, nil)
	}
	if d.Removed != nil {
		r = gen.Canon(d.Removed, nil)
	}
	return fmt.Sprintf("count=%d added=%s removed=%s", d.DiffCount, a, r)
}

// sharedElements: the second node was derived from the first without a deep copy - its supplier, originator and
// external-reference lists hold the SAME element objects as the first node's (a common prefix, the whole list, one
// element), followed by nothing, by one of those objects again, by an equal copy of one, or by a different element.
func sharedElements(c *engine.Ctx, fds []protoreflect.FieldDescriptor) {
	c.Group("shared-elements")
	type variant struct {
		Name string
		Mk   func(l protoreflect.List, n int) []protoreflect.Value
	}
	el := func(l protoreflect.List, i int) protoreflect.Value { return l.Get(i) }
	cl := func(l protoreflect.List, i int) protoreflect.Value {
		return protoreflect.ValueOfMessage(proto.Clone(l.Get(i).Message().Interface()).ProtoReflect())
	}
	variants := []variant{
		{"same objects, same order", func(l protoreflect.List, n int) []protoreflect.Value { return []protoreflect.Value{el(l, 0), el(l, 1)} }},
		{"same objects + the first again", func(l protoreflect.List, n int) []protoreflect.Value {
			return []protoreflect.Value{el(l, 0), el(l, 1), el(l, 0)}
		}},
		{"same objects + an equal copy of the first", func(l protoreflect.List, n int) []protoreflect.Value {
			return []protoreflect.Value{el(l, 0), el(l, 1), cl(l, 0)}
		}},
		{"first object only + itself again", func(l protoreflect.List, n int) []protoreflect.Value { return []protoreflect.Value{el(l, 0), el(l, 0)} }},
		{"first object only", func(l protoreflect.List, n int) []protoreflect.Value { return []protoreflect.Value{el(l, 0)} }},
		{"same objects reversed", func(l protoreflect.List, n int) []protoreflect.Value { return []protoreflect.Value{el(l, 1), el(l, 0)} }},
		{"first object + equal copy of the second", func(l protoreflect.List, n int) []protoreflect.Value { return []protoreflect.Value{el(l, 0), cl(l, 1)} }},
	}
	var lfs []protoreflect.FieldDescriptor
	for _, fd := range fds {
		if fd.IsList() && fd.Kind() == protoreflect.MessageKind {
			lfs = append(lfs, fd)
		}
	}
	c.Bound("shared-elements", fmt.Sprintf("%d message-valued lists x %d ways in which the second node's list is made of the first node's own element objects (prefix, repeated, reversed, next to equal copies) x both directions", len(lfs), len(variants)))
	for _, fd := range lfs {
		for vi := range variants {
			for dir := 0; dir < 2; dir++ {
				fd, vi, dir := fd, vi, dir
				c.Case(func() any { return map[string]any{"list": string(fd.Name()), "second-node": variants[vi].Name, "reverse": dir == 1} }, func(t *engine.T) *engine.Violation {
					n1 := &sbom.Node{}
					gen.Full(n1, "A", 2)
					n2 := proto.Clone(n1).(*sbom.Node)
					src := n1.ProtoReflect().Get(fd).List()
					dst := n2.ProtoReflect().Mutable(fd).List()
					dst.Truncate(0)
					for _, v := range variants[vi].Mk(src, src.Len()) {
						dst.Append(v)
					}
					a, b := n1, n2
					if dir == 1 {
						a, b = n2, n1
					}
					return diffCase(t, fds, a, b, fmt.Sprint("shared", fd.Name(), vi, dir))
				})
			}
		}
	}
}
