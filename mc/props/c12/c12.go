// Package c12: copies and combined results are independent values.
package c12

import (
	"fmt"
	"google.golang.org/protobuf/types/known/timestamppb"
	"runtime"
	"strings"
	"time"

	"github.com/protobom/protobom/pkg/sbom"
	"google.golang.org/protobuf/proto"
	"google.golang.org/protobuf/reflect/protoreflect"

	"mcverif/engine"
	"mcverif/gen"
)

var Spec = engine.Spec{
	ID: "C12", Run: Run, MapOrders: true, QuickBud: 5 * time.Minute, ThorBud: 20 * time.Minute,
	Technique: "explicit enumeration of every schema field path (by reflection) x {Copy of each message type, Union, Intersect}: mutate one side, snapshot the other; plus all call histories of length 2 (thorough 3) over {Union, Intersect, Copy} on shared operands with snapshots of every earlier result re-taken after every later call",
	Rule:      "case = (derivation, source value, field-path deviation, which side is mutated) or one call history; sources are built with spare slice capacity; distinct state = derivation + value label + path + side",
	Assume:    []string{"snapshots are order-sensitive field-by-field dumps (gen.Snap); writes beyond a slice's length into shared spare capacity are only observed through later appends, which the histories exercise"},
}

var ordered = map[string]bool{"protobom.protobom.Person.contacts": true}

// spare rebuilds every slice of the node with spare capacity (append must not reallocate).
func spareNode(n *sbom.Node) {
	if n == nil {
		return
	}
	n.Licenses = spareS(n.Licenses)
	n.Attribution = spareS(n.Attribution)
	n.FileTypes = spareS(n.FileTypes)
	if n.PrimaryPurpose != nil {
		p := make([]sbom.Purpose, len(n.PrimaryPurpose), len(n.PrimaryPurpose)+4)
		copy(p, n.PrimaryPurpose)
		n.PrimaryPurpose = p
	}
	if n.Suppliers != nil {
		p := make([]*sbom.Person, len(n.Suppliers), len(n.Suppliers)+4)
		copy(p, n.Suppliers)
		n.Suppliers = p
	}
	if n.Originators != nil {
		p := make([]*sbom.Person, len(n.Originators), len(n.Originators)+4)
		copy(p, n.Originators)
		n.Originators = p
	}
	if n.ExternalReferences != nil {
		p := make([]*sbom.ExternalReference, len(n.ExternalReferences), len(n.ExternalReferences)+4)
		copy(p, n.ExternalReferences)
		n.ExternalReferences = p
	}
	for _, s := range n.Suppliers {
		sparePerson(s)
	}
	for _, s := range n.Originators {
		sparePerson(s)
	}
}

func sparePerson(p *sbom.Person) {
	if p.Contacts != nil {
		c := make([]*sbom.Person, len(p.Contacts), len(p.Contacts)+4)
		copy(c, p.Contacts)
		p.Contacts = c
		for _, x := range c {
			sparePerson(x)
		}
	}
}

func spareS(s []string) []string {
	if s == nil {
		return nil
	}
	o := make([]string, len(s), len(s)+4)
	copy(o, s)
	return o
}

func spareList(nl *sbom.NodeList) *sbom.NodeList {
	ns := make([]*sbom.Node, len(nl.Nodes), len(nl.Nodes)+4)
	copy(ns, nl.Nodes)
	nl.Nodes = ns
	es := make([]*sbom.Edge, len(nl.Edges), len(nl.Edges)+4)
	copy(es, nl.Edges)
	nl.Edges = es
	nl.RootElements = spareS(nl.RootElements)
	for _, n := range nl.Nodes {
		spareNode(n)
	}
	for _, e := range nl.Edges {
		e.To = spareS(e.To)
	}
	return nl
}

type copyKind struct {
	Name  string
	Bases func() map[string]proto.Message
	Copy  func(m proto.Message) proto.Message
	Equal func(a, b proto.Message) (bool, bool) // (result, hasEqual)
}

func fullNode(tag string, n int) *sbom.Node {
	x := &sbom.Node{}
	gen.Full(x, tag, n)
	spareNode(x)
	return x
}

// aliasedNode: the same *Person object is referenced twice inside one contact tree and by two suppliers, and one
// external reference is listed twice (values need not be trees).
func aliasedNode() *sbom.Node {
	bob := &sbom.Person{Name: "bob", Email: "bob@example.com"}
	team := &sbom.Person{Name: "team", IsOrg: true, Contacts: []*sbom.Person{bob, bob}}
	ref := &sbom.ExternalReference{Url: "https://x", Type: sbom.ExternalReference_VCS, Hashes: map[int32]string{1: "aa"}}
	n := &sbom.Node{Id: "al", Name: "aliased", Suppliers: []*sbom.Person{team, {Name: "other", Contacts: []*sbom.Person{bob}}}, Originators: []*sbom.Person{team}, ExternalReferences: []*sbom.ExternalReference{ref, ref}}
	spareNode(n)
	return n
}

func aliasedPerson() *sbom.Person {
	bob := &sbom.Person{Name: "bob"}
	return &sbom.Person{Name: "team", Contacts: []*sbom.Person{bob, {Name: "mid", Contacts: []*sbom.Person{bob}}, bob}}
}

func kinds() []copyKind {
	return []copyKind{
		{"Node", func() map[string]proto.Message {
			em := fullNode("E", 2)
			gen.EmptyMaps(em)
			ext := fullNode("X", 1)
			ext.ReleaseDate = &timestamppb.Timestamp{Seconds: -62135596800} // Go's zero time: the smallest valid timestamp
			ext.BuildDate = &timestamppb.Timestamp{}                        // the epoch: present but empty message
			ext.ValidUntilDate = &timestamppb.Timestamp{Seconds: 253402300799, Nanos: 999999999}
			// every list emptied in place (length 0, the backing array still there): a copy that hands such a list over
			// as it is shares the array
			emp := fullNode("C", 3)
			emp.Licenses, emp.Attribution, emp.FileTypes, emp.PrimaryPurpose = emp.Licenses[:0], emp.Attribution[:0], emp.FileTypes[:0], emp.PrimaryPurpose[:0]
			emp.Suppliers, emp.Originators, emp.ExternalReferences = emp.Suppliers[:0], emp.Originators[:0], emp.ExternalReferences[:0]
			return map[string]proto.Message{"emptied-with-capacity": emp, "full": fullNode("A", 2), "full-empty-maps": em, "extreme-dates": ext, "sparse": &sbom.Node{Id: "n", Name: "s", Suppliers: []*sbom.Person{{Name: "sup"}}}, "empty": &sbom.Node{}, "new": sbom.NewNode(), "aliased": aliasedNode()}
		}, func(m proto.Message) proto.Message { return m.(*sbom.Node).Copy() },
			func(a, b proto.Message) (bool, bool) { return a.(*sbom.Node).Equal(b.(*sbom.Node)), true }},
		{"Edge", func() map[string]proto.Message {
			return map[string]proto.Message{"e3": &sbom.Edge{From: "a", Type: sbom.Edge_contains, To: spareS([]string{"c", "b", "d"})}, "e0": &sbom.Edge{From: "a"}, "new": sbom.NewEdge()}
		}, func(m proto.Message) proto.Message { return m.(*sbom.Edge).Copy() },
			func(a, b proto.Message) (bool, bool) { return a.(*sbom.Edge).Equal(b.(*sbom.Edge)), true }},
		{"Person", func() map[string]proto.Message {
			p := &sbom.Person{}
			gen.Full(p, "A", 2)
			sparePerson(p)
			pe := &sbom.Person{}
			gen.Full(pe, "C", 3)
			pe.Contacts = pe.Contacts[:0]
			return map[string]proto.Message{"full": p, "plain": &sbom.Person{Name: "x", Email: "e"}, "empty": &sbom.Person{}, "aliased": aliasedPerson(), "contacts-emptied-with-capacity": pe}
		}, func(m proto.Message) proto.Message { return m.(*sbom.Person).Copy() },
			func(a, b proto.Message) (bool, bool) { return false, false }},
		{"ExternalReference", func() map[string]proto.Message {
			e := &sbom.ExternalReference{}
			gen.Full(e, "A", 2)
			return map[string]proto.Message{"full": e, "empty": &sbom.ExternalReference{}, "empty-map": &sbom.ExternalReference{Url: "u", Hashes: map[int32]string{}}}
		}, func(m proto.Message) proto.Message { return m.(*sbom.ExternalReference).Copy() },
			func(a, b proto.Message) (bool, bool) { return false, false }},
		{"NodeList", func() map[string]proto.Message {
			return map[string]proto.Message{"abc": operand("abc"), "empty": &sbom.NodeList{}, "new": sbom.NewNodeList()}
		}, func(m proto.Message) proto.Message { return m.(*sbom.NodeList).Copy() },
			func(a, b proto.Message) (bool, bool) { return a.(*sbom.NodeList).Equal(b.(*sbom.NodeList)), true }},
	}
}

// operand lists for Union / Intersect / histories.
func operand(name string) *sbom.NodeList {
	n := func(id, tag string) *sbom.Node {
		x := &sbom.Node{}
		gen.Full(x, tag, 2)
		x.Id = id
		return x
	}
	e := func(f string, t sbom.Edge_Type, to ...string) *sbom.Edge { return &sbom.Edge{From: f, Type: t, To: to} }
	var nl *sbom.NodeList
	switch name {
	case "abc":
		nl = &sbom.NodeList{Nodes: []*sbom.Node{n("a", "A"), n("b", "A"), n("c", "A")}, Edges: []*sbom.Edge{e("a", sbom.Edge_contains, "c", "b"), e("b", sbom.Edge_dependsOn, "c")}, RootElements: []string{"b", "a"}}
	case "bcd":
		nl = &sbom.NodeList{Nodes: []*sbom.Node{n("b", "B"), n("c", "B"), n("d", "B")}, Edges: []*sbom.Edge{e("b", sbom.Edge_dependsOn, "d"), e("c", sbom.Edge_contains, "d", "b")}, RootElements: []string{"d", "b"}}
	case "ae":
		nl = &sbom.NodeList{Nodes: []*sbom.Node{n("a", "C"), n("e", "C")}, Edges: []*sbom.Edge{e("a", sbom.Edge_contains, "e")}, RootElements: []string{"e"}}
	case "a-aliased":
		x := aliasedNode()
		x.Id = "a"
		nl = &sbom.NodeList{Nodes: []*sbom.Node{x}, RootElements: []string{"a"}}
	case "ab-empty-maps":
		nl = &sbom.NodeList{Nodes: []*sbom.Node{n("a", "E"), n("b", "E")}, Edges: []*sbom.Edge{e("a", sbom.Edge_contains, "b")}, RootElements: []string{"a"}}
		gen.EmptyMaps(nl)
	case "a-sparse":
		nl = &sbom.NodeList{Nodes: []*sbom.Node{{Id: "a", Name: "only-name"}}, RootElements: []string{"a"}}
	case "empty":
		nl = &sbom.NodeList{}
	case "idless":
		// ill-formed operands: a node without identifier next to a regular one (and an edge from it); two node objects
		// carrying one identifier. Independence is owed for them as for any other value.
		nl = &sbom.NodeList{Nodes: []*sbom.Node{n("", "I"), n("a", "I")}, Edges: []*sbom.Edge{e("", sbom.Edge_contains, "a")}, RootElements: []string{""}}
	case "repeated-id":
		nl = &sbom.NodeList{Nodes: []*sbom.Node{n("b", "R"), n("b", "S")}, Edges: []*sbom.Edge{e("b", sbom.Edge_contains, "b")}, RootElements: []string{"b", "b"}}
	default:
		panic(name)
	}
	return spareList(nl)
}

var operandNames = []string{"abc", "bcd", "ae", "a-sparse", "a-aliased", "ab-empty-maps", "empty", "idless", "repeated-id"}

// listDeviations enumerates deviations at every field path of a node list: the
// list's own fields, every node (full recursion), every edge.
func listDeviations(nl *sbom.NodeList) []gen.Deviation {
	var out []gen.Deviation
	for _, d := range gen.Deviations(&sbom.NodeList{Nodes: nil, Edges: nil, RootElements: nl.RootElements}, 0) {
		if strings.HasPrefix(d.Label, "root_elements") {
			out = append(out, d)
		}
	}
	out = append(out,
		gen.Deviation{Label: "nodes:append", Kind: "dev", Mutate: func(r protoreflect.Message) {
			l := r.Interface().(*sbom.NodeList)
			l.Nodes = append(l.Nodes, &sbom.Node{Id: "zz"})
		}},
		gen.Deviation{Label: "edges:append", Kind: "dev", Mutate: func(r protoreflect.Message) {
			l := r.Interface().(*sbom.NodeList)
			l.Edges = append(l.Edges, &sbom.Edge{From: "zz"})
		}},
	)
	for i, n := range nl.Nodes {
		i := i
		for _, d := range gen.Deviations(n, 2) {
			d := d
			out = append(out, gen.Deviation{Label: fmt.Sprintf("nodes[%d=%s].%s", i, n.Id, d.Label), Kind: d.Kind, Mutate: func(r protoreflect.Message) {
				d.Mutate(r.Interface().(*sbom.NodeList).Nodes[i].ProtoReflect())
			}})
		}
	}
	for i, e := range nl.Edges {
		i := i
		for _, d := range gen.Deviations(e, 0) {
			d := d
			out = append(out, gen.Deviation{Label: fmt.Sprintf("edges[%d].%s", i, d.Label), Kind: d.Kind, Mutate: func(r protoreflect.Message) {
				d.Mutate(r.Interface().(*sbom.NodeList).Edges[i].ProtoReflect())
			}})
		}
	}
	return out
}

func safeMutate(d gen.Deviation, m proto.Message) (ok bool) {
	defer func() {
		if recover() != nil {
			ok = false
		}
	}()
	d.Mutate(m.ProtoReflect())
	return true
}

func Run(c *engine.Ctx) {
	// 1. copies: equal to source, independent at every field path
	for _, k := range kinds() {
		k := k
		c.Group("copy-" + k.Name)
		baseNames := []string{}
		for name := range k.Bases() {
			baseNames = append(baseNames, name)
		}
		sortStrings(baseNames)
		for _, bn := range baseNames {
			bn := bn
			c.Case(func() any { return map[string]string{"type": k.Name, "value": bn, "clause": "copy equals source"} }, func(t *engine.T) *engine.Violation {
				src := k.Bases()[bn]
				before := gen.Snap(src)
				cp := k.Copy(src)
				t.Transitions(1)
				t.Validated(1)
				if gen.Snap(src) != before {
					return engine.Violate("copy-mutates-source", k.Name, "Copy changed its source: %s", gen.SnapDiff(before, gen.Snap(src)))
				}
				if gen.Canon(cp, ordered) != gen.Canon(src, ordered) {
					return engine.Violate("copy-equal", k.Name, "copy differs in content from its source:\nsource %s\ncopy   %s", gen.Canon(src, ordered), gen.Canon(cp, ordered))
				}
				if eq, has := k.Equal(src, cp); has && !eq {
					return engine.Violate("copy-equal", k.Name, "copy does not compare equal to its source (%s)", gen.Snap(src))
				}
				if eq, has := k.Equal(cp, src); has && !eq {
					return engine.Violate("copy-equal", k.Name, "source does not compare equal to its copy")
				}
				t.State("copyeq:" + k.Name + ":" + bn)
				t.Outcome("copy-equal-ok")
				return nil
			})
			var devs []gen.Deviation
			if k.Name == "NodeList" {
				devs = listDeviations(k.Bases()[bn].(*sbom.NodeList))
			} else {
				devs = gen.Deviations(k.Bases()[bn], 3)
			}
			// the copy of every deviated value equals that value (repeated, reordered, emptied, range-corner content)
			for di := range devs {
				di := di
				c.Case(func() any {
					return map[string]any{"type": k.Name, "value": bn, "deviation": devs[di].Label, "clause": "copy of the deviated value equals it"}
				}, func(t *engine.T) *engine.Violation {
					src := k.Bases()[bn]
					if !safeMutate(devs[di], src) {
						t.Outcome("path-not-applicable")
						return nil
					}
					if n, ok := src.(*sbom.Node); ok {
						for _, ts := range []*timestamppb.Timestamp{n.ReleaseDate, n.BuildDate, n.ValidUntilDate} {
							if ts != nil && ts.CheckValid() != nil {
								t.Outcome("deviation-leaves-the-valid-timestamp-range")
								return nil // nanos beyond 999999999 or seconds beyond year 9999: not a value of the type
							}
						}
					}
					cp := k.Copy(src)
					t.Transitions(1)
					t.Validated(1)
					if gen.Canon(cp, ordered) != gen.Canon(src, ordered) {
						return engine.Violate("copy-equal", k.Name, "after %s: the copy differs in content from its source:\nsource %s\ncopy   %s", devs[di].Label, gen.Canon(src, ordered), gen.Canon(cp, ordered))
					}
					if eq, has := k.Equal(src, cp); has && !eq {
						return engine.Violate("copy-equal", k.Name, "after %s: the copy does not compare equal to its source", devs[di].Label)
					}
					t.State(fmt.Sprintf("copyeq-dev:%s:%s:%s", k.Name, bn, devs[di].Label))
					t.Outcome("copy-equal-ok")
					return nil
				})
			}
			for di := range devs {
				for side := 0; side < 2; side++ {
					di, side := di, side
					c.Case(func() any {
						return map[string]any{"type": k.Name, "value": bn, "path": devs[di].Label, "mutated": []string{"copy", "source"}[side]}
					}, func(t *engine.T) *engine.Violation {
						src := k.Bases()[bn]
						cp := k.Copy(src)
						t.Transitions(1)
						mut, other, on := cp, src, "source"
						if side == 1 {
							mut, other, on = src, cp, "copy"
						}
						before, beforeCap := gen.Snap(other), gen.SnapCap(other)
						if !safeMutate(devs[di], mut) {
							t.Outcome("path-not-applicable")
							return nil
						}
						t.Validated(1)
						if after := gen.Snap(other); after != before {
							return engine.Violate("copy-independent", k.Name, "%s.Copy(): mutating %s of the %s changed the %s: %s", k.Name, devs[di].Label, []string{"copy", "source"}[side], on, gen.SnapDiff(before, after))
						}
						if side == 0 && !strings.Contains(bn, "aliased") {
							// the copy is a value of its own: the same edit applied to a pristine clone of the source gives the same
							// content (parts of the copy that share memory with each other would be edited in two places)
							ref := proto.Clone(k.Bases()[bn])
							if safeMutate(devs[di], ref) && gen.Snap(mut) != gen.Snap(ref) {
								return engine.Violate("copy-independent", "self-aliased:"+k.Name, "%s.Copy(): editing %s of the copy changed more than that: %s", k.Name, devs[di].Label, gen.SnapDiff(gen.Snap(ref), gen.Snap(mut)))
							}
						}
						if after := gen.SnapCap(other); after != beforeCap {
							return engine.Violate("copy-independent", "beyond-length:"+k.Name, "%s.Copy(): mutating %s of the %s wrote into the %s's memory beyond a slice's length (shared backing array): %s", k.Name, devs[di].Label, []string{"copy", "source"}[side], on, gen.SnapDiff(beforeCap, after))
						}
						t.State(fmt.Sprintf("copyind:%s:%s:%s:%d", k.Name, bn, devs[di].Label, side))
						t.Outcome("copy-independent-ok")
						t.NonTrivial()
						return nil
					})
				}
			}
		}
	}

	// 2. Union / Intersect results vs both operands at every field path
	for _, opn := range []string{"Union", "Intersect"} {
		for _, an := range operandNames {
			for _, bn := range operandNames {
				opn, an, bn := opn, an, bn
				c.Group(fmt.Sprintf("%s-%s-%s", opn, an, bn))
				apply := func(a, b *sbom.NodeList) *sbom.NodeList {
					if opn == "Union" {
						return a.Union(b)
					}
					return a.Intersect(b)
				}
				// deviations in the result mutate; operands must stay. Deviations in each operand; result must stay.
				targets := []string{"result", "A", "B"}
				for ti, tn := range targets {
					ti, tn := ti, tn
					a0, b0 := operand(an), operand(bn)
					r0 := apply(a0, b0)
					var devs []gen.Deviation
					switch ti {
					case 0:
						devs = listDeviations(r0)
					case 1:
						devs = listDeviations(a0)
					case 2:
						devs = listDeviations(b0)
					}
					for di := range devs {
						di := di
						c.Case(func() any {
							return map[string]any{"op": opn, "A": an, "B": bn, "mutated": tn, "path": devs[di].Label}
						}, func(t *engine.T) *engine.Violation {
							a, b := operand(an), operand(bn)
							r := apply(a, b)
							t.Transitions(1)
							all := []*sbom.NodeList{r, a, b}
							var before, beforeCap [3]string
							for i := range all {
								before[i] = gen.Snap(all[i])
								beforeCap[i] = gen.SnapCap(all[i])
							}
							pristine := proto.Clone(all[ti])
							if !safeMutate(devs[di], all[ti]) {
								t.Outcome("path-not-applicable")
								return nil
							}
							t.Validated(1)
							if ti == 0 && !strings.Contains(an+bn, "aliased") {
								// the result is a value of its own: the same edit applied to a clone taken before gives the same content
								if safeMutate(devs[di], pristine) && gen.Snap(all[ti]) != gen.Snap(pristine) {
									return engine.Violate("result-independent", "self-aliased:"+opn, "%s(%s,%s): editing %s of the result changed more than that: %s", opn, an, bn, devs[di].Label, gen.SnapDiff(gen.Snap(pristine), gen.Snap(all[ti])))
								}
							}
							for i := range all {
								if i == ti {
									continue
								}
								// operands may legitimately be the same object only when an == bn is not the case here (fresh builds)
								if (ti == 0) == (i == 0) {
									continue // operand vs operand is not this property's subject
								}
								if after := gen.Snap(all[i]); after != before[i] {
									return engine.Violate("result-independent", opn, "%s(%s,%s): mutating %s of %s changed %s: %s", opn, an, bn, devs[di].Label, tn, targets[i], gen.SnapDiff(before[i], after))
								}
								if after := gen.SnapCap(all[i]); after != beforeCap[i] {
									return engine.Violate("result-independent", "beyond-length:"+opn, "%s(%s,%s): mutating %s of %s wrote into the memory of %s beyond a slice's length (shared backing array): %s", opn, an, bn, devs[di].Label, tn, targets[i], gen.SnapDiff(beforeCap[i], after))
								}
							}
							t.State(fmt.Sprintf("%s:%s:%s:%s:%s", opn, an, bn, tn, devs[di].Label))
							t.Outcome(opn + "-independent-ok")
							t.NonTrivial()
							return nil
						})
					}
				}
			}
		}
	}

	// 2b. size classes: copies, unions and intersections of lists with 40, 515, 1027 and 2000 nodes; edits at the
	// first, a middle and the last two nodes of one side must not show on the other (chunking and threshold code)
	wide(c)
	deep(c)
	sameOperand(c)

	// 3. histories of calls sharing operands: earlier results never change
	histories(c)
}

// deep: persons whose contacts nest 1..130 levels (depths around every power of two). A copy - of the person, of a node
// that has it as supplier or originator, of the list, a union, an intersection - equals its source at every level and
// shares no person with it at any level.
func deep(c *engine.Ctx) {
	c.Group("deep-nesting")
	depths := gen.DepthLadder(130)
	c.Bound("deep-nesting", fmt.Sprintf("contact chains of depth %v x {Person.Copy, Node.Copy (chain as supplier / originator), NodeList.Copy, Union as either operand, Intersect} x an edit at every level of the result or of the source", depths))
	type view struct {
		Name string
		// Do returns the chain inside the result and the chain inside the source
		Do func(depth int) (res, src *sbom.Person, resMsg, srcMsg proto.Message)
	}
	node := func(depth int, tag string) *sbom.Node {
		return &sbom.Node{Id: "a", Name: "n" + tag, Suppliers: []*sbom.Person{gen.ContactChain(depth)}, Originators: []*sbom.Person{{Name: "plain"}, gen.ContactChain(depth)}}
	}
	list := func(depth int, tag string) *sbom.NodeList {
		return &sbom.NodeList{Nodes: []*sbom.Node{node(depth, tag), {Id: "b", Name: "other"}}, Edges: []*sbom.Edge{{From: "a", Type: sbom.Edge_contains, To: []string{"b"}}}, RootElements: []string{"a"}}
	}
	views := []view{
		{"Person.Copy", func(d int) (*sbom.Person, *sbom.Person, proto.Message, proto.Message) {
			s := gen.ContactChain(d)
			r := s.Copy()
			return r, s, r, s
		}},
		{"Node.Copy/supplier", func(d int) (*sbom.Person, *sbom.Person, proto.Message, proto.Message) {
			s := node(d, "A")
			r := s.Copy()
			return r.Suppliers[0], s.Suppliers[0], r, s
		}},
		{"Node.Copy/originator", func(d int) (*sbom.Person, *sbom.Person, proto.Message, proto.Message) {
			s := node(d, "A")
			r := s.Copy()
			return r.Originators[1], s.Originators[1], r, s
		}},
		{"NodeList.Copy", func(d int) (*sbom.Person, *sbom.Person, proto.Message, proto.Message) {
			s := list(d, "A")
			r := s.Copy()
			return r.GetNodeByID("a").Suppliers[0], s.Nodes[0].Suppliers[0], r, s
		}},
		{"Union/second-operand", func(d int) (*sbom.Person, *sbom.Person, proto.Message, proto.Message) {
			a, b := list(1, "A"), list(d, "B")
			r := a.Union(b)
			return r.GetNodeByID("a").Suppliers[0], b.Nodes[0].Suppliers[0], r, b
		}},
		{"Union/first-operand", func(d int) (*sbom.Person, *sbom.Person, proto.Message, proto.Message) {
			a := list(d, "A")
			b := &sbom.NodeList{Nodes: []*sbom.Node{{Id: "a", Name: "nB"}}}
			r := a.Union(b)
			return r.GetNodeByID("a").Suppliers[0], a.Nodes[0].Suppliers[0], r, a
		}},
		{"Intersect/second-operand", func(d int) (*sbom.Person, *sbom.Person, proto.Message, proto.Message) {
			a, b := list(1, "A"), list(d, "B")
			r := a.Intersect(b)
			return r.GetNodeByID("a").Suppliers[0], b.Nodes[0].Suppliers[0], r, b
		}},
	}
	for _, d := range depths {
		for vi := range views {
			for side := 0; side < 2; side++ {
				d, vi, side := d, vi, side
				c.Case(func() any {
					return map[string]any{"depth": d, "operation": views[vi].Name, "edited": []string{"result", "source"}[side]}
				}, func(t *engine.T) *engine.Violation {
					for level := 0; level <= d; level++ {
						res, src, resMsg, srcMsg := views[vi].Do(d)
						t.Transitions(1)
						if level == 0 {
							if gen.Canon(res, ordered) != gen.Canon(src, ordered) {
								return engine.Violate("copy-equal", "deep:"+views[vi].Name, "%s with a contact chain of depth %d: the chain in the result differs in content from the source's", views[vi].Name, d)
							}
						}
						mut, otherMsg := res, srcMsg
						if side == 1 {
							mut, otherMsg = src, resMsg
						}
						p := gen.PersonAt(mut, level)
						if p == nil {
							return engine.Violate("copy-equal", "deep:"+views[vi].Name, "%s with a contact chain of depth %d: no person at level %d of the %s", views[vi].Name, d, level, []string{"result", "source"}[side])
						}
						before := gen.Snap(otherMsg)
						p.Name += "-edited"
						p.Contacts = append(p.Contacts, &sbom.Person{Name: "added"})
						t.Validated(1)
						if after := gen.Snap(otherMsg); after != before {
							return engine.Violate("copy-independent", "deep:"+views[vi].Name, "%s with a contact chain of depth %d: editing the person at level %d of the %s changed the %s: %s", views[vi].Name, d, level, []string{"result", "source"}[side], []string{"source", "result"}[side], gen.SnapDiff(before, after))
						}
					}
					t.State(fmt.Sprint("deep", d, vi, side))
					t.Outcome("deep-independent-ok")
					return nil
				})
			}
		}
	}
}

// sameOperand: the receiver is also the argument (a.Union(a), a.Intersect(a)) - the result is still a value of its own.
func sameOperand(c *engine.Ctx) {
	c.Group("same-operand")
	ops := []struct {
		Name string
		Do   func(a *sbom.NodeList) *sbom.NodeList
	}{
		{"Union", func(a *sbom.NodeList) *sbom.NodeList { return a.Union(a) }},
		{"Intersect", func(a *sbom.NodeList) *sbom.NodeList { return a.Intersect(a) }},
	}
	n := 0
	for _, an := range operandNames {
		devs := listDeviations(operand(an))
		n += len(devs)
		for oi := range ops {
			for di := range devs {
				for side := 0; side < 2; side++ {
					an, oi, di, side := an, oi, di, side
					c.Case(func() any {
						return map[string]any{"op": ops[oi].Name + "(a,a)", "a": an, "path": devs[di].Label, "mutated": []string{"result", "operand"}[side]}
					}, func(t *engine.T) *engine.Violation {
						a := operand(an)
						r := ops[oi].Do(a)
						r2 := ops[oi].Do(a) // a second result of the same call: another value again
						t.Transitions(2)
						if r == nil {
							return engine.Violate("result-independent", "same-operand", "%s(a,a) returned nil", ops[oi].Name)
						}
						mut, others := proto.Message(r), []proto.Message{a, r2}
						if side == 1 {
							mut, others = a, []proto.Message{r, r2}
						}
						var before []string
						for _, o := range others {
							before = append(before, gen.Snap(o))
						}
						if !safeMutate(devs[di], mut) {
							t.Outcome("path-not-applicable")
							return nil
						}
						t.Validated(1)
						for i, o := range others {
							if after := gen.Snap(o); after != before[i] {
								return engine.Violate("result-independent", "same-operand:"+ops[oi].Name, "%s(a,a): mutating %s of the %s changed %s: %s", ops[oi].Name, devs[di].Label, []string{"result", "operand"}[side], [][]string{{"the operand", "a second result of the same call"}, {"the result", "a second result of the same call"}}[side][i], gen.SnapDiff(before[i], after))
							}
						}
						t.State(fmt.Sprint("same", an, oi, devs[di].Label, side))
						t.Outcome("same-operand-ok")
						return nil
					})
				}
			}
		}
	}
	c.Bound("same-operand", fmt.Sprintf("a.Union(a) and a.Intersect(a) for %d operand lists x %d field paths x {result, operand} mutated; the operand, the result and a second result of the same call share nothing", len(operandNames), n))
}

func wide(c *engine.Ctx) {
	c.Group("wide-independence")
	sizes := []int{40, 515, 1027, 2000}
	c.Bound("wide-independence", fmt.Sprintf("lists of %v nodes x {Copy, Union as left / right operand, Intersect} x edits (name, appended licence, new hash key, supplier name) at nodes 0, n/2, n-2, n-1 of the result or of an operand x GOMAXPROCS {2, 3, 16}", sizes))
	mk := func(n int, tag string) *sbom.NodeList {
		nl := &sbom.NodeList{}
		for i := 0; i < n; i++ {
			id := fmt.Sprintf("w%04d", i)
			nl.Nodes = append(nl.Nodes, &sbom.Node{Id: id, Name: tag + id, Licenses: []string{"L1"}, Hashes: map[int32]string{1: "h" + id}, Suppliers: []*sbom.Person{{Name: "s" + id}}})
			if i > 0 {
				nl.Edges = append(nl.Edges, &sbom.Edge{From: "w0000", Type: sbom.Edge_contains, To: []string{id}})
			}
		}
		nl.RootElements = []string{"w0000"}
		return nl
	}
	edit := func(n *sbom.Node) {
		n.Name += "-edited"
		n.Licenses = append(n.Licenses, "L-new")
		n.Licenses[0] = "L-changed"
		n.Hashes[9] = "new"
		n.Suppliers[0].Name = "edited"
	}
	ops := []struct {
		Name string
		Do   func(a, b *sbom.NodeList) *sbom.NodeList
	}{
		{"Copy", func(a, _ *sbom.NodeList) *sbom.NodeList { return a.Copy() }},
		{"Union", func(a, b *sbom.NodeList) *sbom.NodeList { return a.Union(b) }},
		{"Intersect", func(a, b *sbom.NodeList) *sbom.NodeList { return a.Intersect(b) }},
	}
	for _, n := range sizes {
		for oi := range ops {
			for sp := 0; sp < 9; sp++ { // edit the result / operand A / operand B  x  number of processors 2 / 3 / 16 (an environment answer)
				n, oi, side, procs := n, oi, sp%3, []int{2, 3, 16}[sp/3]
				c.Case(func() any {
					return map[string]any{"nodes": n, "op": ops[oi].Name, "edited": []string{"result", "A", "B"}[side], "GOMAXPROCS": procs}
				}, func(t *engine.T) *engine.Violation {
					defer runtime.GOMAXPROCS(runtime.GOMAXPROCS(procs))
					a, b := mk(n, "A"), mk(n, "B")
					r := ops[oi].Do(a, b)
					t.Transitions(1)
					t.Validated(1)
					all := []*sbom.NodeList{r, a, b}
					if len(r.Nodes) != n {
						return engine.Violate("copy-equal", "wide", "%s of %d-node lists has %d nodes", ops[oi].Name, n, len(r.Nodes))
					}
					var before [3]string
					for i := range all {
						before[i] = gen.Snap(all[i])
					}
					for _, idx := range []int{0, n / 2, n - 2, n - 1} {
						edit(all[side].Nodes[idx])
					}
					for i := range all {
						if i == side || (side > 0 && i > 0) {
							continue
						}
						if after := gen.Snap(all[i]); after != before[i] {
							return engine.Violate("result-independent", "wide:"+ops[oi].Name, "%s on %d-node lists: editing nodes of %s changed %s: %s", ops[oi].Name, n, []string{"the result", "operand A", "operand B"}[side], []string{"the result", "operand A", "operand B"}[i], gen.SnapDiff(before[i], after))
						}
					}
					t.State(fmt.Sprint("wide", n, oi, side, procs))
					t.Outcome("wide-independent-ok")
					return nil
				})
			}
		}
	}
}

func sortStrings(s []string) {
	for i := range s {
		for j := i + 1; j < len(s); j++ {
			if s[j] < s[i] {
				s[i], s[j] = s[j], s[i]
			}
		}
	}
}

type call struct {
	Op   string // Union | Intersect | Copy | Equal
	A, B int    // operand indices (B unused for Copy)
}

func (k call) String(names []string) string {
	if k.Op == "Copy" {
		return "Copy(" + names[k.A] + ")"
	}
	return fmt.Sprintf("%s(%s,%s)", k.Op, names[k.A], names[k.B])
}

func histories(c *engine.Ctx) {
	c.Group("histories")
	names := []string{"abc", "bcd", "ae", "a-sparse"}
	var calls []call
	for a := range names {
		calls = append(calls, call{"Copy", a, 0})
		for b := range names {
			calls = append(calls, call{"Union", a, b}, call{"Intersect", a, b})
		}
	}
	depth := 2
	if c.Thorough() {
		depth = 3
	}
	c.Bound("histories", fmt.Sprintf("all sequences of %d calls over %d calls ({Copy, Union, Intersect} x %d operand lists built with spare capacity); snapshots of operands and of every earlier result re-taken after every later call", depth, len(calls), len(names)))
	var rec func(seq []call)
	rec = func(seq []call) {
		if len(seq) == depth {
			s := append([]call{}, seq...)
			c.Case(func() any {
				var d []string
				for _, k := range s {
					d = append(d, k.String(names))
				}
				return d
			}, func(t *engine.T) *engine.Violation {
				ops := make([]*sbom.NodeList, len(names))
				for i, n := range names {
					ops[i] = operand(n)
				}
				opSnap := make([]string, len(ops))
				for i := range ops {
					opSnap[i] = gen.Snap(ops[i])
				}
				var results []*sbom.NodeList
				var snaps []string
				for step, k := range s {
					var r *sbom.NodeList
					switch k.Op {
					case "Copy":
						r = ops[k.A].Copy()
					case "Union":
						r = ops[k.A].Union(ops[k.B])
					case "Intersect":
						r = ops[k.A].Intersect(ops[k.B])
					}
					t.Transitions(1)
					for i := range results {
						t.Validated(1)
						if after := gen.Snap(results[i]); after != snaps[i] {
							return engine.Violate("history-result-altered", k.Op, "result of step %d (%s) was altered by step %d (%s): %s", i, s[i].String(names), step, k.String(names), gen.SnapDiff(snaps[i], after))
						}
					}
					for i := range ops {
						if after := gen.Snap(ops[i]); after != opSnap[i] {
							// operand mutation is C11's clause; stop following this history
							t.Outcome("operand-mutated(C11)")
							return nil
						}
					}
					results = append(results, r)
					snaps = append(snaps, gen.Snap(r))
				}
				var d []string
				for _, k := range s {
					d = append(d, k.String(names))
				}
				t.State("hist:" + strings.Join(d, ";"))
				t.Outcome("history-ok")
				return nil
			})
			return
		}
		for _, k := range calls {
			// histories must share an operand with an earlier call
			if len(seq) > 0 {
				shares := false
				for _, p := range seq {
					if p.A == k.A || (p.Op != "Copy" && p.B == k.A) || (k.Op != "Copy" && (p.A == k.B || (p.Op != "Copy" && p.B == k.B))) {
						shares = true
					}
				}
				if !shares {
					continue
				}
			}
			rec(append(seq, k))
		}
	}
	rec(nil)
}
