// Package c16: lookups and node matching return exactly the documented matches.
package c16

import (
	"errors"
	"fmt"
	"sort"
	"strings"
	"time"

	"github.com/protobom/protobom/pkg/sbom"

	"mcverif/engine"
	"mcverif/gen"
)

var Spec = engine.Spec{
	ID: "C16", Run: Run, QuickBud: 4 * time.Minute, ThorBud: 25 * time.Minute,
	Technique: "explicit enumeration of all small node lists x probe nodes over a hash/purl/kind alphabet, every permutation of the list, real lookups against filter references and GetMatchingNode against the documented rule",
	Rule:      "case = (ordered list of node variants, probe variant); a node variant = hash map over 2 algorithms x {absent,'',h1,h2}, purl in {absent,p1,p2}, kind; all list permutations are run inside the case; distinct state = canonical list + probe",
	Assume: []string{
		"where a probe or candidate carries an empty-valued hash entry the documented rule is ambiguous; only membership, uniqueness-or-error and order independence are asserted there",
		"node ids are unique (repeated identifiers are read as repeated purls/CPEs)",
		"map iteration order inside GetMatchingNode is randomised by the Go runtime and not enumerated; each matching call is issued for every list permutation (which changes insertion order)",
	},
}

const (
	p1 = "pkg:apk/wolfi/bash@4.0.1"
	p2 = "pkg:deb/debian/zlib@1.2"
	h1 = "aaaa"
	h2 = "bbbb"
)

var algos = []int32{int32(sbom.HashAlgorithm_SHA1), int32(sbom.HashAlgorithm_SHA256)}

// variant describes a node of the alphabet.
type variant struct {
	H    [2]int // per algorithm: 0 absent, 1 "", 2 h1, 3 h2, 4 h1 in upper case
	Purl int    // 0 absent, 1 p1, 2 p2
	File bool
}

func (v variant) String() string {
	hv := []string{"-", "''", "h1", "h2", "H1"}
	k := "pkg"
	if v.File {
		k = "file"
	}
	return fmt.Sprintf("%s[sha1=%s sha256=%s purl=%d]", k, hv[v.H[0]], hv[v.H[1]], v.Purl)
}

func (v variant) hasEmpty() bool { return v.H[0] == 1 || v.H[1] == 1 }

func (v variant) build(id string) *sbom.Node {
	n := &sbom.Node{Id: id, Name: "name-" + fmt.Sprint(v.Purl)}
	if v.File {
		n.Type = sbom.Node_FILE
	}
	for i, a := range algos {
		vals := []string{"", "", h1, h2, strings.ToUpper(h1)}
		if v.H[i] != 0 {
			if n.Hashes == nil {
				n.Hashes = map[int32]string{}
			}
			n.Hashes[a] = vals[v.H[i]]
		}
	}
	if v.Purl != 0 {
		n.Identifiers = map[int32]string{int32(sbom.SoftwareIdentifierType_PURL): []string{"", p1, p2}[v.Purl]}
		if v.Purl == 1 {
			n.Identifiers[int32(sbom.SoftwareIdentifierType_CPE23)] = "cpe:2.3:a:x:y:1:*:*:*:*:*:*:*"
		}
	}
	return n
}

func variants(hvals []int, purls []int, kinds []bool) []variant {
	var out []variant
	for _, a := range hvals {
		for _, b := range hvals {
			for _, p := range purls {
				for _, k := range kinds {
					out = append(out, variant{H: [2]int{a, b}, Purl: p, File: k})
				}
			}
		}
	}
	return out
}

// reference for the documented matching rule -------------------------------

type refOut struct {
	id  string // "" = nil
	err bool
}

func refMatch(list []*sbom.Node, probe *sbom.Node) refOut {
	var H []*sbom.Node
	if len(probe.Hashes) > 0 {
		for _, n := range list {
			if n.HashesMatch(probe.Hashes) {
				H = append(H, n)
			}
		}
	}
	pp := probe.Purl()
	switch {
	case len(H) == 1:
		return refOut{id: H[0].Id}
	case len(H) == 0:
		if pp == "" {
			return refOut{}
		}
		var P []*sbom.Node
		for _, n := range list {
			if n.Purl() == pp {
				P = append(P, n)
			}
		}
		if len(P) == 1 {
			return refOut{id: P[0].Id}
		}
		if len(P) == 0 {
			return refOut{}
		}
		return refOut{err: true}
	default:
		if pp == "" {
			return refOut{err: true}
		}
		var Q []*sbom.Node
		for _, n := range H {
			if n.Purl() == pp {
				Q = append(Q, n)
			}
		}
		if len(Q) == 1 {
			return refOut{id: Q[0].Id}
		}
		return refOut{err: true}
	}
}

type caseDesc struct {
	List  []string `json:"list"`
	Probe string   `json:"probe"`
}

func ids(ns []*sbom.Node) string {
	s := []string{}
	for _, n := range ns {
		s = append(s, n.Id)
	}
	sort.Strings(s)
	return strings.Join(s, ",")
}

func Run(c *engine.Ctx) {
	idNames := []string{"n0", "n1", "n2", "n3"}

	matchGroup := func(group string, vs []variant, probes []variant, n int) {
		c.Group(group)
		c.Bound(group, fmt.Sprintf("lists of exactly %d nodes over %d node variants x %d probe variants x all %d! permutations", n, len(vs), len(probes), n))
		idx := make([]int, n)
		var rec func(k int)
		rec = func(k int) {
			if c.Expired() {
				return
			}
			if k == n {
				cur := make([]variant, n)
				for i, j := range idx {
					cur[i] = vs[j]
				}
				for _, pv := range probes {
					pv := pv
					c.Case(func() any {
						d := caseDesc{Probe: pv.String()}
						for _, v := range cur {
							d.List = append(d.List, v.String())
						}
						return d
					}, func(t *engine.T) *engine.Violation { return matchCase(t, cur, pv, idNames) })
				}
				return
			}
			for j := range vs {
				idx[k] = j
				rec(k + 1)
			}
		}
		rec(0)
	}

	full := variants([]int{0, 1, 2, 3, 4}, []int{0, 1, 2}, []bool{false, true})
	noEmpty := variants([]int{0, 2, 3, 4}, []int{0, 1, 2}, []bool{false, true})
	small := variants([]int{0, 2, 3, 4}, []int{0, 1}, []bool{false})
	smallK := variants([]int{0, 2, 3}, []int{0, 1}, []bool{false, true})
	if !c.Thorough() {
		matchGroup("match-n1-full", full, full, 1)
		matchGroup("match-n2-full", full, full, 2)
		matchGroup("match-n3-small", small, small, 3)
	} else {
		matchGroup("match-n1-full", full, full, 1)
		matchGroup("match-n2-full", full, full, 2)
		matchGroup("match-n3-noempty", noEmpty, noEmpty, 3)
		matchGroup("match-n4-small", small, smallK, 4)
	}

	lookups(c, idNames)
}

func matchCase(t *engine.T, cur []variant, pv variant, idNames []string) *engine.Violation {
	n := len(cur)
	ambiguous := pv.hasEmpty()
	for _, v := range cur {
		ambiguous = ambiguous || v.hasEmpty()
	}
	base := ""
	var viol *engine.Violation
	gen.Permutations(n, func(p []int) {
		if viol != nil {
			return
		}
		nl := &sbom.NodeList{}
		for _, i := range p {
			nl.Nodes = append(nl.Nodes, cur[i].build(idNames[i]))
		}
		probe := pv.build("probe")
		got, err := nl.GetMatchingNode(probe)
		t.Transitions(1)
		obs := "nil"
		if err != nil {
			if !errors.Is(err, sbom.ErrorMoreThanOneMatch) {
				viol = engine.Violate("match-error-kind", "", "unexpected error %v", err)
				return
			}
			if got != nil {
				viol = engine.Violate("match-both", "", "returned a node and an error")
				return
			}
			obs = "ambiguous"
		} else if got != nil {
			member := false
			for _, x := range nl.Nodes {
				if x == got {
					member = true
				}
			}
			if !member {
				viol = engine.Violate("match-membership", "", "returned node %q is not an element of the list", got.Id)
				return
			}
			obs = got.Id
		}
		if !ambiguous {
			want := refMatch(nl.Nodes, probe)
			t.Validated(1)
			w := "nil"
			if want.err {
				w = "ambiguous"
			} else if want.id != "" {
				w = want.id
			}
			if w != obs {
				viol = engine.Violate("match-rule", "", "perm %v: GetMatchingNode gives %s, documented rule gives %s", p, obs, w)
				return
			}
		}
		if base == "" {
			base = obs
		} else if base != obs {
			viol = engine.Violate("match-order-dependence", "", "perm %v gives %s, identity order gives %s", p, obs, base)
		}
	})
	if viol != nil {
		return viol
	}
	var sb strings.Builder
	vs := []string{}
	for _, v := range cur {
		vs = append(vs, v.String())
	}
	sort.Strings(vs)
	sb.WriteString(strings.Join(vs, ";") + "?" + pv.String())
	t.State(sb.String())
	cls := base
	if strings.HasPrefix(base, "n") && base != "nil" {
		cls = "match"
	}
	if ambiguous {
		cls += "/emptyhash"
	}
	t.Outcome(cls)
	return nil
}

// purl values of the lookup alphabet: two well-formed ones and near misses of "pkg:<type>/" (no scheme, type as a
// prefix of a longer type, upper-case scheme, the legacy "pkg:/type/" spelling, type only).
var lookupPurls = []string{"", p1, p2, "apk/wolfi/x@1", "/apk/wolfi/x@1", "pkg:apkx/wolfi/x@1", "PKG:apk/wolfi/x@1", "pkg:/apk/wolfi/x@1", "pkg:apk", "xpkg:apk/w/x@1", "pkg:deb"}

// lookups: plain lookups against a filter over the list.
func lookups(c *engine.Ctx, idNames []string) {
	c.Group("lookups")
	names := []string{"", "x", "y"}
	type nodeV struct {
		Name  int
		Purl  int // 0 none 1 p1 2 p2
		Cpe   int // 0 none, 1 cpe22 v, 2 cpe23 v, 3 both
		Git   bool
		File  bool
		IdMap int // 0: nil map, 1: map
	}
	var nvs []nodeV
	for nm := 0; nm < 3; nm++ {
		for pu := 0; pu < len(lookupPurls); pu++ {
			for cp := 0; cp < 4; cp++ {
				if pu >= 3 && (cp != 0 || nm != 1) {
					continue // the near-miss purls vary alone
				}
				for _, f := range []bool{false, true} {
					nvs = append(nvs, nodeV{Name: nm, Purl: pu, Cpe: cp, File: f, Git: cp == 3})
				}
			}
		}
	}
	build := func(v nodeV, id string) *sbom.Node {
		n := &sbom.Node{Id: id, Name: names[v.Name]}
		if v.File {
			n.Type = sbom.Node_FILE
		}
		if v.Purl != 0 || v.Cpe != 0 || v.Git {
			n.Identifiers = map[int32]string{}
		}
		if v.Purl != 0 {
			n.Identifiers[int32(sbom.SoftwareIdentifierType_PURL)] = lookupPurls[v.Purl]
		}
		if v.Cpe&1 != 0 {
			n.Identifiers[int32(sbom.SoftwareIdentifierType_CPE22)] = "V"
		}
		if v.Cpe&2 != 0 {
			n.Identifiers[int32(sbom.SoftwareIdentifierType_CPE23)] = "V"
		}
		if v.Git {
			n.Identifiers[int32(sbom.SoftwareIdentifierType_GITOID)] = "V"
		}
		return n
	}
	spell := map[string]sbom.SoftwareIdentifierType{
		"purl": sbom.SoftwareIdentifierType_PURL, "cpe22": sbom.SoftwareIdentifierType_CPE22, "cpe23": sbom.SoftwareIdentifierType_CPE23,
		"cpe2.2": sbom.SoftwareIdentifierType_CPE22, "cpe2.3": sbom.SoftwareIdentifierType_CPE23, "gitoid": sbom.SoftwareIdentifierType_GITOID,
		"cpe22Type": sbom.SoftwareIdentifierType_CPE22, "cpe23Type": sbom.SoftwareIdentifierType_CPE23,
		"no-such-type": sbom.SoftwareIdentifierType_UNKNOWN_IDENTIFIER_TYPE,
	}
	spellKeys := []string{}
	for k := range spell {
		spellKeys = append(spellKeys, k)
	}
	sort.Strings(spellKeys)
	n := 2
	if c.Thorough() {
		n = 3
	}
	c.Bound("lookups", fmt.Sprintf("lists of 0..%d nodes over %d node variants, every root subset (+ a dangling root), all permutations; lookups by every id, name, identifier spelling x value, purl type", n, len(nvs)))
	var rec func(cur []nodeV)
	rec = func(cur []nodeV) {
		if c.Expired() {
			return
		}
		curCopy := append([]nodeV{}, cur...)
		c.Case(func() any { return fmt.Sprintf("%+v", curCopy) }, func(t *engine.T) *engine.Violation {
			var viol *engine.Violation
			gen.Permutations(len(curCopy), func(p []int) {
				if viol != nil {
					return
				}
				nl := &sbom.NodeList{}
				allIDs := []string{}
				for _, i := range p {
					nl.Nodes = append(nl.Nodes, build(curCopy[i], idNames[i]))
					allIDs = append(allIDs, idNames[i])
				}
				sort.Strings(allIDs)
				// by id
				for _, id := range append(append([]string{}, allIDs...), "zz", "") {
					got := nl.GetNodeByID(id)
					var want *sbom.Node
					for _, x := range nl.Nodes {
						if x.Id == id {
							want = x
							break
						}
					}
					t.Transitions(1)
					t.Validated(1)
					if got != want {
						viol = engine.Violate("lookup-id", "", "GetNodeByID(%q) wrong", id)
						return
					}
				}
				// by name
				for _, nm := range append(append([]string{}, names...), "nope") {
					got := nl.GetNodesByName(nm)
					var want []*sbom.Node
					for _, x := range nl.Nodes {
						if x.Name == nm {
							want = append(want, x)
						}
					}
					t.Transitions(1)
					t.Validated(1)
					if ids(got) != ids(want) || !members(nl, got) {
						viol = engine.Violate("lookup-name", "", "GetNodesByName(%q) = {%s}, want {%s}", nm, ids(got), ids(want))
						return
					}
				}
				// by identifier
				for _, sp := range spellKeys {
					for _, val := range []string{p1, p2, "V", "", "other"} {
						got := nl.GetNodesByIdentifier(sp, val)
						var want []*sbom.Node
						for _, x := range nl.Nodes {
							if x.Identifiers == nil {
								continue
							}
							if v, ok := x.Identifiers[int32(spell[sp])]; ok && v == val {
								want = append(want, x)
							}
						}
						t.Transitions(1)
						t.Validated(1)
						if ids(got) != ids(want) || !members(nl, got) {
							viol = engine.Violate("lookup-identifier", "", "GetNodesByIdentifier(%q,%q) = {%s}, want {%s}", sp, val, ids(got), ids(want))
							return
						}
					}
				}
				// roots
				for _, roots := range gen.Subsets(append(append([]string{}, allIDs...), "dangling")) {
					nl.RootElements = roots
					got := nl.GetRootNodes()
					rs := map[string]bool{}
					for _, r := range roots {
						rs[r] = true
					}
					var want []*sbom.Node
					for _, x := range nl.Nodes {
						if rs[x.Id] {
							want = append(want, x)
						}
					}
					t.Transitions(1)
					t.Validated(1)
					if ids(got) != ids(want) || !members(nl, got) {
						viol = engine.Violate("lookup-roots", "", "GetRootNodes with roots %v = {%s}, want {%s}", roots, ids(got), ids(want))
						return
					}
					doc := &sbom.Document{NodeList: nl}
					if ids(doc.GetRootNodes()) != ids(want) {
						viol = engine.Violate("lookup-roots", "document", "Document.GetRootNodes differs")
						return
					}
				}
				nl.RootElements = nil
				// purl type
				for _, pt := range []string{"apk", "deb", "ap", "npm", ""} {
					got := nl.GetNodesByPurlType(pt)
					var want []*sbom.Node
					for _, x := range nl.Nodes {
						pu := string(x.Purl())
						if pt != "" && (strings.HasPrefix(pu, "pkg:"+pt+"/") || strings.HasPrefix(pu, "pkg:/"+pt+"/")) {
							want = append(want, x)
						}
					}
					t.Transitions(1)
					t.Validated(1)
					var gotN []*sbom.Node
					if got != nil {
						gotN = got.Nodes
					}
					if pt == "" {
						// the empty type is not a purl type; only membership is asserted
						if !members(nl, gotN) {
							viol = engine.Violate("lookup-purltype", "membership", "GetNodesByPurlType(\"\") returned foreign nodes")
						}
						continue
					}
					if ids(gotN) != ids(want) || !members(nl, gotN) {
						viol = engine.Violate("lookup-purltype", "", "GetNodesByPurlType(%q) = {%s}, want {%s}", pt, ids(gotN), ids(want))
						return
					}
				}
			})
			if viol != nil {
				return viol
			}
			t.State(fmt.Sprintf("lookup:%+v", curCopy))
			t.Outcome(fmt.Sprintf("lookups-ok-n%d", len(curCopy)))
			return nil
		})
		if len(cur) == n {
			return
		}
		for _, v := range nvs {
			rec(append(cur, v))
		}
	}
	rec(nil)
}

func members(nl *sbom.NodeList, got []*sbom.Node) bool {
	for _, g := range got {
		ok := false
		for _, x := range nl.Nodes {
			if x == g {
				ok = true
			}
		}
		if !ok {
			return false
		}
	}
	return true
}
