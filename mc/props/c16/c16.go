// Package c16: lookups and node matching return exactly the documented matches.
package c16

import (
	"errors"
	"fmt"
	"sort"
	"strconv"
	"strings"
	"time"

	"github.com/protobom/protobom/pkg/sbom"

	"google.golang.org/protobuf/proto"

	"mcverif/engine"
	"mcverif/gen"
)

var Spec = engine.Spec{
	ID: "C16", Run: Run, MapOrders: true, QuickBud: 4 * time.Minute, ThorBud: 45 * time.Minute,
	Technique: "explicit enumeration of all small node lists x probe nodes over a hash/purl/kind alphabet, every permutation of the list, real lookups against filter references and GetMatchingNode against the documented rule",
	Rule:      "case = (ordered list of node variants, probe variant); a node variant = hash map over 2 algorithms x {absent,'',h1,h2}, purl in {absent,p1,p2}, kind; all list permutations are run inside the case; distinct state = canonical list + probe",
	Assume: []string{
		"where a probe or candidate carries an empty-valued hash entry the documented rule is ambiguous; only membership, uniqueness-or-error and order independence are asserted there",
		"node ids are unique (repeated identifiers are read as repeated purls/CPEs)",
		"map iteration order inside GetMatchingNode is randomised by the Go runtime and not enumerated; each matching call is issued for every list permutation (which changes insertion order)",
	},
}

const (
	p1 = "pkg:apk/wolfi/bash@4.0.1"
	p2 = "pkg:deb/debian/zlib@1.2"
	h1 = "aaaa"
	h2 = "bbbb"
)

// purlTable: index 0 absent; 1,2 the two plain purls; 3.. purls with qualifiers and/or a subpath that denote
// different packages although they share a prefix (same up to '?', same up to '#').
var purlTable = []string{"", p1, p2,
	"pkg:golang/example.com/mod@v1.0.0?type=module",
	"pkg:golang/example.com/mod@v1.0.0?type=module#cmd/a",
	"pkg:golang/example.com/mod@v1.0.0?type=module#cmd/b",
	"pkg:golang/example.com/mod@v1.0.0#cmd/a",
	"pkg:golang/example.com/mod@v1.0.0?type=other#cmd/a",
	"pkg:golang/example.com/mod@v1.0.0",
}

var algos = []int32{int32(sbom.HashAlgorithm_SHA1), int32(sbom.HashAlgorithm_SHA256)}

// variant describes a node of the alphabet.
type variant struct {
	H    [2]int // per algorithm: 0 absent, 1 "", 2 h1, 3 h2, 4 h1 in upper case
	Purl int    // 0 absent, 1 p1, 2 p2
	File bool
}

func (v variant) String() string {
	hv := []string{"-", "''", "h1", "h2", "H1"}
	k := "pkg"
	if v.File {
		k = "file"
	}
	return fmt.Sprintf("%s[sha1=%s sha256=%s purl=%d]", k, hv[v.H[0]], hv[v.H[1]], v.Purl)
}

func (v variant) hasEmpty() bool { return v.H[0] == 1 || v.H[1] == 1 }

func (v variant) build(id string) *sbom.Node {
	n := &sbom.Node{Id: id, Name: "name-" + fmt.Sprint(v.Purl)}
	if v.File {
		n.Type = sbom.Node_FILE
	}
	for i, a := range algos {
		vals := []string{"", "", h1, h2, strings.ToUpper(h1)}
		if v.H[i] != 0 {
			if n.Hashes == nil {
				n.Hashes = map[int32]string{}
			}
			n.Hashes[a] = vals[v.H[i]]
		}
	}
	if v.Purl != 0 {
		n.Identifiers = map[int32]string{int32(sbom.SoftwareIdentifierType_PURL): purlTable[v.Purl]}
		if v.Purl == 1 {
			n.Identifiers[int32(sbom.SoftwareIdentifierType_CPE23)] = "cpe:2.3:a:x:y:1:*:*:*:*:*:*:*"
		}
	}
	return n
}

func variants(hvals []int, purls []int, kinds []bool) []variant {
	var out []variant
	for _, a := range hvals {
		for _, b := range hvals {
			for _, p := range purls {
				for _, k := range kinds {
					out = append(out, variant{H: [2]int{a, b}, Purl: p, File: k})
				}
			}
		}
	}
	return out
}

// reference for the documented matching rule -------------------------------

type refOut struct {
	id   string // "" = nil
	node *sbom.Node
	err  bool
	// distinctH: the hash-matching nodes carry pairwise different node identifiers (always true for well-formed lists)
	distinctH bool
}

func refMatch(list []*sbom.Node, probe *sbom.Node) refOut {
	var H []*sbom.Node
	if len(probe.Hashes) > 0 {
		for _, n := range list {
			if n.HashesMatch(probe.Hashes) {
				H = append(H, n)
			}
		}
	}
	pp := probe.Purl()
	distinct := true
	seenID := map[string]bool{}
	for _, n := range H {
		if seenID[n.Id] {
			distinct = false
		}
		seenID[n.Id] = true
	}
	out := refMatchRule(list, H, pp)
	out.distinctH = distinct
	return out
}

func refMatchRule(list, H []*sbom.Node, pp sbom.PackageURL) refOut {
	switch {
	case len(H) == 1:
		return refOut{id: H[0].Id, node: H[0]}
	case len(H) == 0:
		if pp == "" {
			return refOut{}
		}
		var P []*sbom.Node
		for _, n := range list {
			if n.Purl() == pp {
				P = append(P, n)
			}
		}
		if len(P) == 1 {
			return refOut{id: P[0].Id, node: P[0]}
		}
		if len(P) == 0 {
			return refOut{}
		}
		return refOut{err: true}
	default:
		if pp == "" {
			return refOut{err: true}
		}
		var Q []*sbom.Node
		for _, n := range H {
			if n.Purl() == pp {
				Q = append(Q, n)
			}
		}
		if len(Q) == 1 {
			return refOut{id: Q[0].Id, node: Q[0]}
		}
		return refOut{err: true}
	}
}

type caseDesc struct {
	List  []string `json:"list"`
	Probe string   `json:"probe"`
}

func ids(ns []*sbom.Node) string {
	s := []string{}
	for _, n := range ns {
		s = append(s, n.Id)
	}
	sort.Strings(s)
	return strings.Join(s, ",")
}

func Run(c *engine.Ctx) {
	idNames := []string{"n0", "n1", "n2", "n3"}

	matchGroup := func(group string, vs []variant, probes []variant, n int) {
		c.Group(group)
		c.Bound(group, fmt.Sprintf("lists of exactly %d nodes over %d node variants x %d probe variants x all %d! permutations", n, len(vs), len(probes), n))
		idx := make([]int, n)
		var rec func(k int)
		rec = func(k int) {
			if c.Expired() {
				return
			}
			if k == n {
				cur := make([]variant, n)
				for i, j := range idx {
					cur[i] = vs[j]
				}
				for _, pv := range probes {
					pv := pv
					c.Case(func() any {
						d := caseDesc{Probe: pv.String()}
						for _, v := range cur {
							d.List = append(d.List, v.String())
						}
						return d
					}, func(t *engine.T) *engine.Violation { return matchCase(t, cur, pv, idNames) })
				}
				return
			}
			for j := range vs {
				idx[k] = j
				rec(k + 1)
			}
		}
		rec(0)
	}

	if c.Thorough() {
		probeIDMaxN = 4
	}
	full := variants([]int{0, 1, 2, 3, 4}, []int{0, 1, 2}, []bool{false, true})
	noEmpty := variants([]int{0, 2, 3, 4}, []int{0, 1, 2}, []bool{false, true})
	small := variants([]int{0, 2, 3, 4}, []int{0, 1}, []bool{false})
	smallK := variants([]int{0, 2, 3}, []int{0, 1}, []bool{false, true})
	if !c.Thorough() {
		matchGroup("match-n1-full", full, full, 1)
		matchGroup("match-n2-full", full, full, 2)
		matchGroup("match-n3-small", small, small, 3)
	} else {
		matchGroup("match-n1-full", full, full, 1)
		matchGroup("match-n2-full", full, full, 2)
		matchGroup("match-n3-noempty", noEmpty, noEmpty, 3)
		matchGroup("match-n4-small", small, smallK, 4)
	}

	structured := variants([]int{0, 2}, []int{3, 4, 5, 6, 7, 8}, []bool{false})
	matchGroup("match-n1-purl-structure", structured, structured, 1)
	matchGroup("match-n2-purl-structure", structured, structured, 2)
	if c.Thorough() {
		matchGroup("match-n3-purl-structure", variants([]int{0, 2}, []int{3, 4, 5, 6}, []bool{false}), variants([]int{0, 2}, []int{4, 5}, []bool{false}), 3)
	}

	// repeated node identifiers (ill-formed lists): the rule speaks about nodes, not about their identifiers
	{
		rep := variants([]int{0, 2, 3}, []int{0, 1}, []bool{false})
		saved := idNames
		for _, pat := range [][]string{{"a", "a", "b", "c"}, {"a", "a", "a", "a"}, {"", "", "b", "c"}} {
			idNames = pat
			matchGroup("match-n3-repeated-ids-"+strings.Join(pat[:3], "|"), rep, rep, 3)
		}
		idNames = saved
	}
	everyAlgorithm(c)
	purlTypeQueries(c)
	keyCompositions(c)
	lookups(c, idNames)
	afterMutation(c)
	wide(c)
}

// afterMutation: lookups and matching interleaved with in-place changes of the list; every answer must reflect the
// list as it is now (judged against the same question put to a freshly built equal list).
func afterMutation(c *engine.Ctx) {
	c.Group("lookup-after-mutation")
	mk := func() *sbom.NodeList {
		return &sbom.NodeList{Nodes: []*sbom.Node{
			variant{H: [2]int{2, 0}, Purl: 1}.build("n0"), variant{H: [2]int{3, 0}, Purl: 2}.build("n1"), variant{H: [2]int{0, 2}}.build("n2"),
		}, RootElements: []string{"n0"}}
	}
	type mut struct {
		name string
		do   func(nl *sbom.NodeList)
	}
	on := func(nl *sbom.NodeList, id string, f func(n *sbom.Node)) {
		if n := nl.GetNodeByID(id); n != nil {
			f(n)
		}
	}
	muts := []mut{
		{"change hash of n0", func(nl *sbom.NodeList) {
			on(nl, "n0", func(n *sbom.Node) { n.Hashes = map[int32]string{algos[0]: h2} })
		}},
		{"add hash to n2", func(nl *sbom.NodeList) { on(nl, "n2", func(n *sbom.Node) { n.AddHash(sbom.HashAlgorithm_SHA1, h1) }) }},
		{"change purl of n1", func(nl *sbom.NodeList) {
			on(nl, "n1", func(n *sbom.Node) { n.Identifiers = map[int32]string{int32(sbom.SoftwareIdentifierType_PURL): p1} })
		}},
		{"rename n0", func(nl *sbom.NodeList) { on(nl, "n0", func(n *sbom.Node) { n.Name = "renamed" }) }},
		{"remove n0", func(nl *sbom.NodeList) { nl.RemoveNodes([]string{"n0"}) }},
		{"add node n3 (copy of n0)", func(nl *sbom.NodeList) {
			if nl.GetNodeByID("n3") == nil {
				nl.AddNode(variant{H: [2]int{2, 0}, Purl: 1}.build("n3"))
			}
		}},
		{"change id of n1", func(nl *sbom.NodeList) { on(nl, "n1", func(n *sbom.Node) { n.Id = "n9" }) }},
		{"make n2 a root", func(nl *sbom.NodeList) { nl.RootElements = append(nl.RootElements, "n2") }},
		{"turn n0 into a file", func(nl *sbom.NodeList) { on(nl, "n0", func(n *sbom.Node) { n.Type = sbom.Node_FILE }) }},
	}
	probes := []variant{{H: [2]int{2, 0}}, {H: [2]int{3, 0}}, {H: [2]int{2, 2}}, {Purl: 1}, {Purl: 2}, {H: [2]int{0, 2}, Purl: 1}}
	answers := func(nl *sbom.NodeList) string {
		var sb strings.Builder
		for _, pv := range probes {
			n, err := nl.GetMatchingNode(pv.build("probe"))
			id := "nil"
			if n != nil {
				id = n.Id
			}
			fmt.Fprintf(&sb, "match(%s)=%s/%v;", pv, id, err != nil)
		}
		for _, id := range []string{"n0", "n1", "n2", "n3", "n9"} {
			fmt.Fprintf(&sb, "id(%s)=%v;", id, nl.GetNodeByID(id) != nil)
		}
		for _, nm := range []string{"name-1", "name-2", "name-0", "renamed"} {
			fmt.Fprintf(&sb, "name(%s)=%s;", nm, ids(nl.GetNodesByName(nm)))
		}
		fmt.Fprintf(&sb, "purl=%s;", ids(nl.GetNodesByIdentifier("purl", p1)))
		fmt.Fprintf(&sb, "roots=%s;", ids(nl.GetRootNodes()))
		fmt.Fprintf(&sb, "apk=%s;", ids(nl.GetNodesByPurlType("apk").Nodes))
		return sb.String()
	}
	c.Bound("lookup-after-mutation", fmt.Sprintf("all sequences of <=2 of %d in-place mutations, the full question set asked before and after each; answers compared with a freshly built list that had the same mutations applied without any question asked in between", len(muts)))
	for i := range muts {
		for j := -1; j < len(muts); j++ {
			i, j := i, j
			c.Case(func() any {
				l := []string{muts[i].name}
				if j >= 0 {
					l = append(l, muts[j].name)
				}
				return l
			}, func(t *engine.T) *engine.Violation {
				live, fresh := mk(), mk()
				_ = answers(live)
				muts[i].do(live)
				muts[i].do(fresh)
				t.Transitions(2)
				if j < 0 {
					if a, b := answers(live), answers(fresh); a != b {
						return engine.Violate("stale-answer", "", "after %q the list answers\n %s\na list that was never queried before answers\n %s", muts[i].name, a, b)
					}
				} else {
					_ = answers(live)
					muts[j].do(live)
					muts[j].do(fresh)
					if a, b := answers(live), answers(fresh); a != b {
						return engine.Violate("stale-answer", "", "after %q and %q the list answers\n %s\na list that was never queried before answers\n %s", muts[i].name, muts[j].name, a, b)
					}
				}
				t.Validated(1)
				t.State(fmt.Sprintf("mut|%d|%d", i, j))
				t.Outcome("after-mutation-ok")
				return nil
			})
		}
	}
}

// wide: 40 nodes (size class); one, two or forty of them match the probe.
// everyAlgorithm: the matching rule under every hash algorithm of the enum (and two undeclared numbers): matches that
// can only be found through that one algorithm, alone and next to SHA-1.
func everyAlgorithm(c *engine.Ctx) {
	c.Group("match-every-algorithm")
	var algs []int
	for a := range sbom.HashAlgorithm_name {
		algs = append(algs, int(a))
	}
	algs = append(algs, 99, -1)
	sort.Ints(algs)
	c.Bound("match-every-algorithm", fmt.Sprintf("%d hash algorithm numbers (all declared + undeclared) x 6 list / probe shapes in which a match is reachable through that algorithm only, alone or next to SHA-1, with and without a package URL on another node", len(algs)))
	sha1 := int32(sbom.HashAlgorithm_SHA1)
	purl := map[int32]string{int32(sbom.SoftwareIdentifierType_PURL): p1}
	for _, ai := range algs {
		a := int32(ai)
		if a == sha1 {
			continue
		}
		shapes := []struct {
			Name  string
			List  []*sbom.Node
			Probe *sbom.Node
		}{
			{"only node with that digest", []*sbom.Node{{Id: "n0", Hashes: map[int32]string{a: h1}}, {Id: "n1", Hashes: map[int32]string{a: h2}}}, &sbom.Node{Id: "p", Hashes: map[int32]string{a: h1}}},
			{"digest match beats purl of another node", []*sbom.Node{{Id: "n0", Hashes: map[int32]string{a: h1}}, {Id: "n1", Identifiers: purl}}, &sbom.Node{Id: "p", Hashes: map[int32]string{a: h1}, Identifiers: purl}},
			{"one node by SHA-1, one by that algorithm", []*sbom.Node{{Id: "n0", Hashes: map[int32]string{sha1: h1}}, {Id: "n1", Hashes: map[int32]string{a: h1}}}, &sbom.Node{Id: "p", Hashes: map[int32]string{sha1: h1, a: h1}}},
			{"SHA-1 agrees, that algorithm disagrees", []*sbom.Node{{Id: "n0", Hashes: map[int32]string{sha1: h1, a: h2}}}, &sbom.Node{Id: "p", Hashes: map[int32]string{sha1: h1, a: h1}}},
			{"two nodes with that digest, purl breaks the tie", []*sbom.Node{{Id: "n0", Hashes: map[int32]string{a: h1}}, {Id: "n1", Hashes: map[int32]string{a: h1}, Identifiers: purl}}, &sbom.Node{Id: "p", Hashes: map[int32]string{a: h1}, Identifiers: purl}},
			{"no digest in common", []*sbom.Node{{Id: "n0", Hashes: map[int32]string{a: h1}}}, &sbom.Node{Id: "p", Hashes: map[int32]string{sha1: h1}}},
		}
		for si := range shapes {
			ai, si := ai, si
			sh := shapes[si]
			c.Case(func() any { return map[string]any{"algorithm": ai, "shape": sh.Name} }, func(t *engine.T) *engine.Violation {
				var base string
				var viol *engine.Violation
				gen.Permutations(len(sh.List), func(p []int) {
					if viol != nil {
						return
					}
					nl := &sbom.NodeList{}
					for _, i := range p {
						nl.Nodes = append(nl.Nodes, proto.Clone(sh.List[i]).(*sbom.Node))
					}
					probe := proto.Clone(sh.Probe).(*sbom.Node)
					got, err := nl.GetMatchingNode(probe)
					want := refMatch(nl.Nodes, probe)
					t.Transitions(1)
					t.Validated(1)
					obs, w := "nil", "nil"
					if err != nil {
						obs = "ambiguous"
					} else if got != nil {
						obs = got.Id
					}
					if want.err {
						w = "ambiguous"
					} else if want.id != "" {
						w = want.id
					}
					if obs != w {
						viol = engine.Violate("match-rule", "algorithm", "algorithm %d, %s, list order %v: GetMatchingNode gives %s, documented rule gives %s", ai, sh.Name, p, obs, w)
						return
					}
					if base == "" {
						base = obs
					}
				})
				if viol != nil {
					return viol
				}
				t.Observe(base)
				t.State(fmt.Sprint("alg", ai, si))
				t.Outcome("algorithm-ok")
				return nil
			})
		}
	}
}

func wide(c *engine.Ctx) {
	c.Group("wide-list")
	sizes := []int{40, 301, 1027, 2051}
	c.Bound("wide-list", fmt.Sprintf("lists of %v nodes in which k in {0,1,2,17,33,n} nodes hash-match the probe and m in {0,1,2} of those share its purl, matching nodes first / last / interleaved", sizes))
	for _, size := range sizes {
		for _, k := range []int{0, 1, 2, 17, 33, size} {
			for m := 0; m <= 2 && m <= k; m++ {
				for layout := 0; layout < 3; layout++ {
					k, m, layout, size := k, m, layout, size
					c.Case(func() any {
						return map[string]int{"nodes": size, "hash-matching": k, "of-those-with-probe-purl": m, "layout": layout}
					}, func(t *engine.T) *engine.Violation {
						nodes := make([]*sbom.Node, size)
						for i := range nodes {
							v := variant{H: [2]int{3, 0}, Purl: 2}
							pos := i
							if layout == 1 {
								pos = size - 1 - i
							} else if layout == 2 {
								pos = (i * 7) % size
							}
							if pos < k {
								v = variant{H: [2]int{2, 0}, Purl: 2}
								if pos < m {
									v.Purl = 1
								}
							}
							nodes[i] = v.build(fmt.Sprintf("w%04d", i))
						}
						nl := &sbom.NodeList{Nodes: nodes}
						probe := variant{H: [2]int{2, 0}, Purl: 1}.build("probe")
						got, err := nl.GetMatchingNode(probe)
						want := refMatch(nl.Nodes, probe)
						t.Transitions(1)
						t.Validated(1)
						obs, w := "nil", "nil"
						if err != nil {
							obs = "ambiguous"
						} else if got != nil {
							obs = got.Id
						}
						if want.err {
							w = "ambiguous"
						} else if want.id != "" {
							w = want.id
						}
						if obs != w {
							return engine.Violate("match-rule", "wide", "%d-node list: GetMatchingNode gives %s, documented rule gives %s", size, obs, w)
						}
						t.State(fmt.Sprintf("wide|%d|%d|%d|%d", size, k, m, layout))
						t.Outcome("wide-ok")
						return nil
					})
				}
			}
		}
	}
}

// probeIDMaxN: largest list size for which the probe also carries each list node's identifier.
var probeIDMaxN = 2

func matchCase(t *engine.T, cur []variant, pv variant, idNames []string) *engine.Violation {
	n := len(cur)
	ambiguous := pv.hasEmpty()
	for _, v := range cur {
		ambiguous = ambiguous || v.hasEmpty()
	}
	base := ""
	var viol *engine.Violation
	variants := n
	if n > probeIDMaxN {
		variants = 0 // quick tier: the probe-identifier dimension on lists of <= 2 nodes only
	}
	for probeVariant := 0; probeVariant <= variants && viol == nil; probeVariant++ {
		gen.Permutations(n, func(p []int) {
			if viol != nil {
				return
			}
			nl := &sbom.NodeList{}
			origin := map[*sbom.Node]string{} // a node is named by its position in the case description, not by its identifier (identifiers may repeat)
			for _, i := range p {
				nd := cur[i].build(idNames[i])
				origin[nd] = fmt.Sprintf("n%d", i)
				nl.Nodes = append(nl.Nodes, nd)
			}
			probeID := "probe"
			if probeVariant > 0 && len(nl.Nodes) > 0 {
				// the probe carries the identifier of a node of the list (a copy of a list node, or a node of a document that
				// reuses the identifiers): the rule does not mention identifiers, so the outcome must be the same
				probeID = idNames[(probeVariant-1)%len(nl.Nodes)]
			}
			probe := pv.build(probeID)
			got, err := nl.GetMatchingNode(probe)
			t.Transitions(1)
			obs := "nil"
			if err != nil {
				if !errors.Is(err, sbom.ErrorMoreThanOneMatch) {
					viol = engine.Violate("match-error-kind", "", "unexpected error %v", err)
					return
				}
				if got != nil {
					viol = engine.Violate("match-both", "", "returned a node and an error")
					return
				}
				obs = "ambiguous"
			} else if got != nil {
				member := false
				for _, x := range nl.Nodes {
					if x == got {
						member = true
					}
				}
				if !member {
					viol = engine.Violate("match-membership", "", "returned node %q is not an element of the list", got.Id)
					return
				}
				obs = origin[got]
			}
			want := refMatch(nl.Nodes, probe)
			if !ambiguous && want.distinctH {
				t.Validated(1)
				w := "nil"
				if want.err {
					w = "ambiguous"
				} else if want.node != nil {
					w = origin[want.node]
				}
				if w != obs {
					viol = engine.Violate("match-rule", "", "perm %v (node identifiers %v): GetMatchingNode gives %s, documented rule gives %s", p, idNames[:n], obs, w)
					return
				}
			}
			if !want.distinctH {
				// two hash-matching nodes share a node identifier: which of them stands for both is not defined; the result must
				// still be one of the hash-matching nodes (or the ambiguity error)
				if got != nil && !ambiguous && !got.HashesMatch(probe.Hashes) {
					viol = engine.Violate("match-rule", "", "perm %v (node identifiers %v): hash-matching nodes exist, yet the node returned (%s) does not match the probe's hashes", p, idNames[:n], obs)
				}
				return
			}
			if base == "" {
				base = obs
			} else if base != obs {
				viol = engine.Violate("match-order-dependence", "", "perm %v (probe id %q) gives %s, identity order with probe id \"probe\" gives %s", p, probeID, obs, base)
			}
			// the probe IS a member of the list (the same object, not a copy): the rule is the same rule
			identity := true
			for i, x := range p {
				identity = identity && i == x
			}
			if probeVariant == 0 && viol == nil && !ambiguous && identity {
				for _, member := range nl.Nodes {
					g2, e2 := nl.GetMatchingNode(member)
					w2 := refMatch(nl.Nodes, member)
					t.Transitions(1)
					if !w2.distinctH {
						continue
					}
					t.Validated(1)
					o2, x2 := "nil", "nil"
					if e2 != nil {
						o2 = "ambiguous"
					} else if g2 != nil {
						o2 = origin[g2]
					}
					if w2.err {
						x2 = "ambiguous"
					} else if w2.node != nil {
						x2 = origin[w2.node]
					}
					if o2 != x2 {
						viol = engine.Violate("match-rule", "probe-is-member", "perm %v: GetMatchingNode(list member %s itself) gives %s, documented rule gives %s", p, origin[member], o2, x2)
						return
					}
				}
			}
		})
	}
	if viol != nil {
		return viol
	}
	t.Observe(base) // the outcome must not depend on the map iteration order either
	var sb strings.Builder
	vs := []string{}
	for _, v := range cur {
		vs = append(vs, v.String())
	}
	sort.Strings(vs)
	sb.WriteString(strings.Join(vs, ";") + "?" + pv.String())
	t.State(sb.String())
	cls := base
	if strings.HasPrefix(base, "n") && base != "nil" {
		cls = "match"
	}
	if ambiguous {
		cls += "/emptyhash"
	}
	t.Outcome(cls)
	return nil
}

// purl values of the lookup alphabet: two well-formed ones and near misses of "pkg:<type>/" (no scheme, type as a
// prefix of a longer type, upper-case scheme, the legacy "pkg:/type/" spelling, type only).
var lookupPurls = []string{"", p1, p2, "apk/wolfi/x@1", "/apk/wolfi/x@1", "pkg:apkx/wolfi/x@1", "PKG:apk/wolfi/x@1", "pkg:/apk/wolfi/x@1", "pkg:apk", "xpkg:apk/w/x@1", "pkg:deb"}

// lookups: plain lookups against a filter over the list.
func lookups(c *engine.Ctx, idNames []string) {
	c.Group("lookups")
	names := []string{"", "x", "y"}
	type nodeV struct {
		Name  int
		Purl  int // 0 none 1 p1 2 p2
		Cpe   int // 0 none, 1 cpe22 v, 2 cpe23 v, 3 both
		Git   bool
		File  bool
		IdMap int // 0: nil map, 1: map
	}
	var nvs []nodeV
	for nm := 0; nm < 3; nm++ {
		for pu := 0; pu < len(lookupPurls); pu++ {
			for cp := 0; cp < 4; cp++ {
				if pu >= 3 && (cp != 0 || nm != 1) {
					continue // the near-miss purls vary alone
				}
				for _, f := range []bool{false, true} {
					nvs = append(nvs, nodeV{Name: nm, Purl: pu, Cpe: cp, File: f, Git: cp == 3})
				}
			}
		}
	}
	build := func(v nodeV, id string) *sbom.Node {
		n := &sbom.Node{Id: id, Name: names[v.Name]}
		if v.File {
			n.Type = sbom.Node_FILE
		}
		if v.Purl != 0 || v.Cpe != 0 || v.Git {
			n.Identifiers = map[int32]string{}
		}
		if v.Purl != 0 {
			n.Identifiers[int32(sbom.SoftwareIdentifierType_PURL)] = lookupPurls[v.Purl]
		}
		if v.Cpe&1 != 0 {
			n.Identifiers[int32(sbom.SoftwareIdentifierType_CPE22)] = "V"
		}
		if v.Cpe&2 != 0 {
			n.Identifiers[int32(sbom.SoftwareIdentifierType_CPE23)] = "V"
		}
		if v.Git {
			n.Identifiers[int32(sbom.SoftwareIdentifierType_GITOID)] = "V"
		}
		return n
	}
	spell := map[string]sbom.SoftwareIdentifierType{
		"purl": sbom.SoftwareIdentifierType_PURL, "cpe22": sbom.SoftwareIdentifierType_CPE22, "cpe23": sbom.SoftwareIdentifierType_CPE23,
		"cpe2.2": sbom.SoftwareIdentifierType_CPE22, "cpe2.3": sbom.SoftwareIdentifierType_CPE23, "gitoid": sbom.SoftwareIdentifierType_GITOID,
		"cpe22Type": sbom.SoftwareIdentifierType_CPE22, "cpe23Type": sbom.SoftwareIdentifierType_CPE23,
		"no-such-type": sbom.SoftwareIdentifierType_UNKNOWN_IDENTIFIER_TYPE,
	}
	spellKeys := []string{}
	for k := range spell {
		spellKeys = append(spellKeys, k)
	}
	sort.Strings(spellKeys)
	n := 2
	if c.Thorough() {
		n = 3
	}
	c.Bound("lookups", fmt.Sprintf("lists of 0..%d nodes over %d node variants, every root subset (+ a dangling root), all permutations; lookups by every id, name, identifier spelling x value, purl type", n, len(nvs)))
	var rec func(cur []nodeV)
	rec = func(cur []nodeV) {
		if c.Expired() {
			return
		}
		curCopy := append([]nodeV{}, cur...)
		c.Case(func() any { return fmt.Sprintf("%+v", curCopy) }, func(t *engine.T) *engine.Violation {
			var viol *engine.Violation
			gen.Permutations(len(curCopy), func(p []int) {
				if viol != nil {
					return
				}
				nl := &sbom.NodeList{}
				allIDs := []string{}
				for _, i := range p {
					nl.Nodes = append(nl.Nodes, build(curCopy[i], idNames[i]))
					allIDs = append(allIDs, idNames[i])
				}
				sort.Strings(allIDs)
				// by id
				idQueries := append(append([]string{}, allIDs...), "zz", "")
				for _, id := range allIDs {
					// near-variants of present identifiers: a lookup that normalises its key would find them
					idQueries = append(idQueries, strings.ToUpper(id), id+" ", " "+id, id+"\x00")
				}
				for _, id := range idQueries {
					got := nl.GetNodeByID(id)
					var want *sbom.Node
					for _, x := range nl.Nodes {
						if x.Id == id {
							want = x
							break
						}
					}
					t.Transitions(1)
					t.Validated(1)
					if got != want {
						viol = engine.Violate("lookup-id", "", "GetNodeByID(%q) wrong", id)
						return
					}
				}
				// by name
				for _, nm := range append(append([]string{}, names...), "nope", "X", "x ", " y", "Y") {
					got := nl.GetNodesByName(nm)
					var want []*sbom.Node
					for _, x := range nl.Nodes {
						if x.Name == nm {
							want = append(want, x)
						}
					}
					t.Transitions(1)
					t.Validated(1)
					if ids(got) != ids(want) || !members(nl, got) {
						viol = engine.Violate("lookup-name", "", "GetNodesByName(%q) = {%s}, want {%s}", nm, ids(got), ids(want))
						return
					}
				}
				// by identifier
				for _, sp := range spellKeys {
					for _, val := range []string{p1, p2, "V", "", "other", "v", "V ", strings.ToUpper(p1), p1 + "/", p1 + "?a=b"} {
						got := nl.GetNodesByIdentifier(sp, val)
						var want []*sbom.Node
						for _, x := range nl.Nodes {
							if x.Identifiers == nil {
								continue
							}
							if v, ok := x.Identifiers[int32(spell[sp])]; ok && v == val {
								want = append(want, x)
							}
						}
						t.Transitions(1)
						t.Validated(1)
						if ids(got) != ids(want) || !members(nl, got) {
							viol = engine.Violate("lookup-identifier", "", "GetNodesByIdentifier(%q,%q) = {%s}, want {%s}", sp, val, ids(got), ids(want))
							return
						}
					}
				}
				// roots
				for _, roots := range gen.Subsets(append(append([]string{}, allIDs...), "dangling")) {
					nl.RootElements = roots
					got := nl.GetRootNodes()
					rs := map[string]bool{}
					for _, r := range roots {
						rs[r] = true
					}
					var want []*sbom.Node
					for _, x := range nl.Nodes {
						if rs[x.Id] {
							want = append(want, x)
						}
					}
					t.Transitions(1)
					t.Validated(1)
					if ids(got) != ids(want) || !members(nl, got) {
						viol = engine.Violate("lookup-roots", "", "GetRootNodes with roots %v = {%s}, want {%s}", roots, ids(got), ids(want))
						return
					}
					doc := &sbom.Document{NodeList: nl}
					if ids(doc.GetRootNodes()) != ids(want) {
						viol = engine.Violate("lookup-roots", "document", "Document.GetRootNodes differs")
						return
					}
				}
				nl.RootElements = nil
				// purl type
				for _, pt := range []string{"apk", "deb", "ap", "npm", ""} {
					got := nl.GetNodesByPurlType(pt)
					var want []*sbom.Node
					for _, x := range nl.Nodes {
						pu := string(x.Purl())
						if pt != "" && (strings.HasPrefix(pu, "pkg:"+pt+"/") || strings.HasPrefix(pu, "pkg:/"+pt+"/")) {
							want = append(want, x)
						}
					}
					t.Transitions(1)
					t.Validated(1)
					var gotN []*sbom.Node
					if got != nil {
						gotN = got.Nodes
					}
					if pt == "" {
						// the empty type is not a purl type; only membership is asserted
						if !members(nl, gotN) {
							viol = engine.Violate("lookup-purltype", "membership", "GetNodesByPurlType(\"\") returned foreign nodes")
						}
						continue
					}
					if ids(gotN) != ids(want) || !members(nl, gotN) {
						viol = engine.Violate("lookup-purltype", "", "GetNodesByPurlType(%q) = {%s}, want {%s}", pt, ids(gotN), ids(want))
						return
					}
				}
			})
			if viol != nil {
				return viol
			}
			t.State(fmt.Sprintf("lookup:%+v", curCopy))
			t.Outcome(fmt.Sprintf("lookups-ok-n%d", len(curCopy)))
			return nil
		})
		if len(cur) == n {
			return
		}
		for _, v := range nvs {
			rec(append(cur, v))
		}
	}
	rec(nil)
}

func members(nl *sbom.NodeList, got []*sbom.Node) bool {
	for _, g := range got {
		ok := false
		for _, x := range nl.Nodes {
			if x == g {
				ok = true
			}
		}
		if !ok {
			return false
		}
	}
	return true
}

// purlTypeQueries: the purl type as a value class. A list holds one node per type of a menu - the characters the purl
// specification allows in a type (letters, digits, '.', '+', '-'), the characters that mean something to pattern
// languages (regular expressions, globs, format strings, percent escapes), letter case, separators - in both spellings
// of the scheme (pkg:t/ and pkg:/t/); every type of the menu and a few partial ones are asked for. The answer is
// precisely the nodes whose purl starts with that scheme and type.
func purlTypeQueries(c *engine.Ctx) {
	c.Group("purl-type-queries")
	types := []string{"apk", "a.b", "axb", "a+b", "aab", "ab", "c++", "c", "a-b", "a*", "a?b", "[a]", "a|b", "(a)", "a\\b", "a$", "^a", "A.B", "a%2eb", "a/b", "%s", "a b", "é", "a.b.c", "..", "a{2}", "\\d", "a,b"}
	queries := append(append([]string{}, types...), ".", ".*", "a.", ".b", "a", "b", "+", "*", "?", "a.*", "[a-z]+", "a%", "", " ")
	c.Bound("purl-type-queries", fmt.Sprintf("one list with two nodes per purl type of a menu of %d (characters the purl specification allows, characters pattern languages give a meaning to, case, separators; both spellings of the scheme) x %d queries x {list as built, reversed}", len(types), len(queries)))
	build := func(rev bool) *sbom.NodeList {
		nl := &sbom.NodeList{}
		for i, ty := range types {
			for j, pre := range []string{"pkg:", "pkg:/"} {
				n := &sbom.Node{Id: fmt.Sprintf("n%d-%d", i, j), Name: ty, Identifiers: map[int32]string{int32(sbom.SoftwareIdentifierType_PURL): pre + ty + "/ns/name@1"}}
				nl.Nodes = append(nl.Nodes, n)
			}
		}
		nl.Nodes = append(nl.Nodes, &sbom.Node{Id: "no-purl", Name: "no-purl"})
		if rev {
			for i, j := 0, len(nl.Nodes)-1; i < j; i, j = i+1, j-1 {
				nl.Nodes[i], nl.Nodes[j] = nl.Nodes[j], nl.Nodes[i]
			}
		}
		return nl
	}
	for qi := range queries {
		for _, rev := range []bool{false, true} {
			qi, rev := qi, rev
			c.Case(func() any { return map[string]any{"group": "purl-type-queries", "query": queries[qi], "reversed": rev} }, func(t *engine.T) *engine.Violation {
				nl := build(rev)
				pt := queries[qi]
				got := nl.GetNodesByPurlType(pt)
				t.Transitions(1)
				t.Validated(1)
				var gotN []*sbom.Node
				if got != nil {
					gotN = got.Nodes
				}
				if !members(nl, gotN) {
					return engine.Violate("lookup-purltype", "membership", "GetNodesByPurlType(%q) returned foreign nodes", pt)
				}
				if pt == "" {
					t.Outcome("purl-type-query-empty")
					return nil
				}
				var want []*sbom.Node
				for _, x := range nl.Nodes {
					pu := string(x.Purl())
					if strings.HasPrefix(pu, "pkg:"+pt+"/") || strings.HasPrefix(pu, "pkg:/"+pt+"/") {
						want = append(want, x)
					}
				}
				if ids(gotN) != ids(want) {
					return engine.Violate("lookup-purltype", "type-characters", "GetNodesByPurlType(%q) = {%s}, want {%s}", pt, ids(gotN), ids(want))
				}
				t.State(fmt.Sprintf("ptq|%s|%v", pt, rev))
				t.Outcome(fmt.Sprintf("purl-type-query-%d", len(want)))
				return nil
			})
		}
	}
}

// keyCompositions: digests as a value class against whatever key an index builds from (algorithm, digest). For every
// ordered pair of distinct algorithm numbers (a, b) the list holds one node with {b: v} and the probe carries {a: X},
// X running over the compositions of the two numbers and the digest - v itself, the decimal digits of b that follow
// those of a (when a's digits are a prefix of b's) in front of v, b's digits with and without a separator in front of
// v - alone and next to a second probe hash. Two nodes that have no algorithm in common never match by digest.
func keyCompositions(c *engine.Ctx) {
	c.Group("match-key-compositions")
	var algs []int
	for a := range sbom.HashAlgorithm_name {
		algs = append(algs, int(a))
	}
	algs = append(algs, 99, 100)
	sort.Ints(algs)
	const v = "abc"
	n := 0
	for _, a := range algs {
		for _, b := range algs {
			if a == b {
				continue
			}
			da, db := strconv.Itoa(a), strconv.Itoa(b)
			xs := []string{v, db + v, db + ":" + v, ":" + v, db + "-" + v, da + v}
			if strings.HasPrefix(db, da) && len(db) > len(da) {
				xs = append(xs, db[len(da):]+v, db[len(da):]+":"+v)
			}
			for xi := range xs {
				for second := 0; second < 2; second++ {
					a, b, x, second := a, b, xs[xi], second
					n++
					c.Case(func() any {
						return map[string]any{"group": "match-key-compositions", "list-algorithm": b, "probe-algorithm": a, "probe-digest": x, "second-probe-hash": second == 1}
					}, func(t *engine.T) *engine.Violation {
						nl := &sbom.NodeList{Nodes: []*sbom.Node{{Id: "n0", Hashes: map[int32]string{int32(b): v}}, {Id: "n1", Hashes: map[int32]string{int32(a): "zz"}}}}
						probe := &sbom.Node{Id: "p", Hashes: map[int32]string{int32(a): x}}
						if second == 1 {
							probe.Hashes[1000] = "other"
						}
						got, err := nl.GetMatchingNode(probe)
						want := refMatch(nl.Nodes, probe)
						t.Transitions(1)
						t.Validated(1)
						obs, w := "nil", "nil"
						if err != nil {
							obs = "ambiguous"
						} else if got != nil {
							obs = got.Id
						}
						if want.err {
							w = "ambiguous"
						} else if want.id != "" {
							w = want.id
						}
						if obs != w {
							return engine.Violate("match-rule", "key-composition", "list node {%d: %q}, probe {%d: %q}: GetMatchingNode gives %s, documented rule gives %s", b, v, a, x, obs, w)
						}
						t.State(fmt.Sprint("keycomp", a, b, x, second))
						t.Outcome("key-composition-ok:" + obs)
						return nil
					})
				}
			}
		}
	}
	c.Bound("match-key-compositions", fmt.Sprintf("%d cases: every ordered pair of %d algorithm numbers x the compositions of the two numbers and the digest as the probe's digest x {alone, next to a second probe hash}", n, len(algs)))
}
