// Package c11: queries and value-returning operations leave their operands unchanged.
package c11

import (
	"fmt"
	"github.com/sirupsen/logrus"
	"reflect"
	"sort"
	"strings"
	"time"

	"github.com/protobom/protobom/pkg/formats"
	"github.com/protobom/protobom/pkg/sbom"
	"google.golang.org/protobuf/proto"
	"google.golang.org/protobuf/reflect/protoreflect"

	"mcverif/engine"
	"mcverif/gen"
	"mcverif/rw"
)

var Spec = engine.Spec{
	ID: "C11", Run: Run, QuickBud: 5 * time.Minute, ThorBud: 20 * time.Minute,
	Technique: "explicit enumeration of every read-only / value-returning public operation (table checked for completeness against the method sets by reflection) x every operand document variant x every receiver inside it; order-sensitive field-by-field snapshot of all operands before = after; serialization through every registered format",
	Rule:      "case = (operation instance, operand document variant, second-operand variant); operand lists are in unsorted order so an in-place sort is visible; distinct state = op + receivers + variants",
	Assume:    []string{"generated protobuf accessors are not listed (generated code)", "the concurrent clause (no data races between such operations on a shared document) is decided by the race-instrumented schedule exploration of the same operation table (group 'schedules')"},
}

// classification of every exported non-generated method of the model types.
var readOnly = map[string]bool{
	"Node.Copy": true, "Node.Equal": true, "Node.Checksum": true, "Node.Purl": true, "Node.HashesMatch": true, "Node.Diff": true,
	"Edge.Copy": true, "Edge.PointsTo": true, "Edge.Equal": true,
	"Person.ToSPDX2ClientString": true, "Person.ToSPDX2ClientOrg": true, "Person.Copy": true,
	"ExternalReference.Copy": true,
	"NodeList.GetEdgeByType": true, "NodeList.Copy": true, "NodeList.Intersect": true, "NodeList.Union": true, "NodeList.GetNodesByName": true,
	"NodeList.GetNodeByID": true, "NodeList.GetMatchingNode": true, "NodeList.GetNodesByIdentifier": true, "NodeList.GetRootNodes": true,
	"NodeList.Equal": true, "NodeList.GetNodesByPurlType": true, "NodeList.NodeGraph": true, "NodeList.NodeSiblings": true, "NodeList.NodeDescendants": true,
	"Document.GetRootNodes": true,
}
var mutating = map[string]bool{
	"Node.Update": true, "Node.Augment": true, "Node.AddHash": true, "Edge.AddDestinationById": true,
	"NodeList.AddEdge": true, "NodeList.AddRootNode": true, "NodeList.AddNode": true, "NodeList.Add": true, "NodeList.RemoveNodes": true,
	"NodeList.RelateNodeAtID": true, "NodeList.RelateNodeListAtID": true,
}

func isGenerated(name string) bool {
	return strings.HasPrefix(name, "Get") && !strings.HasPrefix(name, "GetNode") && !strings.HasPrefix(name, "GetEdge") && !strings.HasPrefix(name, "GetRoot") && !strings.HasPrefix(name, "GetMatching") ||
		name == "Reset" || name == "String" || name == "ProtoMessage" || name == "ProtoReflect" || name == "Descriptor"
}

// unclassified lists exported methods the table does not know (schema/API growth).
func unclassified() []string {
	var out []string
	for tn, v := range map[string]any{"Node": &sbom.Node{}, "Edge": &sbom.Edge{}, "Person": &sbom.Person{}, "ExternalReference": &sbom.ExternalReference{}, "NodeList": &sbom.NodeList{}, "Document": &sbom.Document{}} {
		t := reflect.TypeOf(v)
		for i := 0; i < t.NumMethod(); i++ {
			m := t.Method(i).Name
			if tn == "Document" && (m == "GetMetadata" || m == "GetNodeList") {
				continue
			}
			k := tn + "." + m
			if readOnly[k] || mutating[k] {
				continue
			}
			if isGenerated(m) {
				continue
			}
			out = append(out, k)
		}
	}
	sort.Strings(out)
	return out
}

// reverseLists reverses every repeated field recursively (so that the stored order is not sorted).
func reverseLists(r protoreflect.Message) {
	r.Range(func(fd protoreflect.FieldDescriptor, v protoreflect.Value) bool {
		switch {
		case fd.IsMap():
		case fd.IsList():
			l := v.List()
			if fd.Kind() == protoreflect.MessageKind {
				for i := 0; i < l.Len(); i++ {
					reverseLists(l.Get(i).Message())
				}
			}
			n := l.Len()
			vals := make([]protoreflect.Value, n)
			for i := 0; i < n; i++ {
				x := l.Get(i)
				if fd.Kind() == protoreflect.MessageKind {
					x = protoreflect.ValueOfMessage(proto.Clone(x.Message().Interface()).ProtoReflect())
				}
				vals[i] = x
			}
			for i := 0; i < n; i++ {
				l.Set(i, vals[n-1-i])
			}
		case fd.Kind() == protoreflect.MessageKind:
			reverseLists(v.Message())
		}
		return true
	})
}

func fullNode(id, tag string) *sbom.Node {
	n := &sbom.Node{}
	gen.Full(n, tag, 3)
	reverseLists(n.ProtoReflect())
	n.Id = id
	n.Type = sbom.Node_PACKAGE
	n.Identifiers = map[int32]string{int32(sbom.SoftwareIdentifierType_PURL): "pkg:apk/w/" + id + "@1", int32(sbom.SoftwareIdentifierType_CPE23): "cpe:2.3:a:" + id}
	n.Hashes = map[int32]string{int32(sbom.HashAlgorithm_SHA1): "1111", int32(sbom.HashAlgorithm_SHA256): "2222" + tag}
	n.PrimaryPurpose = []sbom.Purpose{sbom.Purpose_LIBRARY}
	return n
}

func documentTypesDoc(reversed bool) *sbom.Document {
	d := sbom.NewDocument()
	d.Metadata.Id, d.Metadata.Name, d.Metadata.Version = "urn:uuid:0b8e2a5e-6c1b-4f6e-9a89-666666666666", "types", "1"
	var nums []int32
	for n := range sbom.DocumentType_SBOMType_name {
		nums = append(nums, n)
	}
	sort.Slice(nums, func(a, b int) bool { return nums[a] < nums[b] })
	nums = append(nums, 99)
	for _, n := range nums {
		for _, named := range []bool{false, true} {
			ty := sbom.DocumentType_SBOMType(n)
			dt := &sbom.DocumentType{Type: &ty}
			if named {
				nm, ds := fmt.Sprintf("Type-%d", n), fmt.Sprintf("description %d", n)
				dt.Name, dt.Description = &nm, &ds
			}
			d.Metadata.DocumentTypes = append(d.Metadata.DocumentTypes, dt)
		}
	}
	if reversed {
		l := d.Metadata.DocumentTypes
		for i, j := 0, len(l)-1; i < j; i, j = i+1, j-1 {
			l[i], l[j] = l[j], l[i]
		}
	}
	d.NodeList.Nodes = []*sbom.Node{{Id: "r", Name: "root"}, {Id: "a", Name: "part"}}
	d.NodeList.Edges = []*sbom.Edge{{From: "r", Type: sbom.Edge_contains, To: []string{"a"}}}
	d.NodeList.RootElements = []string{"r"}
	return d
}

// novelCounter feeds the "novel-values" operand; it only ever grows (single goroutine: documents are built by the
// harness between executions).
var novelCounter int

// Docs returns the operand document variants by name.
func Docs() map[string]func() *sbom.Document {
	return map[string]func() *sbom.Document{
		"full-multiroot": func() *sbom.Document {
			d := sbom.NewDocument()
			d.Metadata.Id, d.Metadata.Name, d.Metadata.Version = "doc-1", "doc", "1"
			d.Metadata.Tools = []*sbom.Tool{{Name: "t2"}, {Name: "t1"}}
			d.Metadata.Authors = []*sbom.Person{{Name: "z"}, {Name: "a"}}
			d.NodeList.Nodes = []*sbom.Node{fullNode("c", "A"), fullNode("a", "A"), fullNode("b", "B")}
			d.NodeList.Nodes[2].Type = sbom.Node_FILE
			d.NodeList.Edges = []*sbom.Edge{
				{From: "c", Type: sbom.Edge_contains, To: []string{"b", "a"}},
				{From: "a", Type: sbom.Edge_dependsOn, To: []string{"c", "b"}},
				{From: "c", Type: sbom.Edge_contains, To: []string{"c"}},
			}
			d.NodeList.RootElements = []string{"c", "a"}
			return d
		},
		"full-tree": func() *sbom.Document {
			d := sbom.NewDocument()
			d.Metadata.Id, d.Metadata.Name, d.Metadata.Version = "urn:uuid:0b8e2a5e-6c1b-4f6e-9a89-111111111111", "tree", "3"
			tname, desc := "n", "d"
			ty := sbom.DocumentType_BUILD
			d.Metadata.DocumentTypes = []*sbom.DocumentType{{Type: &ty, Name: &tname, Description: &desc}}
			d.NodeList.Nodes = []*sbom.Node{fullNode("r", "A"), fullNode("z", "B"), fullNode("m", "A")}
			d.NodeList.Edges = []*sbom.Edge{
				{From: "r", Type: sbom.Edge_contains, To: []string{"z", "m"}},
				{From: "z", Type: sbom.Edge_dependsOn, To: []string{"m"}},
			}
			d.NodeList.RootElements = []string{"r"}
			return d
		},
		"sparse": func() *sbom.Document {
			d := sbom.NewDocument()
			d.Metadata.Id = "s"
			d.NodeList.Nodes = []*sbom.Node{{Id: "a", Name: "x", Suppliers: []*sbom.Person{{Name: "s", Contacts: []*sbom.Person{{Name: "c2"}, {Name: "c1"}}}}}, {Id: "b"}}
			d.NodeList.Edges = []*sbom.Edge{{From: "a", Type: sbom.Edge_contains, To: []string{"b"}}}
			d.NodeList.RootElements = []string{"a"}
			return d
		},
		"empty": func() *sbom.Document { return sbom.NewDocument() },
		// a well-formed but not normalised document: repeated targets (adjacent and apart), several edge objects per
		// source and type, a repeated root, repeated elements in the nodes' lists - anything that de-duplicates or
		// merges in place shows
		"non-normalised": func() *sbom.Document {
			d := sbom.NewDocument()
			d.Metadata.Id = "urn:uuid:0b8e2a5e-6c1b-4f6e-9a89-333333333333"
			mk := func(id string) *sbom.Node {
				n := fullNode(id, "D")
				n.Licenses = append(n.Licenses, n.Licenses[0], n.Licenses[1])
				n.Suppliers = append(n.Suppliers, n.Suppliers[0])
				n.ExternalReferences = append(n.ExternalReferences, n.ExternalReferences[1])
				return n
			}
			d.NodeList.Nodes = []*sbom.Node{mk("r"), mk("a"), mk("b"), mk("c")}
			d.NodeList.Edges = []*sbom.Edge{
				{From: "r", Type: sbom.Edge_dependsOn, To: []string{"a", "a", "b"}},
				{From: "r", Type: sbom.Edge_contains, To: []string{"b", "a", "b", "c"}},
				{From: "r", Type: sbom.Edge_dependsOn, To: []string{"c", "a"}},
				{From: "a", Type: sbom.Edge_contains, To: []string{"c", "c"}},
			}
			d.NodeList.RootElements = []string{"r"}
			return d
		},
		// the multi-root document with every slice rebuilt with spare capacity (as slices grown by appends or decoded
		// from the wire have): an operation that appends into an operand writes into memory the operand owns
		"spare-capacity": func() *sbom.Document {
			d := Docs()["full-multiroot"]()
			d.NodeList.RootElements = append(d.NodeList.RootElements, "b")
			gen.SpareList(d.NodeList)
			return d
		},
		// values that are new to the process on every build (a counter goes into edge type numbers, licence names, purl
		// and hash values): whatever the library remembers about values it has met - a warned-once set, an interning
		// table, a cache - meets something it has not seen, every time, also after a warm-up
		"novel-values": func() *sbom.Document {
			novelCounter += 2
			k := novelCounter
			d := sbom.NewDocument()
			d.Metadata.Id = fmt.Sprintf("urn:uuid:0b8e2a5e-6c1b-4f6e-9a89-%012d", k)
			mk := func(id string) *sbom.Node {
				return &sbom.Node{Id: id, Name: fmt.Sprintf("n-%s-%d", id, k), Version: fmt.Sprint(k),
					Licenses:         []string{fmt.Sprintf("LicenseRef-novel-%d", k)},
					LicenseConcluded: fmt.Sprintf("LicenseRef-novel-%d OR MIT", k),
					Hashes:           map[int32]string{int32(sbom.HashAlgorithm_SHA256): fmt.Sprintf("%064d", k)},
					Identifiers:      map[int32]string{int32(sbom.SoftwareIdentifierType_PURL): fmt.Sprintf("pkg:novel%d/ns/%s@%d", k, id, k)},
					PrimaryPurpose:   []sbom.Purpose{sbom.Purpose(100 + k)},
				}
			}
			d.NodeList.Nodes = []*sbom.Node{mk("r"), mk("a"), mk("b")}
			d.NodeList.Edges = []*sbom.Edge{
				{From: "r", Type: sbom.Edge_contains, To: []string{"a", "b"}},
				{From: "a", Type: sbom.Edge_Type(3000 + k), To: []string{"b"}},
				{From: "b", Type: sbom.Edge_Type(3001 + k), To: []string{"a", "r"}},
				{From: "a", Type: sbom.Edge_other, To: []string{"r"}},
			}
			d.NodeList.RootElements = []string{"r"}
			return d
		},
		// containment that is not a tree: a node with two containers, a node that lists itself and the root among its
		// parts, a containment cycle - in every case before other, acceptable targets of the same edge (a serializer that
		// sorts out what it cannot nest must not do so in the operand's own target lists)
		"shared-containment": func() *sbom.Document {
			d := sbom.NewDocument()
			d.Metadata.Id = "urn:uuid:0b8e2a5e-6c1b-4f6e-9a89-555555555555"
			for _, id := range []string{"r", "a", "b", "x", "y", "z"} {
				d.NodeList.Nodes = append(d.NodeList.Nodes, &sbom.Node{Id: id, Name: "n-" + id})
			}
			d.NodeList.Edges = []*sbom.Edge{
				{From: "r", Type: sbom.Edge_contains, To: []string{"a", "b"}},
				{From: "a", Type: sbom.Edge_contains, To: []string{"x"}},
				{From: "b", Type: sbom.Edge_contains, To: []string{"x", "y"}},
				{From: "y", Type: sbom.Edge_contains, To: []string{"y", "r", "b", "z"}},
				{From: "z", Type: sbom.Edge_dependsOn, To: []string{"z", "a"}},
			}
			d.NodeList.RootElements = []string{"r"}
			return d
		},
		// empty values inside maps and lists (as decoding or direct construction produce them; the library's own setters
		// refuse them): an operation that "cleans" such entries on the way cleans its operand
		"empty-valued-entries": func() *sbom.Document {
			d := sbom.NewDocument()
			d.Metadata.Id = "urn:uuid:0b8e2a5e-6c1b-4f6e-9a89-444444444444"
			mk := func(id string) *sbom.Node {
				return &sbom.Node{Id: id, Name: "n-" + id,
					Hashes:      map[int32]string{int32(sbom.HashAlgorithm_SHA1): "", int32(sbom.HashAlgorithm_SHA256): "bbbb", int32(sbom.HashAlgorithm_MD5): ""},
					Identifiers: map[int32]string{int32(sbom.SoftwareIdentifierType_PURL): "pkg:apk/w/" + id + "@1", int32(sbom.SoftwareIdentifierType_CPE23): ""},
					Licenses:    []string{"", "MIT", ""}, Attribution: []string{""}, FileTypes: []string{"", "TEXT"},
					Suppliers:          []*sbom.Person{{Name: ""}, {Name: "s", Contacts: []*sbom.Person{{}}}},
					ExternalReferences: []*sbom.ExternalReference{{Url: "", Hashes: map[int32]string{1: ""}}, {Url: "https://x", Hashes: map[int32]string{2: "", 3: "cc"}}},
				}
			}
			d.NodeList.Nodes = []*sbom.Node{mk("r"), mk("a"), mk("b")}
			d.NodeList.Nodes[2].Type = sbom.Node_FILE
			d.NodeList.Nodes[1].Hashes[int32(sbom.HashAlgorithm_SHA256)] = "cccc"
			d.NodeList.Edges = []*sbom.Edge{{From: "r", Type: sbom.Edge_contains, To: []string{"a", "", "b"}}, {From: "a", Type: sbom.Edge_dependsOn, To: []string{}}}
			d.NodeList.RootElements = []string{"r", ""}
			return d
		},
		// one document type entry per declared type number (enumerated from the schema) and one undeclared number, each
		// with and without a name of its own, in declaration order and reversed (a serializer that gives up at the first
		// type it cannot express has then been through the others, or starts with it)
		"document-types":          func() *sbom.Document { return documentTypesDoc(false) },
		"document-types-reversed": func() *sbom.Document { return documentTypesDoc(true) },
		// identifier value shapes: well-formed, SPDX-style extra slash, qualifiers+subpath, upper case, truncated, not a purl
		"identifier-shapes": func() *sbom.Document {
			d := sbom.NewDocument()
			d.Metadata.Id = "shapes"
			for i, p := range []string{"pkg:apk/w/a@1", "pkg:/apk/w/b@1", "pkg://deb/d/c@2", "pkg:apk/w/d@1?arch=x&distro=y#sub/path", "PKG:APK/W/E@1", "pkg:apk", "pkg:", "not-a-purl", ""} {
				id := fmt.Sprintf("n%d", i)
				n := &sbom.Node{Id: id, Name: id, Identifiers: map[int32]string{int32(sbom.SoftwareIdentifierType_PURL): p, int32(sbom.SoftwareIdentifierType_CPE22): "cpe:/a:x:" + id}}
				if i == 5 {
					n.Type = sbom.Node_FILE
				}
				d.NodeList.Nodes = append(d.NodeList.Nodes, n)
			}
			d.NodeList.Edges = []*sbom.Edge{{From: "n0", Type: sbom.Edge_contains, To: []string{"n1", "n2", "n3"}}, {From: "n1", Type: sbom.Edge_dependsOn, To: []string{"n4", "n0"}}}
			d.NodeList.RootElements = []string{"n0"}
			return d
		},
		// size class: every repeated field holds 20 unsorted entries, one edge has 40 unsorted targets
		"wide": func() *sbom.Document {
			d := sbom.NewDocument()
			d.Metadata.Id = "urn:uuid:0b8e2a5e-6c1b-4f6e-9a89-222222222222"
			mk := func(id, tag string) *sbom.Node {
				n := &sbom.Node{}
				gen.Full(n, tag, 20)
				reverseLists(n.ProtoReflect())
				// interleave so that the order is neither ascending nor descending
				n.Licenses[0], n.Licenses[7] = n.Licenses[7], n.Licenses[0]
				n.Attribution[1], n.Attribution[12] = n.Attribution[12], n.Attribution[1]
				n.FileTypes[2], n.FileTypes[15] = n.FileTypes[15], n.FileTypes[2]
				n.Id, n.Type = id, sbom.Node_PACKAGE
				n.PrimaryPurpose = n.PrimaryPurpose[:1]
				return n
			}
			d.NodeList.Nodes = []*sbom.Node{mk("w", "A"), mk("v", "B")}
			var tos []string
			for i := 39; i >= 0; i-- {
				id := fmt.Sprintf("t%02d", (i*7)%40)
				tos = append(tos, id)
				d.NodeList.Nodes = append(d.NodeList.Nodes, &sbom.Node{Id: id, Name: id})
			}
			d.NodeList.Edges = []*sbom.Edge{{From: "w", Type: sbom.Edge_contains, To: tos}, {From: "v", Type: sbom.Edge_dependsOn, To: append([]string{}, tos[:20]...)}}
			d.NodeList.RootElements = []string{"w"}
			return d
		},
	}
}

// Op is one read-only operation instance on (d, aux).
type Op struct {
	Name string
	Run  func(d, aux *sbom.Document)
}

// Ops builds the operation instances applicable to document variant d (receivers that exist).
func Ops(d *sbom.Document) []Op {
	var ops []Op
	add := func(name string, f func(d, aux *sbom.Document)) { ops = append(ops, Op{name, f}) }
	nl := d.NodeList
	for i := range nl.Nodes {
		if i >= 4 {
			break // wide documents: per-node operations on the first four nodes (the rest are plain edge targets)
		}
		i := i
		id := nl.Nodes[i].Id
		tag := fmt.Sprintf("nodes[%d]", i)
		add(tag+".Copy", func(d, _ *sbom.Document) { d.NodeList.Nodes[i].Copy() })
		add(tag+".Checksum", func(d, _ *sbom.Document) { d.NodeList.Nodes[i].Checksum() })
		add(tag+".Purl", func(d, _ *sbom.Document) { d.NodeList.Nodes[i].Purl() })
		add(tag+".Equal(self)", func(d, _ *sbom.Document) { d.NodeList.Nodes[i].Equal(d.NodeList.Nodes[i]) })
		add(tag+".HashesMatch(own)", func(d, _ *sbom.Document) { d.NodeList.Nodes[i].HashesMatch(d.NodeList.Nodes[i].Hashes) })
		add(tag+".Diff(self)", func(d, _ *sbom.Document) { d.NodeList.Nodes[i].Diff(d.NodeList.Nodes[i]) })
		for j := range nl.Nodes {
			j := j
			if j == i || j >= 4 {
				continue
			}
			add(fmt.Sprintf("%s.Equal(nodes[%d])", tag, j), func(d, _ *sbom.Document) { d.NodeList.Nodes[i].Equal(d.NodeList.Nodes[j]) })
			add(fmt.Sprintf("%s.Diff(nodes[%d])", tag, j), func(d, _ *sbom.Document) { d.NodeList.Nodes[i].Diff(d.NodeList.Nodes[j]) })
			add(fmt.Sprintf("%s.HashesMatch(nodes[%d].Hashes)", tag, j), func(d, _ *sbom.Document) { d.NodeList.Nodes[i].HashesMatch(d.NodeList.Nodes[j].Hashes) })
		}
		add(tag+".Equal(aux node)", func(d, aux *sbom.Document) {
			if len(aux.NodeList.Nodes) > 0 {
				d.NodeList.Nodes[i].Equal(aux.NodeList.Nodes[0])
				d.NodeList.Nodes[i].Diff(aux.NodeList.Nodes[0])
			}
		})
		for pi := range nl.Nodes[i].Suppliers {
			pi := pi
			add(fmt.Sprintf("%s.suppliers[%d].Copy/ToSPDX2", tag, pi), func(d, _ *sbom.Document) {
				p := d.NodeList.Nodes[i].Suppliers[pi]
				p.Copy()
				_ = p.ToSPDX2ClientString()
				_ = p.ToSPDX2ClientOrg()
			})
		}
		for pi := range nl.Nodes[i].ExternalReferences {
			pi := pi
			add(fmt.Sprintf("%s.external_references[%d].Copy", tag, pi), func(d, _ *sbom.Document) { d.NodeList.Nodes[i].ExternalReferences[pi].Copy() })
		}
		add("NodeList.GetNodeByID("+id+")", func(d, _ *sbom.Document) { d.NodeList.GetNodeByID(id) })
		add("NodeList.NodeGraph("+id+")", func(d, _ *sbom.Document) { d.NodeList.NodeGraph(id) })
		add("NodeList.NodeSiblings("+id+")", func(d, _ *sbom.Document) { d.NodeList.NodeSiblings(id) })
		for dp := 1; dp <= 3; dp++ {
			dp := dp
			add(fmt.Sprintf("NodeList.NodeDescendants(%s,%d)", id, dp), func(d, _ *sbom.Document) { d.NodeList.NodeDescendants(id, dp) })
		}
		add("NodeList.GetMatchingNode(nodes["+fmt.Sprint(i)+"])", func(d, _ *sbom.Document) { _, _ = d.NodeList.GetMatchingNode(d.NodeList.Nodes[i]) })
		add("NodeList.GetMatchingNode(copy)", func(d, _ *sbom.Document) {
			_, _ = d.NodeList.GetMatchingNode(proto.Clone(d.NodeList.Nodes[i]).(*sbom.Node))
		})
		add("NodeList.GetNodesByName", func(d, _ *sbom.Document) { d.NodeList.GetNodesByName(d.NodeList.Nodes[i].Name) })
	}
	for i := range nl.Edges {
		i := i
		tag := fmt.Sprintf("edges[%d]", i)
		add(tag+".Copy", func(d, _ *sbom.Document) { d.NodeList.Edges[i].Copy() })
		add(tag+".PointsTo", func(d, _ *sbom.Document) { d.NodeList.Edges[i].PointsTo("a") })
		add(tag+".Equal(self)", func(d, _ *sbom.Document) { d.NodeList.Edges[i].Equal(d.NodeList.Edges[i]) })
		for j := range nl.Edges {
			j := j
			if i != j {
				add(fmt.Sprintf("%s.Equal(edges[%d])", tag, j), func(d, _ *sbom.Document) { d.NodeList.Edges[i].Equal(d.NodeList.Edges[j]) })
			}
		}
		add("NodeList.GetEdgeByType", func(d, _ *sbom.Document) {
			d.NodeList.GetEdgeByType(d.NodeList.Edges[i].From, d.NodeList.Edges[i].Type)
		})
	}
	add("NodeList.Copy", func(d, _ *sbom.Document) { d.NodeList.Copy() })
	add("NodeList.Equal(self)", func(d, _ *sbom.Document) { d.NodeList.Equal(d.NodeList) })
	add("NodeList.Equal(aux)", func(d, aux *sbom.Document) { d.NodeList.Equal(aux.NodeList) })
	add("NodeList.Equal(clone)", func(d, _ *sbom.Document) { d.NodeList.Equal(proto.Clone(d.NodeList).(*sbom.NodeList)) })
	add("NodeList.Union(self)", func(d, _ *sbom.Document) { d.NodeList.Union(d.NodeList) })
	add("NodeList.Union(aux)", func(d, aux *sbom.Document) { d.NodeList.Union(aux.NodeList) })
	add("NodeList.Intersect(self)", func(d, _ *sbom.Document) { d.NodeList.Intersect(d.NodeList) })
	add("NodeList.Intersect(aux)", func(d, aux *sbom.Document) { d.NodeList.Intersect(aux.NodeList) })
	add("NodeList.GetRootNodes", func(d, _ *sbom.Document) { d.NodeList.GetRootNodes(); d.GetRootNodes() })
	add("NodeList.GetNodesByIdentifier", func(d, _ *sbom.Document) {
		d.NodeList.GetNodesByIdentifier("purl", "pkg:apk/w/a@1")
		d.NodeList.GetNodesByIdentifier("cpe23", "x")
	})
	add("NodeList.GetNodesByPurlType", func(d, _ *sbom.Document) { d.NodeList.GetNodesByPurlType("apk") })
	// query arguments derived from the operand's own content: every purl type and identifier value it holds
	seenQ := map[string]bool{}
	for _, n := range nl.Nodes {
		var tys []int
		for ty := range n.Identifiers {
			tys = append(tys, int(ty))
		}
		sort.Ints(tys) // deterministic enumeration order across workers
		for _, tyi := range tys {
			ty, val := int32(tyi), n.Identifiers[int32(tyi)]
			if !seenQ["id:"+val] && len(seenQ) < 40 {
				seenQ["id:"+val] = true
				tyName := strings.ToLower(sbom.SoftwareIdentifierType(ty).String())
				add(fmt.Sprintf("NodeList.GetNodesByIdentifier(%s,%q)", tyName, val), func(d, _ *sbom.Document) { d.NodeList.GetNodesByIdentifier(tyName, val) })
			}
			if ty != int32(sbom.SoftwareIdentifierType_PURL) {
				continue
			}
			rest := strings.TrimLeft(strings.TrimPrefix(strings.ToLower(val), "pkg:"), "/")
			pt, _, _ := strings.Cut(rest, "/")
			for _, q := range []string{pt, strings.ToUpper(pt)} {
				q := q
				if !seenQ["pt:"+q] && len(seenQ) < 40 {
					seenQ["pt:"+q] = true
					add(fmt.Sprintf("NodeList.GetNodesByPurlType(%q)", q), func(d, _ *sbom.Document) { d.NodeList.GetNodesByPurlType(q) })
				}
			}
		}
	}
	add("NodeList.NodeGraph(missing)", func(d, _ *sbom.Document) {
		d.NodeList.NodeGraph("nope")
		d.NodeList.NodeSiblings("nope")
		d.NodeList.NodeDescendants("nope", 2)
	})
	for _, f := range Formats() {
		f := f
		add("serialize:"+string(f), func(d, _ *sbom.Document) { Serialize(d, f) })
	}
	return ops
}

// Formats lists the serializer formats under test (the seven defaults + SPDX 3 beta).
func Formats() []formats.Format { return rw.AllFormats }

// Serialize writes d in format f with the harness's own options value; errors are fine.
func Serialize(d *sbom.Document, f formats.Format) ([]byte, error) { return rw.Write(d, f, 2) }

func Run(c *engine.Ctx) {
	if u := unclassified(); len(u) > 0 {
		c.Note("operation table incomplete: exported methods not classified as read-only or mutating: " + strings.Join(u, ", "))
		c.Selftest("operation-table-complete", "no: "+strings.Join(u, ","))
	} else {
		c.Selftest("operation-table-complete", "ok")
	}
	docs := Docs()
	var names []string
	for n := range docs {
		names = append(names, n)
	}
	sort.Strings(names)
	c.Group("sequential")
	total := 0
	for _, dn := range names {
		ops := Ops(docs[dn]())
		total += len(ops)
		for _, an := range names {
			for oi := range ops {
				dn, an, oi := dn, an, oi
				c.Case(func() any { return map[string]string{"op": ops[oi].Name, "operand": dn, "second-operand": an} }, func(t *engine.T) *engine.Violation {
					d, aux := docs[dn](), docs[an]()
					bd, ba := gen.Snap(d), gen.Snap(aux)
					cd, ca := gen.SnapCap(d), gen.SnapCap(aux)
					ops[oi].Run(d, aux)
					t.Transitions(1)
					t.Validated(2)
					if ad := gen.SnapCap(d); ad != cd && gen.Snap(d) == bd {
						return engine.Violate("operand-mutated", "beyond-length:"+opFamily(ops[oi].Name), "%s on %s wrote into its operand's memory beyond a slice's length (spare capacity): %s", ops[oi].Name, dn, gen.SnapDiff(cd, ad))
					}
					if aa := gen.SnapCap(aux); aa != ca && gen.Snap(aux) == ba {
						return engine.Violate("operand-mutated", "beyond-length:"+opFamily(ops[oi].Name), "%s on %s wrote into its second operand's memory beyond a slice's length: %s", ops[oi].Name, dn, gen.SnapDiff(ca, aa))
					}
					if ad := gen.Snap(d); ad != bd {
						return engine.Violate("operand-mutated", opFamily(ops[oi].Name), "%s on %s changed its operand: %s", ops[oi].Name, dn, gen.SnapDiff(bd, ad))
					}
					if aa := gen.Snap(aux); aa != ba {
						return engine.Violate("operand-mutated", opFamily(ops[oi].Name), "%s on %s changed its second operand %s: %s", ops[oi].Name, dn, an, gen.SnapDiff(ba, aa))
					}
					t.State(ops[oi].Name + "|" + dn + "|" + an)
					t.Outcome("unchanged:" + opFamily(ops[oi].Name))
					return nil
				})
			}
		}
	}
	c.Bound("sequential", fmt.Sprintf("%d operation instances over %d operand document variants x %d second-operand variants", total, len(names), len(names)))
	vocabulary(c, docs)
	sparsePersons(c, docs)
	atTraceLevel(c, docs, names)
	schedules(c)
	fineGrained(c)
}

// vocabulary: operand values drawn from the vocabulary of the library's own sources (every word-like string literal
// as written and in lower / upper / title case; structural literals embedded in filler). An operation that
// canonicalises, sanitises or normalises a recognised word in place shows only on such a word. One case = one value
// put into every string-valued place (except the identifier) of every node of a fully populated document (package and
// file kinds), then the whole operation table run on it; the snapshot is compared once, and on a difference every
// operation is re-run alone on a fresh document to name the one that wrote.
func vocabulary(c *engine.Ctx, docs map[string]func() *sbom.Document) {
	c.Group("string-vocabulary")
	vals := gen.Vocabulary()
	c.Bound("string-vocabulary", fmt.Sprintf("%d values from the source vocabulary x every string-valued place (nested to depth 2) of the 3 nodes of the fully populated multi-root document (two packages, one file) x the whole operation table", len(vals)))
	if gen.LiteralsUnavailable {
		c.Note("source vocabulary unavailable: string-vocabulary not explored")
		c.Cap("source-vocabulary-unavailable")
		return
	}
	build := func(v string) *sbom.Document {
		d := docs["full-multiroot"]()
		for _, n := range d.NodeList.Nodes {
			for _, sl := range gen.StringSlots(n, 2) {
				if sl.Field == "id" {
					continue
				}
				sl.Set(n.ProtoReflect(), v)
			}
		}
		return d
	}
	for vi := range vals {
		vi := vi
		c.Case(func() any { return map[string]string{"value": vals[vi]} }, func(t *engine.T) *engine.Violation {
			d, aux := build(vals[vi]), docs["full-tree"]()
			before, beforeAux := gen.Snap(d), gen.Snap(aux)
			ops := Ops(d)
			for _, o := range ops {
				o.Run(d, aux)
			}
			t.Transitions(len(ops))
			t.Validated(2)
			if gen.Snap(d) != before || gen.Snap(aux) != beforeAux {
				for _, o := range Ops(build(vals[vi])) {
					d1, a1 := build(vals[vi]), docs["full-tree"]()
					b1, ba1 := gen.Snap(d1), gen.Snap(a1)
					o.Run(d1, a1)
					if a := gen.Snap(d1); a != b1 {
						return engine.Violate("operand-mutated", opFamily(o.Name), "%s changed its operand (every string place = %q): %s", o.Name, vals[vi], gen.SnapDiff(b1, a))
					}
					if a := gen.Snap(a1); a != ba1 {
						return engine.Violate("operand-mutated", opFamily(o.Name), "%s changed its second operand (first operand: every string place = %q): %s", o.Name, vals[vi], gen.SnapDiff(ba1, a))
					}
				}
				return engine.Violate("operand-mutated", "sequence", "the operation table run in sequence changed an operand (every string place = %q) although no single operation does: %s", vals[vi], gen.SnapDiff(before, gen.Snap(d)))
			}
			t.State("vocab|" + vals[vi])
			t.Outcome("unchanged:vocabulary")
			return nil
		})
	}
}

func opFamily(name string) string {
	if strings.HasPrefix(name, "serialize:") {
		return "serialize"
	}
	if i := strings.LastIndex(name, "."); i >= 0 {
		name = name[i+1:]
	}
	if j := strings.Index(name, "("); j >= 0 {
		name = name[:j]
	}
	return name
}

// sparsePersons: partially populated nested values. The first supplier and the first originator of a package node
// and of a file node are a person with every subset of the scalar person fields (enumerated from the schema) set, who
// has one contact with every subset of them set: 2^n x 2^n shapes. The whole operation table runs on each; an
// operation that completes a sparse value from its surroundings (a parent from its contact, a contact from its
// parent) writes into the operand.
func sparsePersons(c *engine.Ctx, docs map[string]func() *sbom.Document) {
	c.Group("sparse-persons")
	var fds []protoreflect.FieldDescriptor
	for _, fd := range gen.Fields(&sbom.Person{}) {
		if !fd.IsList() && !fd.IsMap() && fd.Kind() != protoreflect.MessageKind {
			fds = append(fds, fd)
		}
	}
	n := 1 << len(fds)
	c.Bound("sparse-persons", fmt.Sprintf("%d x %d shapes: every subset of the %d scalar person fields on a supplier / originator x every subset on its contact, on a package node and a file node, x the whole operation table", n, n, len(fds)))
	mk := func(mask int, tag string) *sbom.Person {
		p := &sbom.Person{}
		for i, fd := range fds {
			if mask&(1<<i) != 0 {
				gen.SetField(p.ProtoReflect(), fd, 1, tag)
			}
		}
		return p
	}
	build := func(pm, cm int) *sbom.Document {
		d := docs["sparse"]()
		for i, nd := range d.NodeList.Nodes {
			if i == 1 {
				nd.Type = sbom.Node_FILE
			}
			sup, org := mk(pm, "S"), mk(pm, "O")
			sup.Contacts = []*sbom.Person{mk(cm, "SC")}
			org.Contacts = []*sbom.Person{mk(cm, "OC")}
			nd.Suppliers = []*sbom.Person{sup, {Name: "second"}}
			nd.Originators = []*sbom.Person{org}
		}
		return d
	}
	for pm := 0; pm < n; pm++ {
		for cm := 0; cm < n; cm++ {
			pm, cm := pm, cm
			c.Case(func() any {
				return map[string]any{"group": "sparse-persons", "person-fields": pm, "contact-fields": cm}
			}, func(t *engine.T) *engine.Violation {
				d, aux := build(pm, cm), docs["full-tree"]()
				before, beforeAux := gen.Snap(d), gen.Snap(aux)
				ops := Ops(d)
				for _, o := range ops {
					o.Run(d, aux)
				}
				t.Transitions(len(ops))
				t.Validated(2)
				if gen.Snap(d) != before || gen.Snap(aux) != beforeAux {
					for _, o := range Ops(build(pm, cm)) {
						d1, a1 := build(pm, cm), docs["full-tree"]()
						b1 := gen.Snap(d1)
						o.Run(d1, a1)
						if a := gen.Snap(d1); a != b1 {
							return engine.Violate("operand-mutated", opFamily(o.Name), "%s changed its operand (person fields %b, contact fields %b): %s", o.Name, pm, cm, gen.SnapDiff(b1, a))
						}
					}
					return engine.Violate("operand-mutated", "sequence", "the operation table run in sequence changed an operand (person fields %b, contact fields %b): %s", pm, cm, gen.SnapDiff(before, gen.Snap(d)))
				}
				t.State(fmt.Sprintf("sparse-persons|%d|%d", pm, cm))
				t.Outcome("unchanged:sparse-persons")
				return nil
			})
		}
	}
}

// atTraceLevel: the log level as an environment answer. Every operation on every operand document variant once more
// with the library's logger at trace level (output discarded): code behind a level test runs only there.
func atTraceLevel(c *engine.Ctx, docs map[string]func() *sbom.Document, names []string) {
	c.Group("sequential-at-trace-level")
	total := 0
	for _, dn := range names {
		ops := Ops(docs[dn]())
		total += len(ops)
		for oi := range ops {
			dn, oi := dn, oi
			c.Case(func() any { return map[string]string{"op": ops[oi].Name, "operand": dn, "log-level": "trace"} }, func(t *engine.T) *engine.Violation {
				d, aux := docs[dn](), docs["full-tree"]()
				bd, ba := gen.Snap(d), gen.Snap(aux)
				rw.AtLogLevel(logrus.TraceLevel, func() { ops[oi].Run(d, aux) })
				t.Transitions(1)
				t.Validated(2)
				if ad := gen.Snap(d); ad != bd {
					return engine.Violate("operand-mutated", opFamily(ops[oi].Name), "%s on %s (logger at trace level) changed its operand: %s", ops[oi].Name, dn, gen.SnapDiff(bd, ad))
				}
				if aa := gen.Snap(aux); aa != ba {
					return engine.Violate("operand-mutated", opFamily(ops[oi].Name), "%s on %s (logger at trace level) changed its second operand: %s", ops[oi].Name, dn, gen.SnapDiff(ba, aa))
				}
				t.State("trace|" + ops[oi].Name + "|" + dn)
				t.Outcome("unchanged-at-trace-level:" + opFamily(ops[oi].Name))
				return nil
			})
		}
	}
	c.Bound("sequential-at-trace-level", fmt.Sprintf("%d operation instances over %d operand document variants with the library's logger at trace level", total, len(names)))
}
