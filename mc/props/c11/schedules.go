package c11

import (
	"fmt"
	"os"
	"os/exec"
	"path/filepath"
	"regexp"
	"sort"
	"strings"

	"github.com/protobom/protobom/pkg/sbom"

	"mcverif/engine"
	"mcverif/rw"
	"mcverif/sched"
	"mcverif/vpoint"
)

// schedules: every unordered pair of read-only operations runs as two threads on one shared
// document. The operations contain no synchronisation, so the two thread orders are all the
// schedules there are; the binary is race-instrumented and the hand-off between the threads is
// hidden from ThreadSanitizer, which therefore reports any pair of conflicting accesses.
func schedules(c *engine.Ctx) {
	c.Selftest("race_instrumented", fmt.Sprint(sched.RaceBuild))
	if !sched.RaceBuild {
		c.Note("binary is not race-instrumented: the concurrent clause is not decided in this run")
		return
	}
	rw.SilenceStdout()
	_ = sched.NewRaceReports()
	docs := Docs()
	for _, dn := range []string{"novel-values", "full-multiroot", "full-tree", "sparse", "spare-capacity"} {
		dn := dn
		ops := Ops(docs[dn]())
		sel := selectOps(ops, c.Thorough())
		c.Group("schedules-" + dn)
		c.Bound("schedules-"+dn, fmt.Sprintf("all %d unordered pairs (incl. twice the same) of %d operation instances on one shared document, both thread orders each", len(sel)*(len(sel)+1)/2, len(sel)))
		for a := 0; a < len(sel); a++ {
			if c.Expired() {
				c.Cap("deadline in schedules-" + dn)
				break
			}
			for b := a; b < len(sel); b++ {
				a, b := a, b
				c.Case(func() any { return map[string]string{"operand": dn, "T0": ops[sel[a]].Name, "T1": ops[sel[b]].Name} }, func(t *engine.T) *engine.Violation {
					var viol *engine.Violation
					var d, aux *sbom.Document
					n := sched.Explore(-1, func() []func() {
						d, aux = docs[dn](), docs["sparse"]()
						return []func(){func() { ops[sel[a]].Run(d, aux) }, func() { ops[sel[b]].Run(d, aux) }}
					}, func(x *sched.Exec) bool {
						t.Alive()
						t.Transitions(len(x.Points))
						if rs := sched.NewRaceReports(); len(rs) > 0 {
							viol = engine.Violate("data-race", opFamily(ops[sel[a]].Name)+"||"+opFamily(ops[sel[b]].Name), "%s || %s on shared document %s (thread order %v)\n%s", ops[sel[a]].Name, ops[sel[b]].Name, dn, x.Choices, rs[0].Text)
							k := confirmRace(dn, sel[a], sel[b], x.Choices, rs[0].Signature)
							viol.Detail = fmt.Sprintf("re-detected in %d of 8 fresh-process replays of this schedule\n%s", k, viol.Detail)
							viol.PreConfirmed = 1
							if k >= 1 {
								viol.PreConfirmed = 5 // ThreadSanitizer has no false positives; its re-detection of a pattern is probabilistic
							}
							return false
						}
						t.State(fmt.Sprintf("sched|%s|%s|%s|%v", dn, ops[sel[a]].Name, ops[sel[b]].Name, x.Choices))
						return true
					})
					if viol != nil {
						return viol
					}
					t.Validated(n)
					t.Outcome(fmt.Sprintf("race-free schedules=%d", n))
					return nil
				})
			}
		}
	}
}

// fineGrained: pairs of serializations of one shared document with the code-point seam switched on: every function
// entry and loop iteration of the library is a scheduling point, every schedule with one preemption is run. A thread
// can then be stopped right after it wrote something, before anything it does later (a pooled buffer handed back, a
// lock released) orders that write before the other thread's accesses - which is what makes ThreadSanitizer see
// unsynchronised state that whole-call interleavings only ever show in an accidentally ordered form.
func fineGrained(c *engine.Ctx) {
	c.Group("schedules-inside-calls")
	if vpoint.Sites == 0 {
		c.Note("code-point seam unavailable on this tree: interleavings inside calls are not explored (seam_points:false)")
		c.Selftest("seam_points", "false")
		c.Cap("code-point-seam-unavailable")
		return
	}
	c.Selftest("seam_points", fmt.Sprintf("true (sites=%d)", vpoint.Sites))
	docs := Docs()
	var count int
	for _, dn := range []string{"novel-values", "full-multiroot"} {
		dn := dn
		ops := Ops(docs[dn]())
		var ser []int
		for i, o := range ops {
			if strings.HasPrefix(o.Name, "serialize:") {
				ser = append(ser, i)
			}
		}
		for ai := 0; ai < len(ser); ai++ {
			for bi := ai; bi < len(ser); bi++ {
				a, b := ser[ai], ser[bi]
				count++
				c.Case(func() any {
					return map[string]string{"operand": dn, "T0": ops[a].Name, "T1": ops[b].Name, "points": "every function entry and loop iteration"}
				}, func(t *engine.T) *engine.Violation {
					var viol *engine.Violation
					var d, aux *sbom.Document
					vpoint.On = true
					defer func() { vpoint.On = false }()
					n := sched.Explore(1, func() []func() {
						vpoint.On = false
						d, aux = docs[dn](), docs["sparse"]()
						vpoint.On = true
						return []func(){func() { ops[a].Run(d, aux) }, func() { ops[b].Run(d, aux) }}
					}, func(x *sched.Exec) bool {
						t.Alive()
						t.Transitions(len(x.Points))
						if x.Deadlock || x.Diverged != "" {
							viol = engine.Violate("harness", "", "scheduler: deadlock=%v %s", x.Deadlock, x.Diverged)
							return false
						}
						if rs := sched.NewRaceReports(); len(rs) > 0 {
							viol = engine.Violate("data-race", opFamily(ops[a].Name)+"||"+opFamily(ops[b].Name), "%s || %s on shared document %s, preempted inside the call (choices %v)\n%s", ops[a].Name, ops[b].Name, dn, x.Choices, rs[0].Text)
							k := confirmRacePoints(dn, a, b, x.Choices)
							viol.Detail = fmt.Sprintf("re-detected in %d of 8 fresh-process replays of this schedule\n%s", k, viol.Detail)
							viol.PreConfirmed = 1
							if k >= 1 {
								viol.PreConfirmed = 5
							}
							return false
						}
						return true
					})
					if viol != nil {
						return viol
					}
					t.Validated(n)
					t.State(fmt.Sprintf("fine|%s|%d|%d", dn, a, b))
					t.Outcome(fmt.Sprintf("race-free inside calls"))
					return nil
				})
			}
		}
	}
	c.Bound("schedules-inside-calls", fmt.Sprintf("%d pairs of serializations (8 formats, incl. twice the same) on a shared document (values new to the process; fully populated) with every function entry and loop iteration of the library as a scheduling point, every schedule with <=1 preemption", count))
}

func confirmRacePoints(dn string, a, b int, choices []int) int {
	self, _ := os.Executable()
	n := 0
	for i := 0; i < 8; i++ {
		base := filepath.Join(os.Getenv("MCVERIF_SCRATCH"), fmt.Sprintf("tsanc11p-%d-%d", os.Getpid(), i))
		cmd := exec.Command(self, "--aux", "c11race", dn, fmt.Sprint(a), fmt.Sprint(b), fmt.Sprint(choices), "points")
		cmd.Env = append(os.Environ(), "GORACE=halt_on_error=0 log_path="+base, "MCVERIF_TSAN_LOG="+base)
		out, _ := cmd.CombinedOutput()
		if strings.Contains(string(out), "RACE:") {
			n++
		}
		if m, _ := filepath.Glob(base + ".*"); m != nil {
			for _, f := range m {
				os.Remove(f)
			}
		}
	}
	return n
}

// selectOps: quick = the first instance of every operation family plus every serializer; thorough = all instances.
var digits = regexp.MustCompile(`[0-9]+`)

func selectOps(ops []Op, thorough bool) []int {
	var sel []int
	seen := map[string]bool{}
	for i, o := range ops {
		// family = the operation name with indices and ids abstracted (nodes[0].Equal(nodes[1]) -> nodes[#].Equal(nodes[#]))
		fam := digits.ReplaceAllString(o.Name, "#")
		if i := strings.Index(fam, "("); i >= 0 && strings.HasPrefix(fam, "NodeList.") && !strings.Contains(fam, "self") && !strings.Contains(fam, "aux") && !strings.Contains(fam, "clone") && !strings.Contains(fam, "copy") && !strings.Contains(fam, "missing") {
			fam = fam[:i]
		}
		if thorough {
			if seen[o.Name] {
				continue
			}
			seen[o.Name] = true
			sel = append(sel, i)
			continue
		}
		if seen[fam] {
			continue
		}
		seen[fam] = true
		sel = append(sel, i)
	}
	sort.Ints(sel)
	return sel
}

func confirmRace(dn string, a, b int, choices []int, sig string) int {
	self, _ := os.Executable()
	n := 0
	for i := 0; i < 8; i++ {
		base := filepath.Join(os.Getenv("MCVERIF_SCRATCH"), fmt.Sprintf("tsanc11-%d-%d", os.Getpid(), i))
		cmd := exec.Command(self, "--aux", "c11race", dn, fmt.Sprint(a), fmt.Sprint(b), fmt.Sprint(choices))
		cmd.Env = append(os.Environ(), "GORACE=halt_on_error=0 log_path="+base, "MCVERIF_TSAN_LOG="+base)
		out, _ := cmd.CombinedOutput()
		if strings.Contains(string(out), "RACE:") { // any report of the replayed schedule confirms (the two stacks may be listed in either order)
			n++
		}
		if m, _ := filepath.Glob(base + ".*"); m != nil {
			for _, f := range m {
				os.Remove(f)
			}
		}
	}
	return n
}

// Aux replays one pair in one thread order in a fresh process.
func Aux(args []string) int {
	rw.SilenceStdout()
	dn := args[0]
	var a, b int
	fmt.Sscan(args[1], &a)
	fmt.Sscan(args[2], &b)
	var choices []int
	for _, f := range strings.Fields(strings.Trim(args[3], "[]")) {
		var x int
		fmt.Sscan(f, &x)
		choices = append(choices, x)
	}
	docs := Docs()
	ops := Ops(docs[dn]())
	_ = sched.NewRaceReports()
	d, aux := docs[dn](), docs["sparse"]()
	if len(args) > 4 && args[4] == "points" {
		vpoint.On = true
	}
	sched.Run([]func(){func() { ops[a].Run(d, aux) }, func() { ops[b].Run(d, aux) }}, choices)
	vpoint.On = false
	rs := sched.NewRaceReports()
	if len(rs) == 0 {
		fmt.Fprintln(os.Stderr, "NORACE")
	}
	for _, r := range rs {
		fmt.Fprintln(os.Stderr, "RACE:"+r.Signature)
	}
	return 0
}
