// Package c10: intersection obeys set-intersection laws.
package c10

import (
	"fmt"
	"time"

	"github.com/protobom/protobom/pkg/sbom"
	"google.golang.org/protobuf/reflect/protoreflect"

	"mcverif/engine"
	"mcverif/gen"
	"mcverif/props/c09"
	"mcverif/vmap"
)

var Spec = engine.Spec{
	ID: "C10", Run: Run, MapOrders: true, MapOrdersQuick: []int{vmap.Alternating}, QuickBud: 5 * time.Minute, ThorBud: 45 * time.Minute,
	Technique: "explicit enumeration of all ordered pairs of small node lists, ill-formed ones included; real Intersect (and Union for absorption) against set bounds; attribute cube by reflection over every Node field",
	Rule:      "case = ordered pair of list specs or one attribute-cube point; distinct state = pair of canonical list keys",
	Assume:    []string{"attribute rule excludes id and type", "roots/edges are bounded from both sides as the statement says; any result between the bounds is accepted"},
}

type pairDesc struct {
	A gen.ListSpec `json:"a"`
	B gen.ListSpec `json:"b"`
}

func Run(c *engine.Ctx) {
	// first, because it is small: a later group that exhausts the memory cap must not keep it from running
	c09.AfterEditGroup(c, "Intersect", c09.AfterEditLists(), func(a, b *sbom.NodeList) *sbom.NodeList { return a.Intersect(b) })
	L := c09.Lists(c.Thorough(), "pairs")
	c09.SameObjectGroup(c, "Intersect", L, func(a, b *sbom.NodeList) *sbom.NodeList { return a.Intersect(b) })
	c.Group("pairs")
	c.Bound("pairs", fmt.Sprintf("all %d x %d ordered pairs of list specs (same family as C09)", len(L), len(L)))
	for i := range L {
		if c.Expired() {
			break
		}
		for j := range L {
			A, B := L[i], L[j]
			c.Case(func() any { return pairDesc{A: A, B: B} }, func(t *engine.T) *engine.Violation { return pairCase(t, A, B) })
		}
	}
	for _, fam := range c09.Families {
		F := c09.Lists(c.Thorough(), fam)
		c.Group(fam)
		c.Bound(fam, fmt.Sprintf("all %d x %d ordered pairs of the %s family", len(F), len(F), fam))
		for i := range F {
			for j := range F {
				A, B := F[i], F[j]
				c.Case(func() any { return pairDesc{A: A, B: B} }, func(t *engine.T) *engine.Violation { return pairCase(t, A, B) })
			}
		}
	}
	// ill-formed operands in which two or three node objects carry one identifier, before, between and after the others;
	// the results are judged on the identifier sets (a repeated identifier may come back repeated)
	{
		c.Group("repeated-identifiers")
		var F []gen.ListSpec
		for _, seq := range [][]string{{"a", "a", "b"}, {"a", "b", "a"}, {"b", "a", "a"}, {"a", "b", "b"}, {"a", "a", "a", "b"}, {"a", "a"}, {"a", "b"}} {
			for _, roots := range [][]string{nil, {"a"}, {"b"}, {"a", "b"}, {"b", "a"}} {
				for _, el := range [][]gen.EdgeSpec{nil, {{From: "a", Type: sbom.Edge_contains, To: []string{"b"}}}, {{From: "b", Type: sbom.Edge_dependsOn, To: []string{"a"}}}} {
					F = append(F, gen.ListSpec{Nodes: seq, Roots: roots, Edges: el})
				}
			}
		}
		c.Bound("repeated-identifiers", fmt.Sprintf("all %d x %d ordered pairs of lists in which an identifier is carried by two or three node objects (7 node sequences x 5 root lists x 3 edge lists)", len(F), len(F)))
		for i := range F {
			for j := range F {
				A, B := F[i], F[j]
				c.Case(func() any { return pairDesc{A: A, B: B} }, func(t *engine.T) *engine.Violation {
					repeatedIDs = true
					defer func() { repeatedIDs = false }()
					return pairCase(t, A, B)
				})
			}
		}
	}
	attrCube(c)
	nearVersions(c)
	c.Group("attr-wide")
	for _, n := range []int{3, 6, 13, 20, 100, 515} {
		n := n
		c.Case(func() any { return map[string]int{"nodes-per-operand": n} }, func(t *engine.T) *engine.Violation {
			A, B := c09.WideAttrOperands(n)
			x := A.Intersect(B)
			t.Transitions(1)
			t.Validated(1)
			if len(x.Nodes) != n {
				return engine.Violate("intersect-nodes", "wide", "intersection of two %d-node lists over the same identifiers has %d nodes", n, len(x.Nodes))
			}
			for _, bn := range B.Nodes {
				xn := x.GetNodeByID(bn.Id)
				if xn == nil || xn.Name != bn.Name || xn.Version != bn.Version || xn.Hashes[1] != bn.Hashes[1] {
					return engine.Violate("intersect-precedence", "wide", "%d nodes per operand: node %s does not carry the second operand's values in the intersection", n, bn.Id)
				}
			}
			t.State(fmt.Sprint("attr-wide", n))
			t.Outcome("attr-wide-ok")
			return nil
		})
	}
	sameRuleAsUnion(c)
}

// sameRuleAsUnion: "attributes of surviving nodes follow the same rule as union" -- for a shared node every field,
// the node type included, must come out of Intersect exactly as it comes out of Union (whatever that rule is for type).
func sameRuleAsUnion(c *engine.Ctx) {
	c.Group("same-rule-as-union")
	all := gen.Fields(&sbom.Node{})
	for ta := 0; ta < 2; ta++ {
		for tb := 0; tb < 2; tb++ {
			for bg := 0; bg < 2; bg++ {
				ta, tb, bg := ta, tb, bg
				c.Case(func() any { return map[string]any{"A.type": ta, "B.type": tb, "populated": bg == 1} }, func(t *engine.T) *engine.Violation {
					mk := func(ty int, tag string, k int) *sbom.NodeList {
						n := &sbom.Node{}
						if bg == 1 {
							gen.Full(n, tag, 2)
						}
						n.Id, n.Type = "shared", sbom.Node_NodeType(ty)
						return &sbom.NodeList{Nodes: []*sbom.Node{n}}
					}
					x := mk(ta, "A", 1).Intersect(mk(tb, "B", 2))
					u := mk(ta, "A", 1).Union(mk(tb, "B", 2))
					t.Transitions(2)
					t.Validated(1)
					xn, un := x.GetNodeByID("shared"), u.GetNodeByID("shared")
					if xn == nil || un == nil {
						return engine.Violate("intersect-nodes", "same-rule", "shared node missing")
					}
					for _, fd := range all {
						if a, b := gen.FieldSnap(xn, fd), gen.FieldSnap(un, fd); a != b {
							return engine.Violate("intersect-same-rule-as-union", string(fd.Name()), "field %s of the shared node: Intersect gives %q, Union gives %q (A.type=%d B.type=%d)", fd.Name(), a, b, ta, tb)
						}
					}
					t.State(fmt.Sprintf("samerule|%d|%d|%d", ta, tb, bg))
					t.Outcome("same-rule-ok")
					return nil
				})
			}
		}
	}
}

// repeatedIDs is set by the cases of the repeated-identifiers group (one case at a time per worker process).
var repeatedIDs bool

func pairCase(t *engine.T, A, B gen.ListSpec) *engine.Violation {
	a, b := gen.SpareList(A.Build()), gen.SpareList(B.Build())
	ma, mb := gen.ModelOf(a), gen.ModelOf(b)
	x := a.Intersect(b)
	t.Transitions(1)
	t.Validated(1)
	if x == nil {
		return engine.Violate("intersect-nodes", "", "nil result")
	}
	mx := gen.ModelOf(x)
	// nodes: exactly those present in both
	for id := range ma.Nodes {
		if (mb.Nodes[id] > 0) != (mx.Nodes[id] > 0) {
			return engine.Violate("intersect-nodes", "", "node %s: inA=true inB=%v inResult=%v", id, mb.Nodes[id] > 0, mx.Nodes[id] > 0)
		}
	}
	for id, k := range mx.Nodes {
		if ma.Nodes[id] == 0 || mb.Nodes[id] == 0 {
			return engine.Violate("intersect-nodes", "", "node %s in result but not in both operands", id)
		}
		if k != 1 && !repeatedIDs {
			return engine.Violate("intersect-nodes", "dup", "node %s appears %d times", id, k)
		}
	}
	// roots
	for r := range mx.Roots {
		if mx.Nodes[r] == 0 {
			return engine.Violate("intersect-roots-upper", "", "root %s is not a surviving node", r)
		}
		if ma.Roots[r] == 0 && mb.Roots[r] == 0 {
			return engine.Violate("intersect-roots-upper", "", "root %s is a root of neither operand", r)
		}
	}
	for r := range ma.Roots {
		if mb.Roots[r] > 0 && mx.Nodes[r] > 0 && mx.Roots[r] == 0 {
			return engine.Violate("intersect-roots-lower", "", "%s is a root of both operands and survives but is not a root of the result", r)
		}
	}
	// edges
	for e := range mx.Edges {
		if ma.Edges[e] == 0 && mb.Edges[e] == 0 {
			return engine.Violate("intersect-edges-upper", "", "edge %s found in neither operand", e)
		}
		if mx.Nodes[e.From] == 0 || mx.Nodes[e.To] == 0 {
			return engine.Violate("intersect-edges-upper", "", "edge %s has a non-surviving endpoint", e)
		}
	}
	for e := range ma.Edges {
		if mb.Edges[e] > 0 && mx.Nodes[e.From] > 0 && mx.Nodes[e.To] > 0 && mx.Edges[e] == 0 {
			return engine.Violate("intersect-edges-lower", "", "edge %s found in both operands with surviving endpoints is missing", e)
		}
	}
	// the owner of the result uses it (adds a node, an edge, a root); what later calls return is not affected
	c09.UseResult(x)
	if again := a.Intersect(b); gen.ModelOf(again).SetKey() != mx.SetKey() {
		return engine.Violate("intersect-nodes", "after-result-used", "A∩B computed again after the first result was edited by its owner = %s, before = %s", gen.ModelOf(again).SetKey(), mx.SetKey())
	}
	t.Transitions(1)
	// commutative on the three sets
	y := B.Build().Intersect(A.Build())
	t.Transitions(1)
	if ky := gen.ModelOf(y).SetKey(); ky != mx.SetKey() {
		return engine.Violate("intersect-commutative", "", "A∩B = %s\nB∩A = %s", mx.SetKey(), ky)
	}
	// absorption: nodes(A ∩ (A ∪ B)) = nodes(A)
	u := A.Build().Union(B.Build())
	z := A.Build().Intersect(u)
	t.Transitions(2)
	mz := gen.ModelOf(z)
	if len(mz.Nodes) != len(ma.Nodes) {
		return engine.Violate("intersect-absorption", "", "nodes(A∩(A∪B)) = %v, nodes(A) = %v", gen.SortedIDs(mz.Nodes), gen.SortedIDs(ma.Nodes))
	}
	for id := range ma.Nodes {
		if mz.Nodes[id] == 0 {
			return engine.Violate("intersect-absorption", "", "node %s of A missing from A∩(A∪B)", id)
		}
	}
	if A.String() == B.String() {
		// idempotent (follows from the bounds, asserted on nodes explicitly) and empty
		e1 := A.Build().Intersect(&sbom.NodeList{})
		e2 := (&sbom.NodeList{}).Intersect(A.Build())
		e3 := A.Build().Intersect(sbom.NewNodeList())
		t.Transitions(3)
		for i, e := range []*sbom.NodeList{e1, e2, e3} {
			if e == nil || len(e.Nodes) != 0 || len(e.Edges) != 0 || len(e.RootElements) != 0 {
				return engine.Violate("intersect-empty", "", "form %d: intersection with the empty list is not empty: %s", i, gen.CanonKey(e))
			}
		}
	}
	t.Observe(mx.SetKey())
	t.State(gen.CanonKey(a) + " I " + gen.CanonKey(b))
	t.Outcome(fmt.Sprintf("n=%d e=%d r=%d", len(mx.Nodes), len(mx.Edges), len(mx.Roots)))
	if len(mx.Nodes) > 0 {
		t.NonTrivial()
	}
	return nil
}

// nearVersions: the two operands hold versions of the shared node that are one single-field deviation
// apart - reorderings of set-valued lists and sub-second date changes (which the library's own
// equality cannot see) included. The precedence rule is judged field by field on exact snapshots.
func nearVersions(c *engine.Ctx) {
	c.Group("attr-near-versions")
	fds := gen.FieldsExcept(&sbom.Node{}, "id", "type")
	base := func() *sbom.Node {
		n := &sbom.Node{}
		gen.Full(n, "S", 3)
		n.Id = "shared"
		return n
	}
	devs := gen.Deviations(base(), 2)
	c.Bound("attr-near-versions", fmt.Sprintf("shared node with every field set (3-element lists); %d single-field deviations (nested to depth 2; content changes, reorderings, sub-second) applied to the first or to the second operand's version", len(devs)))
	for di := range devs {
		for side := 0; side < 2; side++ {
			di, side := di, side
			c.Case(func() any {
				return map[string]any{"deviation": devs[di].Label, "kind": devs[di].Kind, "deviated-operand": []string{"first", "second"}[side]}
			}, func(t *engine.T) *engine.Violation {
				mk := func() (*sbom.NodeList, *sbom.NodeList) {
					na, nb := base(), base()
					if side == 0 {
						devs[di].Mutate(na.ProtoReflect())
					} else {
						devs[di].Mutate(nb.ProtoReflect())
					}
					na.Id, nb.Id = "shared", "shared"
					return &sbom.NodeList{Nodes: []*sbom.Node{{Id: "other-a"}, na}, RootElements: []string{"shared"}}, &sbom.NodeList{Nodes: []*sbom.Node{nb, {Id: "other-b"}}}
				}
				A, B := mk()
				na, nb := A.Nodes[1], B.Nodes[0]
				if na.Id != "shared" || nb.Id != "shared" {
					t.Outcome("near:key-deviation-skipped")
					return nil
				}
				pick := func(first, second string) string {
					if second != "" {
						return second
					}
					return first
				}
				want := map[string]string{}
				for _, fd := range fds {
					want[string(fd.Name())] = pick(gen.FieldSnap(na, fd), gen.FieldSnap(nb, fd))
				}
				x := A.Intersect(B)
				t.Transitions(1)
				t.Validated(1)
				xn := x.GetNodeByID("shared")
				if xn == nil || len(x.Nodes) != 1 {
					return engine.Violate("intersect-nodes", "cube", "intersection should hold exactly the shared node")
				}
				for _, fd := range fds {
					if got := gen.FieldSnap(xn, fd); got != want[string(fd.Name())] {
						return engine.Violate("intersect-precedence", "", "field %s: intersection has %q, want %q (second operand wins when non-empty)", fd.Name(), got, want[string(fd.Name())])
					}
				}
				t.State(fmt.Sprintf("near:%s:%d", devs[di].Label, side))
				t.Outcome("near:" + devs[di].Kind)
				return nil
			})
		}
	}
}

func attrCube(c *engine.Ctx) {
	c.Group("attr-cube")
	fds := gen.FieldsExcept(&sbom.Node{}, "id", "type")
	c.Bound("attr-cube", fmt.Sprintf("%d attributes by reflection: every unordered pair (incl. f=g) x 16 emptiness combinations x 2 backgrounds", len(fds)))
	for fi := range fds {
		for gi := fi; gi < len(fds); gi++ {
			for combo := 0; combo < 16; combo++ {
				for bg := 0; bg < 4; bg++ {
					f, g, combo, bg := fds[fi], fds[gi], combo, bg
					c.Case(func() any {
						return map[string]any{"f": f.Name(), "g": g.Name(), "A.f,B.f,A.g,B.g set": fmt.Sprintf("%04b", combo), "background-populated": bg&1 == 1, "empty-collections-allocated": bg&2 != 0}
					}, func(t *engine.T) *engine.Violation {
						allocatedEmpty = bg&2 != 0
						defer func() { allocatedEmpty = false }()
						return cubeCase(t, fds, f, g, combo, bg&1 == 1)
					})
				}
			}
		}
	}
}

// allocatedEmpty: see c09.AllocatedEmpty.
var allocatedEmpty bool

func mkNode(fds []protoreflect.FieldDescriptor, f, g protoreflect.FieldDescriptor, setF, setG bool, k int, tag string, bg bool) *sbom.Node {
	n := &sbom.Node{Id: "shared"}
	r := n.ProtoReflect()
	for _, fd := range fds {
		switch {
		case fd == f:
			if setF {
				gen.SetField(r, fd, k, tag)
			}
		case fd == g:
			if setG {
				gen.SetField(r, fd, k, tag)
			}
		default:
			if bg {
				gen.SetField(r, fd, k, tag)
			}
		}
	}
	if allocatedEmpty {
		gen.AllocateEmpty(n)
	}
	return n
}

func cubeCase(t *engine.T, fds []protoreflect.FieldDescriptor, f, g protoreflect.FieldDescriptor, combo int, bg bool) *engine.Violation {
	af, bf, ag, bgSet := combo&8 != 0, combo&4 != 0, combo&2 != 0, combo&1 != 0
	na := mkNode(fds, f, g, af, ag, 1, "A", bg)
	nb := mkNode(fds, f, g, bf, bgSet, 2, "B", bg)
	A := &sbom.NodeList{Nodes: []*sbom.Node{{Id: "other-a"}, na}, RootElements: []string{"shared"}}
	B := &sbom.NodeList{Nodes: []*sbom.Node{nb, {Id: "other-b"}}}
	want := map[string]string{}
	for _, fd := range fds {
		av, bv := gen.FieldSnap(na, fd), gen.FieldSnap(nb, fd)
		if bv != "" {
			want[string(fd.Name())] = bv
		} else {
			want[string(fd.Name())] = av
		}
	}
	x := A.Intersect(B)
	t.Transitions(1)
	t.Validated(1)
	xn := x.GetNodeByID("shared")
	if xn == nil || len(x.Nodes) != 1 {
		return engine.Violate("intersect-nodes", "cube", "intersection should hold exactly the shared node")
	}
	for _, fd := range fds {
		if got := gen.FieldSnap(xn, fd); got != want[string(fd.Name())] {
			return engine.Violate("intersect-precedence", "", "field %s: intersection has %q, want %q (second operand wins when non-empty)", fd.Name(), got, want[string(fd.Name())])
		}
	}
	t.State(fmt.Sprintf("cube:%s:%s:%d:%v", f.Name(), g.Name(), combo, bg))
	t.Outcome(fmt.Sprintf("cube combo=%04b", combo))
	return nil
}
