package c04

import (
	"encoding/json"
	"fmt"
	"reflect"
	"sort"
	"strings"

	cdx "github.com/CycloneDX/cyclonedx-go"
	"github.com/spdx/tools-golang/spdx/v2/v2_3"

	"mcverif/engine"
	"mcverif/jsonfault"
)

// Members the decoders accept but the representative documents do not contain.
//
// The schema-fault groups only visit paths that exist in the base documents. The set of members a parser can be
// made to read is larger: it is the set of JSON-tagged fields of the decoder's own Go types (tools-golang's
// v2_3.Document, cyclonedx-go's BOM). This group walks each base document together with the decoder type, and
// at every object inserts every tagged member the object lacks, with each of a small value menu (null, a list
// holding null, empty containers, wrong scalar types, a list holding an empty object). Enumerated by reflection,
// so members the libraries add later are covered.

var memberValues = []string{`null`, `[null]`, `[]`, `{}`, `"x"`, `1`, `true`, `[{}]`, `[[]]`, `{"a":null}`}

type insertion struct {
	Path  jsonfault.Path // path of the object (nil = the root)
	Label string
	Key   string
}

func jsonKey(f reflect.StructField) string {
	tag := f.Tag.Get("json")
	if tag == "-" || !f.IsExported() {
		return ""
	}
	name := strings.Split(tag, ",")[0]
	if name == "" {
		name = f.Name
	}
	return name
}

func deref(t reflect.Type) reflect.Type {
	for t.Kind() == reflect.Ptr || t.Kind() == reflect.Slice || t.Kind() == reflect.Array {
		t = t.Elem()
	}
	return t
}

// missingMembers walks node (a JSON value) along type t and collects the members each object lacks.
func missingMembers(node *jsonfault.Node, t reflect.Type, path jsonfault.Path, label string, out *[]insertion) {
	t = deref(t)
	switch node.Kind {
	case jsonfault.Array:
		for i, e := range node.Elems {
			if i > 0 {
				break // the first element of every list is representative of its type
			}
			missingMembers(e, t, append(append(jsonfault.Path{}, path...), i), fmt.Sprintf("%s/%d", label, i), out)
		}
	case jsonfault.Object:
		if t.Kind() != reflect.Struct {
			return
		}
		have := map[string]int{}
		for i, k := range node.Keys {
			have[k] = i
		}
		var keys []string
		fields := map[string]reflect.Type{}
		var collect func(st reflect.Type)
		collect = func(st reflect.Type) {
			for i := 0; i < st.NumField(); i++ {
				f := st.Field(i)
				if f.Anonymous && deref(f.Type).Kind() == reflect.Struct && f.Tag.Get("json") == "" {
					collect(deref(f.Type))
					continue
				}
				if k := jsonKey(f); k != "" {
					if _, dup := fields[k]; !dup {
						keys = append(keys, k)
					}
					fields[k] = f.Type
				}
			}
		}
		collect(t)
		sort.Strings(keys)
		for _, k := range keys {
			if i, ok := have[k]; ok {
				missingMembers(node.Elems[i], fields[k], append(append(jsonfault.Path{}, path...), i), label+"/"+k, out)
			} else {
				*out = append(*out, insertion{Path: append(jsonfault.Path{}, path...), Label: label, Key: k})
			}
		}
	}
}

func insertMember(root *jsonfault.Node, ins insertion, raw string) string {
	c := root.Clone()
	o := c
	for _, i := range ins.Path {
		o = o.Elems[i]
	}
	o.Keys = append(o.Keys, ins.Key)
	o.Elems = append(o.Elems, &jsonfault.Node{Raw: raw})
	return c.String()
}

func decoderMembers(c *engine.Ctx) {
	for _, b := range []struct {
		name, text string
		typ        reflect.Type
	}{{"spdx23", BaseSPDX, reflect.TypeOf(v2_3.Document{})}, {"cdx15", BaseCDX, reflect.TypeOf(cdx.BOM{})}} {
		root, err := jsonfault.Parse([]byte(b.text))
		if err != nil {
			c.Note("harness: base document does not parse: " + err.Error())
			continue
		}
		var ins []insertion
		missingMembers(root, b.typ, nil, "", &ins)
		c.Group(b.name + "-decoder-members")
		c.Bound(b.name+"-decoder-members", fmt.Sprintf("%d members that the decoder's types (%s, by reflection) accept and the base document lacks, at the object they belong to, x %d values %v", len(ins), b.typ, len(memberValues), memberValues))
		for ii := range ins {
			for vi := range memberValues {
				ii, vi, b := ii, vi, b
				c.Case(func() any {
					return map[string]string{"base": b.name, "object": ins[ii].Label, "member": ins[ii].Key, "value": memberValues[vi]}
				}, func(t *engine.T) *engine.Violation {
					in := insertMember(root, ins[ii], memberValues[vi])
					if !json.Valid([]byte(in)) {
						return engine.Violate("harness", "", "insertion produced invalid JSON")
					}
					t.State(fmt.Sprintf("%s|%s|%s|%d", b.name, ins[ii].Label, ins[ii].Key, vi))
					return probe(t, []byte(in), false)
				})
			}
		}
	}
}
