package c04

// BaseSPDX is a schema-valid SPDX 2.3 document in which every member the
// unserializer reads occurs at least once.
const BaseSPDX = `{
 "spdxVersion": "SPDX-2.3",
 "dataLicense": "CC0-1.0",
 "SPDXID": "SPDXRef-DOCUMENT",
 "name": "base",
 "documentNamespace": "https://example.com/ns/base",
 "comment": "doc comment",
 "creationInfo": {
  "licenseListVersion": "3.20",
  "creators": ["Tool: t-1", "Organization: O", "Person: P (p@example.com)"],
  "created": "2023-11-15T20:34:58Z"
 },
 "documentDescribes": ["SPDXRef-p1"],
 "packages": [
  {
   "name": "p1", "SPDXID": "SPDXRef-p1", "versionInfo": "1.0", "packageFileName": "p1.tgz",
   "supplier": "Organization: ACME (a@example.com)", "originator": "Person: Joe",
   "downloadLocation": "https://example.com/p1.tgz", "filesAnalyzed": true,
   "packageVerificationCode": {"packageVerificationCodeValue": "d6a770ba38583ed4bb4525bd96e50461655d2758"},
   "checksums": [{"algorithm": "SHA256", "checksumValue": "aa"}, {"algorithm": "SHA1", "checksumValue": "bb"}],
   "homepage": "https://example.com", "sourceInfo": "src", "licenseConcluded": "MIT",
   "licenseInfoFromFiles": ["MIT"], "licenseDeclared": "MIT", "licenseComments": "lc",
   "copyrightText": "(c) X", "summary": "s", "description": "d", "comment": "c",
   "externalRefs": [
    {"referenceCategory": "PACKAGE-MANAGER", "referenceType": "purl", "referenceLocator": "pkg:apk/w/p1@1.0", "comment": "rc"},
    {"referenceCategory": "SECURITY", "referenceType": "cpe23Type", "referenceLocator": "cpe:2.3:a:x:p1:1.0:*:*:*:*:*:*:*"},
    {"referenceCategory": "OTHER", "referenceType": "other-thing", "referenceLocator": "loc"}
   ],
   "attributionTexts": ["attr"], "primaryPackagePurpose": "LIBRARY",
   "releaseDate": "2023-11-15T20:34:58Z", "builtDate": "2023-11-14T20:34:58Z", "validUntilDate": "2033-11-15T20:34:58Z",
   "hasFiles": ["SPDXRef-f1"],
   "annotations": [{"annotator": "Person: A", "annotationDate": "2023-11-15T20:34:58Z", "annotationType": "OTHER", "comment": "ac"}]
  },
  {"name": "p2", "SPDXID": "SPDXRef-p2", "downloadLocation": "NOASSERTION"}
 ],
 "files": [
  {
   "fileName": "./f1", "SPDXID": "SPDXRef-f1", "fileTypes": ["SOURCE"],
   "checksums": [{"algorithm": "SHA1", "checksumValue": "cc"}],
   "licenseConcluded": "MIT", "licenseInfoInFiles": ["MIT"], "licenseComments": "flc",
   "copyrightText": "NONE", "comment": "fc", "noticeText": "n", "fileContributors": ["x"], "attributionTexts": ["fa"]
  }
 ],
 "relationships": [
  {"spdxElementId": "SPDXRef-DOCUMENT", "relationshipType": "DESCRIBES", "relatedSpdxElement": "SPDXRef-p1"},
  {"spdxElementId": "SPDXRef-p1", "relationshipType": "CONTAINS", "relatedSpdxElement": "SPDXRef-f1", "comment": "relc"},
  {"spdxElementId": "SPDXRef-p1", "relationshipType": "DEPENDS_ON", "relatedSpdxElement": "SPDXRef-p2"}
 ]
}`

// BaseCDX is a schema-valid CycloneDX 1.5 document exercising every member the unserializer reads.
const BaseCDX = `{
 "bomFormat": "CycloneDX",
 "specVersion": "1.5",
 "serialNumber": "urn:uuid:3e671687-395b-41f5-a30f-a58921a69b79",
 "version": 2,
 "metadata": {
  "timestamp": "2023-11-15T20:34:58Z",
  "lifecycles": [{"phase": "build"}, {"name": "custom", "description": "cd"}],
  "tools": [{"vendor": "v", "name": "t", "version": "1"}],
  "authors": [{"name": "A", "email": "a@example.com", "phone": "1"}],
  "component": {
   "bom-ref": "root", "type": "application", "name": "app", "version": "1.0", "description": "rd", "copyright": "(c)",
   "cpe": "cpe:2.3:a:x:app:1.0:*:*:*:*:*:*:*", "purl": "pkg:generic/app@1.0",
   "hashes": [{"alg": "SHA-256", "content": "aa"}],
   "licenses": [{"license": {"id": "MIT"}}],
   "supplier": {"name": "S", "url": ["https://s"], "contact": [{"name": "C", "email": "c@example.com"}]},
   "externalReferences": [{"type": "vcs", "url": "https://git", "comment": "ec", "hashes": [{"alg": "SHA-1", "content": "bb"}]}],
   "components": [
    {"bom-ref": "inner", "type": "library", "name": "inner", "version": "0.1",
     "components": [{"type": "file", "name": "leaf"}]}
   ]
  }
 },
 "components": [
  {"bom-ref": "c1", "type": "library", "name": "c1", "version": "2", "purl": "pkg:npm/c1@2",
   "licenses": [{"expression": "MIT OR Apache-2.0"}], "hashes": [{"alg": "MD5", "content": "cc"}]},
  {"bom-ref": "c2", "type": "container", "name": "c2", "cpe": "cpe:/a:x:c2",
   "licenses": [{"license": {"name": "Custom"}}, {"license": {"id": "ISC"}}],
   "components": [{"bom-ref": "c2-1", "type": "operating-system", "name": "os"}]},
  {"type": "data", "name": "noref"}
 ],
 "dependencies": [{"ref": "root", "dependsOn": ["c1", "c2"]}, {"ref": "c1", "dependsOn": []}]
}`
