// Package c04: parsers are total on untrusted input.
package c04

import (
	"bytes"
	"context"
	"encoding/json"
	"fmt"
	"github.com/sirupsen/logrus"
	"os"
	"os/exec"
	"strconv"
	"strings"
	"syscall"
	"time"

	"google.golang.org/protobuf/proto"

	"github.com/protobom/protobom/pkg/formats"
	"github.com/protobom/protobom/pkg/sbom"

	"mcverif/engine"
	"mcverif/gen"
	"mcverif/jsonfault"
	"mcverif/props/c05"
	"mcverif/rw"
)

var Spec = engine.Spec{
	ID: "C04", Run: Run, QuickBud: 6 * time.Minute, ThorBud: 40 * time.Minute,
	Technique: "exhaustive schema-fault enumeration: every single fault and every pair of faults (13-entry menu) at every JSON path of a representative SPDX 2.3 and CycloneDX 1.5 document, and every byte string of <= L tokens over a JSON/SBOM token alphabet, through Sniffer.SniffReader, ParseStream and ParseStreamWithOptions for each of the 7 registered formats, under recover with a per-case watchdog",
	Rule:      "case = (base document, fault set of size 1..2 at distinct non-nested paths) or one token string; distinct state = the mutated input text; outcome = document xor error",
	Assume:    []string{"'time polynomial in the input size' is only probed by oversized faults (1e4-element arrays, 1e4/1e6-deep nesting) under an absolute per-case deadline", "third-party decoders are exercised, not instrumented"},
}

func checkParse(what string, doc *sbom.Document, err error) *engine.Violation {
	switch {
	case err == nil && doc == nil:
		return engine.Violate("neither", what, "%s returned neither a document nor an error", what)
	case err != nil && doc != nil:
		return engine.Violate("both", what, "%s returned both a document and an error: %v", what, err)
	case err == nil && (doc.Metadata == nil || doc.NodeList == nil):
		return engine.Violate("incomplete-document", what, "%s returned a document without metadata or node list", what)
	}
	return nil
}

// probe runs detection and the auto-detecting parser (and optionally every explicit format) on input.
func probe(t *engine.T, in []byte, explicit bool) *engine.Violation {
	f, err := rw.Sniff(bytes.NewReader(in))
	t.Transitions(1)
	if (err == nil) == (f == "") {
		return engine.Violate("sniff-both-or-neither", "", "SniffReader returned format %q and error %v", f, err)
	}
	doc, perr := rw.Read(in)
	t.Transitions(1)
	if v := checkParse("ParseStream", doc, perr); v != nil {
		return v
	}
	out := "error"
	if perr == nil {
		out = "document"
	}
	if err != nil && perr == nil {
		return engine.Violate("parsed-undetected", "", "detection failed (%v) but ParseStream returned a document", err)
	}
	if explicit {
		for _, ef := range rw.DefaultFormats {
			d2, e2 := rw.ReadAs(in, ef)
			t.Transitions(1)
			if v := checkParse("ParseStreamWithOptions("+string(ef)+")", d2, e2); v != nil {
				return v
			}
		}
	}
	t.Outcome(fmt.Sprintf("detect=%v parse=%s", err == nil, out))
	return nil
}

func lastSeg(label string) string {
	parts := strings.Split(label, "/")
	for i := len(parts) - 1; i >= 0; i-- {
		if _, err := strconv.Atoi(parts[i]); err != nil {
			return parts[i]
		}
	}
	return label
}

const (
	childDeadline = 20 * time.Minute
	childCPU      = 150 // seconds of processor time
	childMemLimit = 3 << 30
)

// probeInChild runs probe on the input in a fresh process under RLIMIT_AS and an absolute deadline.
func probeInChild(t *engine.T, in []byte, trigger string) *engine.Violation {
	return probeInChildCPU(t, in, trigger, childCPU)
}

// probeInChildCPU: as probeInChild with a processor-time limit of the caller's choosing (seconds).
func probeInChildCPU(t *engine.T, in []byte, trigger string, cpu int) *engine.Violation {
	dir := os.Getenv("MCVERIF_SCRATCH")
	f, err := os.CreateTemp(dir, "c04-in-*")
	if err != nil {
		return engine.Violate("harness", "", "temp file: %v", err)
	}
	defer os.Remove(f.Name())
	_, _ = f.Write(in)
	f.Close()
	self, _ := os.Executable()
	// the child stops itself after childCPU seconds of processor time (RLIMIT_CPU, set in Aux) or at its address-space
	// limit: both are independent of the load on the machine. The wall-clock deadline is only a backstop, and the
	// waiting case keeps the watchdog informed.
	ctx, cancel := context.WithTimeout(context.Background(), childDeadline)
	defer cancel()
	var out []byte
	done := make(chan struct{})
	go func() {
		out, err = exec.CommandContext(ctx, self, "--aux", "c04probe", f.Name(), fmt.Sprint(cpu)).CombinedOutput()
		close(done)
	}()
	for waiting := true; waiting; {
		select {
		case <-done:
			waiting = false
		case <-time.After(time.Second):
			engine.Beat()
		}
	}
	t.Transitions(1)
	if ctx.Err() != nil {
		return engine.Violate("resource-exhaustion", trigger, "parsing a %d-byte input did not finish within %s (absolute deadline)", len(in), childDeadline)
	}
	if err != nil {
		tail := string(out)
		if len(tail) > 400 {
			tail = tail[:400]
		}
		return engine.Violate("resource-exhaustion", trigger, "parsing a %d-byte input aborted the process under a %d MiB address-space limit (%v): %s", len(in), childMemLimit>>20, err, tail)
	}
	res := strings.TrimSpace(string(out))
	if strings.HasPrefix(res, "VIOLATION|") {
		p := strings.SplitN(res, "|", 4)
		return &engine.Violation{Clause: p[1], Trigger: p[2], Detail: p[3]}
	}
	t.Outcome("oversized:" + res)
	return nil
}

// Aux is the child entry: probe one input file under an address-space limit.
func Aux(args []string) int {
	rw.SilenceStdout()
	var lim syscall.Rlimit
	lim.Cur, lim.Max = childMemLimit, childMemLimit
	_ = syscall.Setrlimit(syscall.RLIMIT_AS, &lim)
	cpu := uint64(childCPU)
	if len(args) > 1 {
		if v, err := strconv.ParseUint(args[1], 10, 64); err == nil && v > 0 {
			cpu = v
		}
	}
	_ = syscall.Setrlimit(syscall.RLIMIT_CPU, &syscall.Rlimit{Cur: cpu, Max: cpu + 5})
	in, err := os.ReadFile(args[0])
	if err != nil {
		return 2
	}
	c := engine.NewCtx("C04", "quick", 0, 1, "", time.Hour)
	var res string
	c.Case(func() any { return "child" }, func(t *engine.T) *engine.Violation {
		v := probe(t, in, true)
		if v != nil {
			res = fmt.Sprintf("VIOLATION|%s|%s|%s", v.Clause, v.Trigger, strings.ReplaceAll(v.Detail, "\n", " "))
		}
		return v
	})
	if res == "" {
		res = "ok"
		for k := range c.ResultForOutput().Outcomes {
			res = k
		}
		for _, v := range c.ResultForOutput().Violations {
			res = fmt.Sprintf("VIOLATION|%s|%s|%s", v.Clause, v.Trigger, strings.ReplaceAll(v.Detail, "\n", " "))
		}
	}
	fmt.Fprintln(os.Stderr, res)
	return 0
}

// adversarial string contents: every string-valued member of the base documents is replaced by
// every entry of this menu (structural characters of the actor / identifier / date / reference
// mini-syntaxes the unserializers parse, sentinels, empty, blanks, control and non-ASCII text).
var stringMenu = []string{
	"", " ", "\t\n", "(", ")", ")(", "()", "a) b (c)", "x (y) z (w)", "Organization: ACME (Holdings) Ltd. (legal@acme.example)", "Person: J) Doe (jd@example.com)",
	"Person:", "Organization: ", "Tool: ", ": ", ":", "a:b:c", "NOASSERTION", "NONE", "SPDXRef-", "SPDXRef-DOCUMENT", "DocumentRef-x:SPDXRef-y", "DocumentRef-:", "SPDXRef-a b",
	"pkg:", "pkg:/", "cpe:2.3:", "cpe:/", "2023-13-45T99:99:99Z", "0000-00-00T00:00:00Z", "2023-11-15", "-1", "1e999", "\u0000", "\u00e9\u2713\U0001F600", "%s%d%v", "../../etc/passwd", "urn:uuid:", "urn:uuid:zz",
	"SHA256", "sha-256", "MD7", "OTHER", "other", "DESCRIBES", "describes", "CONTAINS ", "library", "LIBRARY", "operating-system", "1.5", "SPDX-2.3", "CycloneDX",
}

// derived returns the near-misses of a valid member value: every proper prefix and suffix that ends /
// starts at a separator (with and without the separator), every prefix of <=3 characters, the value
// doubled, with a trailing separator, with one more segment, and in the other letter case.
func derived(v string) []string {
	seen := map[string]bool{v: true}
	var out []string
	add := func(s string) {
		if !seen[s] {
			seen[s] = true
			out = append(out, s)
		}
	}
	const seps = ".:-/@ T+_;,=#?()"
	r := []rune(v)
	for i := range r {
		if i > 0 && i <= 3 {
			add(string(r[:i]))
		}
		if strings.ContainsRune(seps, r[i]) {
			add(string(r[:i]))
			add(string(r[:i+1]))
			add(string(r[i:]))
			add(string(r[i+1:]))
		}
	}
	add(v + v)
	add(strings.ToUpper(v))
	add(strings.ToLower(v))
	for _, s := range []string{".1", ":x"} {
		add(v + s)
		add(s + v)
	}
	// every punctuation character once and doubled, at either end
	for _, c := range ".:-/@ +_;,=#?()[]{}%&*!~|\\'<>$^" {
		s := string(c)
		add(v + s)
		add(v + s + s)
		add(s + v)
		add(s + s + v)
	}
	return out
}

func stringValues(c *engine.Ctx, name string, root *jsonfault.Node, paths []jsonfault.Path, labels []string) {
	c.Group(name + "-string-derived")
	nd := 0
	for pi := range paths {
		par := root
		for _, i := range paths[pi][:len(paths[pi])-1] {
			par = par.Elems[i]
		}
		el := par.Elems[paths[pi][len(paths[pi])-1]]
		if el.Kind != jsonfault.Scalar || !strings.HasPrefix(el.Raw, `"`) {
			continue
		}
		var orig string
		if json.Unmarshal([]byte(el.Raw), &orig) != nil {
			continue
		}
		for _, dv := range derived(orig) {
			pi, dv := pi, dv
			nd++
			c.Case(func() any { return map[string]string{"base": name, "path": labels[pi], "original": orig, "string": dv} }, func(t *engine.T) *engine.Violation {
				rb, _ := json.Marshal(dv)
				raw := string(rb)
				f := jsonfault.Fault{Name: "string", Apply: func(p *jsonfault.Node, i int) { p.Elems[i] = &jsonfault.Node{Raw: raw} }}
				in, _ := jsonfault.Mutate(root, []jsonfault.Path{paths[pi]}, []jsonfault.Fault{f})
				t.State(fmt.Sprintf("%s|%s|derived|%s", name, labels[pi], dv))
				return probe(t, []byte(in), false)
			})
		}
	}
	// members that hold one value of a closed value set of the format (checksum algorithm, relationship type, component
	// type, reference type ...: the const blocks of the two format libraries) take every other value of that set
	ne := 0
	for pi := range paths {
		par := root
		for _, i := range paths[pi][:len(paths[pi])-1] {
			par = par.Elems[i]
		}
		el := par.Elems[paths[pi][len(paths[pi])-1]]
		if el.Kind != jsonfault.Scalar || !strings.HasPrefix(el.Raw, `"`) {
			continue
		}
		var orig string
		if json.Unmarshal([]byte(el.Raw), &orig) != nil || orig == "" {
			continue
		}
		for _, ev := range gen.EnumerationsOf(orig) {
			pi, ev := pi, ev
			ne++
			c.Case(func() any {
				return map[string]string{"base": name, "path": labels[pi], "original": orig, "enumerated": ev}
			}, func(t *engine.T) *engine.Violation {
				rb, _ := json.Marshal(ev)
				raw := string(rb)
				f := jsonfault.Fault{Name: "string", Apply: func(p *jsonfault.Node, i int) { p.Elems[i] = &jsonfault.Node{Raw: raw} }}
				in, _ := jsonfault.Mutate(root, []jsonfault.Path{paths[pi]}, []jsonfault.Fault{f})
				t.State(fmt.Sprintf("%s|%s|enum|%s", name, labels[pi], ev))
				return probe(t, []byte(in), false)
			})
		}
	}
	c.Bound(name+"-enumerated-values", fmt.Sprintf("%d cases: every member holding a value of one of the %d closed value sets of the SPDX and CycloneDX libraries takes every other value of that set", ne, len(gen.Enumerations())))
	c.Bound(name+"-string-derived", fmt.Sprintf("%d near-misses of the members' own valid values (separator-aligned prefixes and suffixes, short prefixes, doubled, extended, case-flipped)", nd))
	c.Group(name + "-string-values")
	n := 0
	// the adversarial contents plus the vocabulary of the library's own sources: the words, prefixes and separators the
	// parsers look for (quick tier: the structural literals alone and embedded in filler; thorough: the whole vocabulary in all
	// case variants)
	menu := append([]string{}, stringMenu...)
	if c.Thorough() {
		menu = append(menu, gen.Vocabulary()...)
	} else {
		for _, tk := range gen.StructuralTokens() {
			menu = append(menu, tk, "x"+tk+"y", tk+"x")
		}
	}
	// characters whose upper- or lower-case form has another byte length (offsets computed on a case-mapped copy do not
	// fit the original) in front of every structural token
	for _, tk := range gen.StructuralTokens() {
		for _, run := range []string{"ȺȺȺȺ", "İİİİ", "ßßßß"} {
			menu = append(menu, run+tk+"x")
		}
	}
	for pi := range paths {
		par := root
		for _, i := range paths[pi][:len(paths[pi])-1] {
			par = par.Elems[i]
		}
		el := par.Elems[paths[pi][len(paths[pi])-1]]
		if el.Kind != jsonfault.Scalar || !strings.HasPrefix(el.Raw, `"`) {
			continue
		}
		n++
		for vi := range menu {
			pi, vi := pi, vi
			c.Case(func() any { return map[string]string{"base": name, "path": labels[pi], "string": menu[vi]} }, func(t *engine.T) *engine.Violation {
				rb, _ := json.Marshal(menu[vi])
				raw := string(rb)
				f := jsonfault.Fault{Name: "string", Apply: func(p *jsonfault.Node, i int) { p.Elems[i] = &jsonfault.Node{Raw: raw} }}
				in, _ := jsonfault.Mutate(root, []jsonfault.Path{paths[pi]}, []jsonfault.Fault{f})
				t.State(fmt.Sprintf("%s|%s|str%d", name, labels[pi], vi))
				return probe(t, []byte(in), false)
			})
		}
	}
	c.Bound(name+"-string-values", fmt.Sprintf("%d string-valued members x (%d adversarial contents + %d values from the vocabulary of the library's sources, among them runs of characters whose case mapping changes their byte length in front of every structural token)", n, len(stringMenu), len(menu)-len(stringMenu)))
}

// growth: arrays of k copies of their first element; the parsed document must not grow faster than
// the square of the input size (an exponential blow-up in the number of elements is caught at k=22
// without exhausting memory).
func growth(c *engine.Ctx, name string, root *jsonfault.Node, paths []jsonfault.Path, labels []string) {
	c.Group(name + "-growth")
	const k = 22
	for pi := range paths {
		pi := pi
		par := root
		for _, i := range paths[pi][:len(paths[pi])-1] {
			par = par.Elems[i]
		}
		el := par.Elems[paths[pi][len(paths[pi])-1]]
		if el.Kind != jsonfault.Array || len(el.Elems) == 0 {
			continue
		}
		c.Case(func() any { return map[string]any{"base": name, "array": labels[pi], "copies": k} }, func(t *engine.T) *engine.Violation {
			rep := jsonfault.Fault{Name: "repeat", Apply: func(p *jsonfault.Node, i int) {
				a := &jsonfault.Node{Kind: jsonfault.Array}
				for j := 0; j < k; j++ {
					a.Elems = append(a.Elems, p.Elems[i].Elems[0].Clone())
				}
				p.Elems[i] = a
			}}
			in, _ := jsonfault.Mutate(root, []jsonfault.Path{paths[pi]}, []jsonfault.Fault{rep})
			doc, err := rw.Read([]byte(in))
			t.Transitions(1)
			if v := checkParse("ParseStream", doc, err); v != nil {
				return v
			}
			if err != nil {
				t.Outcome("growth:error")
				return nil
			}
			sz := proto.Size(doc)
			t.Validated(1)
			if sz > len(in)*len(in) {
				return engine.Violate("superpolynomial-output", "repeat@"+lastSeg(labels[pi]), "an input of %d bytes with %d copies of the first element of %s parses into a document of %d bytes (> input^2): the work grows exponentially with the number of elements", len(in), k, labels[pi], sz)
			}
			t.State(name + "|growth|" + labels[pi])
			t.Outcome("growth:ok")
			return nil
		})
	}
}

// referenceGraphs: totality on reference structures a schema fault cannot build: every small SPDX relationship graph
// (cycles, mutual containment, no declared root), generated by C05's generator.
// denseGraphs: inputs whose references form graphs with very many paths although the input is small - layered graphs
// with complete connections between consecutive layers (2^L paths in 2L elements), complete acyclic graphs, long
// chains, the same with one edge closing a cycle - under every relationship type of the SPDX library's enumeration
// and as CycloneDX dependencies. Each parse runs in a child process limited to 20 s of processor time (an input of
// 30 KB that needs more is not parsed in polynomial time); processor time does not depend on the load of the machine.
func denseGraphs(c *engine.Ctx) {
	c.Group("dense-reference-graphs")
	rels := []string{"DEPENDS_ON", "CONTAINS", "DESCRIBES"}
	for _, r := range gen.EnumerationsOf("DEPENDS_ON") {
		if r == strings.ToUpper(r) && !strings.ContainsAny(r, " .") {
			rels = append(rels, r)
		}
	}
	type shape struct {
		name  string
		n     int
		edges func() [][2]int
	}
	ladder := func(L int) [][2]int {
		var e [][2]int
		for l := 0; l+1 < L; l++ {
			for a := 0; a < 2; a++ {
				for b := 0; b < 2; b++ {
					e = append(e, [2]int{2*l + a, 2*(l+1) + b})
				}
			}
		}
		return e
	}
	complete := func(n int) [][2]int {
		var e [][2]int
		for i := 0; i < n; i++ {
			for j := i + 1; j < n; j++ {
				e = append(e, [2]int{i, j})
			}
		}
		return e
	}
	chain := func(n int) [][2]int {
		var e [][2]int
		for i := 0; i+1 < n; i++ {
			e = append(e, [2]int{i, i + 1})
		}
		return e
	}
	shapes := []shape{
		{"ladder-48-layers", 96, func() [][2]int { return ladder(48) }},
		{"ladder-48-layers+back-edge", 96, func() [][2]int { return append(ladder(48), [2]int{95, 0}) }},
		{"complete-acyclic-40", 40, func() [][2]int { return complete(40) }},
		{"chain-1500", 1500, func() [][2]int { return chain(1500) }},
		{"chain-1500-reversed-order", 1500, func() [][2]int {
			e := chain(1500)
			for i, j := 0, len(e)-1; i < j; i, j = i+1, j-1 {
				e[i], e[j] = e[j], e[i]
			}
			return e
		}},
	}
	spdx := func(sh shape, rel string) string {
		var sb strings.Builder
		sb.WriteString(`{"spdxVersion":"SPDX-2.3","dataLicense":"CC0-1.0","SPDXID":"SPDXRef-DOCUMENT","name":"g","documentNamespace":"https://example.com/g","creationInfo":{"created":"2024-01-01T00:00:00Z","creators":["Tool: t"]},"documentDescribes":["SPDXRef-p0"],"packages":[`)
		for i := 0; i < sh.n; i++ {
			if i > 0 {
				sb.WriteString(",")
			}
			fmt.Fprintf(&sb, `{"SPDXID":"SPDXRef-p%d","name":"p%d","downloadLocation":"NOASSERTION"}`, i, i)
		}
		sb.WriteString(`],"relationships":[`)
		for i, e := range sh.edges() {
			if i > 0 {
				sb.WriteString(",")
			}
			fmt.Fprintf(&sb, `{"spdxElementId":"SPDXRef-p%d","relationshipType":%q,"relatedSpdxElement":"SPDXRef-p%d"}`, e[0], rel, e[1])
		}
		sb.WriteString(`]}`)
		return sb.String()
	}
	cdx := func(sh shape) string {
		var sb strings.Builder
		sb.WriteString(`{"bomFormat":"CycloneDX","specVersion":"1.5","version":1,"metadata":{"component":{"bom-ref":"p0","type":"application","name":"p0"}},"components":[`)
		for i := 1; i < sh.n; i++ {
			if i > 1 {
				sb.WriteString(",")
			}
			fmt.Fprintf(&sb, `{"bom-ref":"p%d","type":"library","name":"p%d"}`, i, i)
		}
		sb.WriteString(`],"dependencies":[`)
		dep := map[int][]int{}
		var order []int
		for _, e := range sh.edges() {
			if _, ok := dep[e[0]]; !ok {
				order = append(order, e[0])
			}
			dep[e[0]] = append(dep[e[0]], e[1])
		}
		for i, f := range order {
			if i > 0 {
				sb.WriteString(",")
			}
			fmt.Fprintf(&sb, `{"ref":"p%d","dependsOn":[`, f)
			for j, to := range dep[f] {
				if j > 0 {
					sb.WriteString(",")
				}
				fmt.Fprintf(&sb, `"p%d"`, to)
			}
			sb.WriteString(`]}`)
		}
		sb.WriteString(`]}`)
		return sb.String()
	}
	c.Bound("dense-reference-graphs", fmt.Sprintf("%d graph shapes (layered with 2^48 paths, complete acyclic on 40 elements, chains of 1500, with and without a cycle-closing edge) x (%d SPDX relationship types + CycloneDX dependencies), each parsed in a child process limited to 20 s of processor time", len(shapes), len(rels)))
	for _, sh := range shapes {
		sh := sh
		for _, rel := range rels {
			rel := rel
			if strings.HasPrefix(sh.name, "chain") && rel != "DEPENDS_ON" && rel != "CONTAINS" {
				continue
			}
			c.Case(func() any {
				return map[string]any{"group": "dense-reference-graphs", "shape": sh.name, "format": "spdx", "relationship": rel}
			}, func(t *engine.T) *engine.Violation {
				t.State("dense|" + sh.name + "|" + rel)
				return probeInChildCPU(t, []byte(spdx(sh, rel)), "dense-graph:"+sh.name, 20)
			})
		}
		c.Case(func() any {
			return map[string]any{"group": "dense-reference-graphs", "shape": sh.name, "format": "cyclonedx"}
		}, func(t *engine.T) *engine.Violation {
			t.State("dense|" + sh.name + "|cdx")
			return probeInChildCPU(t, []byte(cdx(sh)), "dense-graph:"+sh.name, 20)
		})
	}
}

func referenceGraphs(c *engine.Ctx) {
	c.Group("spdx-reference-graphs")
	maxRel := 2
	if c.Thorough() {
		maxRel = 3
	}
	c.Bound("spdx-reference-graphs", fmt.Sprintf("packages a, b and file c; every relationship list of <=%d over {CONTAINS, CONTAINED_BY, DEPENDS_ON, DESCRIBES} x endpoints x documentDescribes {absent,[a]} x hasFiles, through detection, ParseStream and every explicit format", maxRel))
	c05.SPDXReferenceGraphs(maxRel, func(desc map[string]any, text string, _ map[string]int, _ bool) {
		c.Case(func() any { return desc }, func(t *engine.T) *engine.Violation {
			t.State(text)
			return probe(t, []byte(text), false)
		})
	})
}

func Run(c *engine.Ctx) {
	referenceGraphs(c)
	denseGraphs(c)
	decoderMembers(c)
	streamKindsGroup(c)
	rw.SilenceStdout()
	faults := jsonfault.Faults()
	var light []jsonfault.Fault
	for _, f := range faults {
		if !f.Heavy {
			light = append(light, f)
		}
	}
	pairMenu := light
	if !c.Thorough() {
		// quick: pairs over the four fault kinds that decode into the structs (nil / wrong type / empty / absent)
		pairMenu = nil
		for _, f := range light {
			switch f.Name {
			case "null", "other-container", "absent", "container-of-null":
				pairMenu = append(pairMenu, f)
			}
		}
	}
	for _, b := range []struct{ name, text string }{{"spdx23", BaseSPDX}, {"cdx15", BaseCDX}} {
		root, err := jsonfault.Parse([]byte(b.text))
		if err != nil {
			c.Note("harness: base document does not parse: " + err.Error())
			continue
		}
		paths, labels := jsonfault.Paths(root)
		// the unmodified base must parse
		c.Group(b.name + "-base")
		c.Case(func() any { return b.name + " base document" }, func(t *engine.T) *engine.Violation {
			doc, err := rw.Read([]byte(b.text))
			if err != nil || doc == nil || len(doc.NodeList.Nodes) < 3 {
				return engine.Violate("harness", "", "base document does not parse into >=3 nodes: %v", err)
			}
			return probe(t, []byte(b.text), true)
		})
		c.Group(b.name + "-single")
		c.Bound(b.name+"-single", fmt.Sprintf("%d paths x %d faults, auto-detect + 7 explicit formats", len(paths), len(faults)))
		for pi := range paths {
			for fi := range faults {
				pi, fi := pi, fi
				c.Case(func() any { return map[string]string{"base": b.name, "path": labels[pi], "fault": faults[fi].Name} }, func(t *engine.T) *engine.Violation {
					in, ok := jsonfault.Mutate(root, []jsonfault.Path{paths[pi]}, []jsonfault.Fault{faults[fi]})
					if !ok {
						return nil
					}
					t.State(fmt.Sprintf("%s|%s|%s", b.name, labels[pi], faults[fi].Name))
					if faults[fi].Heavy {
						// oversized inputs run in a child process with an address-space limit and an absolute deadline
						return probeInChild(t, []byte(in), faults[fi].Name+"@"+lastSeg(labels[pi]))
					}
					return probe(t, []byte(in), true)
				})
			}
		}
		stringValues(c, b.name, root, paths, labels)
		growth(c, b.name, root, paths, labels)
		// the log level as an environment answer: every single fault, and every pair of the structure-removing faults
		// (absent / null) at members of depth <= 2, parsed with the library's logger at trace level (output discarded)
		c.Group(b.name + "-at-trace-level")
		nTrace := 0
		for pi := range paths {
			for fi := range faults {
				if faults[fi].Heavy {
					continue
				}
				pi, fi := pi, fi
				nTrace++
				c.Case(func() any {
					return map[string]string{"base": b.name, "path": labels[pi], "fault": faults[fi].Name, "log-level": "trace"}
				}, func(t *engine.T) *engine.Violation {
					in, ok := jsonfault.Mutate(root, []jsonfault.Path{paths[pi]}, []jsonfault.Fault{faults[fi]})
					if !ok {
						return nil
					}
					t.State(fmt.Sprintf("trace|%s|%s|%s", b.name, labels[pi], faults[fi].Name))
					var v *engine.Violation
					rw.AtLogLevel(logrus.TraceLevel, func() { v = probe(t, []byte(in), false) })
					return v
				})
			}
		}
		var removing []jsonfault.Fault
		for _, f := range light {
			if f.Name == "absent" || f.Name == "null" {
				removing = append(removing, f)
			}
		}
		for pi := range paths {
			for pj := pi + 1; pj < len(paths); pj++ {
				if len(paths[pi]) > 2 || len(paths[pj]) > 2 {
					continue
				}
				for fi := range removing {
					for fj := range removing {
						pi, pj, fi, fj := pi, pj, fi, fj
						nTrace++
						c.Case(func() any {
							return map[string]string{"base": b.name, "path1": labels[pi], "fault1": removing[fi].Name, "path2": labels[pj], "fault2": removing[fj].Name, "log-level": "trace"}
						}, func(t *engine.T) *engine.Violation {
							in, ok := jsonfault.Mutate(root, []jsonfault.Path{paths[pi], paths[pj]}, []jsonfault.Fault{removing[fi], removing[fj]})
							if !ok {
								t.Outcome("nested-paths-skipped")
								return nil
							}
							t.State(fmt.Sprintf("trace|%s|%s|%s|%s|%s", b.name, labels[pi], removing[fi].Name, labels[pj], removing[fj].Name))
							var v *engine.Violation
							rw.AtLogLevel(logrus.TraceLevel, func() { v = probe(t, []byte(in), false) })
							return v
						})
					}
				}
			}
		}
		c.Bound(b.name+"-at-trace-level", fmt.Sprintf("%d cases with the library's logger at trace level: every single fault, every pair of absent / null faults at members of depth <= 2", nTrace))
		c.Group(b.name + "-double")
		c.Bound(b.name+"-double", fmt.Sprintf("all unordered pairs of distinct non-nested paths (%d paths) x %d^2 fault pairs, auto-detect", len(paths), len(pairMenu)))
		for pi := range paths {
			if c.Expired() {
				c.Cap("deadline in " + b.name + "-double")
				break
			}
			for pj := pi + 1; pj < len(paths); pj++ {
				for fi := range pairMenu {
					for fj := range pairMenu {
						pi, pj, fi, fj := pi, pj, fi, fj
						c.Case(func() any {
							return map[string]string{"base": b.name, "path1": labels[pi], "fault1": pairMenu[fi].Name, "path2": labels[pj], "fault2": pairMenu[fj].Name}
						}, func(t *engine.T) *engine.Violation {
							in, ok := jsonfault.Mutate(root, []jsonfault.Path{paths[pi], paths[pj]}, []jsonfault.Fault{pairMenu[fi], pairMenu[fj]})
							if !ok {
								t.Outcome("nested-paths-skipped")
								return nil
							}
							t.State(fmt.Sprintf("%s|%s|%s|%s|%s", b.name, labels[pi], pairMenu[fi].Name, labels[pj], pairMenu[fj].Name))
							return probe(t, []byte(in), false)
						})
					}
				}
			}
		}
	}
	deepComponents(c)
	byteStrings(c)
}

// deepComponents: nesting that follows the schema. CycloneDX components are the only recursive structure of the two
// formats; chains of nested components at every depth class up to encoding/json's own limit, under the metadata
// component and under a top-level component, with and without references.
func deepComponents(c *engine.Ctx) {
	c.Group("cdx-deep-components")
	depths := []int{1, 2, 3, 10, 100, 255, 256, 257, 511, 512, 513, 514, 1000, 1023, 1024, 1025, 2000}
	if c.Thorough() {
		depths = append(depths, 4000, 4990, 4999, 5000, 9000)
	}
	c.Bound("cdx-deep-components", fmt.Sprintf("component chains of %d depth classes (up to the decoder's nesting limit) x {under metadata.component, under components[0]} x {with bom-ref, without} x {1.4, 1.5}", len(depths)))
	for _, d := range depths {
		for where := 0; where < 2; where++ {
			for refs := 0; refs < 2; refs++ {
				for _, ver := range []string{"1.4", "1.5"} {
					d, where, refs, ver := d, where, refs, ver
					c.Case(func() any {
						return map[string]any{"depth": d, "under": []string{"metadata.component", "components[0]"}[where], "refs": refs == 1, "version": ver}
					}, func(t *engine.T) *engine.Violation {
						var sb strings.Builder
						for i := 0; i < d; i++ {
							if refs == 1 {
								fmt.Fprintf(&sb, `{"bom-ref":"n%d","type":"library","name":"n%d","components":[`, i, i)
							} else {
								fmt.Fprintf(&sb, `{"type":"library","name":"n%d","components":[`, i)
							}
						}
						sb.WriteString(`{"type":"file","name":"leaf"}`)
						sb.WriteString(strings.Repeat("]}", d))
						chain := sb.String()
						var in string
						if where == 0 {
							in = `{"bomFormat":"CycloneDX","specVersion":"` + ver + `","version":1,"metadata":{"component":` + chain + `},"components":[]}`
						} else {
							in = `{"bomFormat":"CycloneDX","specVersion":"` + ver + `","version":1,"metadata":{"component":{"bom-ref":"root","type":"application","name":"app"}},"components":[` + chain + `]}`
						}
						t.State(fmt.Sprintf("deep|%d|%d|%d|%s", d, where, refs, ver))
						if d >= 1000 {
							return probeInChild(t, []byte(in), fmt.Sprintf("component-depth-%d", d))
						}
						if v := probe(t, []byte(in), false); v != nil {
							return v
						}
						// whatever was parsed must contain the whole chain
						doc, err := rw.Read([]byte(in))
						if err == nil && len(doc.NodeList.Nodes) != d+1+where {
							return engine.Violate("deep-nesting-truncated", "", "a chain of %d nested components parsed without error into %d nodes", d, len(doc.NodeList.Nodes))
						}
						return nil
					})
				}
			}
		}
	}
}

var tokens = []string{"{", "}", "[", "]", ":", ",", `"`, "a", "1", " ", "\n", "null", `"bomFormat":"CycloneDX"`, `"specVersion":"1.5"`, `"spdxVersion":"SPDX-2.3"`, "SPDXVersion: SPDX-2.3", "\xff", `"components":`, `"packages":`}

func byteStrings(c *engine.Ctx) {
	L := 4
	if c.Thorough() {
		L = 5
	}
	c.Group("token-strings")
	n := 0
	for l, p := 0, 1; l <= L; l++ {
		n += p
		p *= len(tokens)
	}
	c.Bound("token-strings", fmt.Sprintf("all %d strings of <= %d tokens over a %d-token alphabet (JSON punctuation, literals, declaration members, a tag-value header line, an invalid UTF-8 byte)", n, L, len(tokens)))
	idx := make([]int, 0, L)
	var rec func()
	rec = func() {
		cur := append([]int{}, idx...)
		c.Case(func() any {
			var sb strings.Builder
			for _, i := range cur {
				sb.WriteString(tokens[i])
			}
			return sb.String()
		}, func(t *engine.T) *engine.Violation {
			var sb strings.Builder
			for _, i := range cur {
				sb.WriteString(tokens[i])
			}
			t.State("tok:" + sb.String())
			return probe(t, []byte(sb.String()), false)
		})
		if len(idx) == L || c.Expired() {
			return
		}
		for i := range tokens {
			idx = append(idx, i)
			rec()
			idx = idx[:len(idx)-1]
		}
	}
	rec()
	_ = formats.JSON
}
