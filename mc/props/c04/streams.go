package c04

import (
	"errors"
	"fmt"
	"io"

	"github.com/protobom/protobom/pkg/formats"
	"github.com/protobom/protobom/pkg/native"
	"github.com/protobom/protobom/pkg/reader"
	"github.com/protobom/protobom/pkg/sbom"

	"mcverif/engine"
	"mcverif/rw"
)

// The stream an input arrives on is part of the environment: it may deliver one byte per read, hand out its last
// bytes together with io.EOF, fail in the middle, and - a pipe, a socket, standard input - refuse to seek although it
// has a Seek method. Whatever it does, a parse returns a document or an error, never both and never neither.

type stream struct {
	data    []byte
	pos     int
	kind    string
	reads   int
	seeks   int
	noSeek  bool
	failPos int
}

var errStream = errors.New("stream: injected failure")

func (s *stream) Read(p []byte) (int, error) {
	s.reads++
	if len(p) == 0 {
		return 0, nil
	}
	if s.kind == "read-fails-half-way" && s.pos >= s.failPos {
		return 0, errStream
	}
	if s.pos >= len(s.data) {
		return 0, io.EOF
	}
	n := copy(p, s.data[s.pos:])
	switch s.kind {
	case "one-byte-reads":
		n = 1
	case "read-fails-half-way":
		if s.pos+n > s.failPos {
			n = s.failPos - s.pos
		}
	}
	s.pos += n
	if s.kind == "data-with-eof" && s.pos >= len(s.data) {
		return n, io.EOF
	}
	return n, nil
}

func (s *stream) Seek(off int64, whence int) (int64, error) {
	s.seeks++
	switch s.kind {
	case "seek-always-fails":
		return 0, errors.New("seek: illegal seek")
	case "seek-fails-after-a-read":
		if s.reads > 0 {
			return 0, errors.New("seek: illegal seek")
		}
	case "seek-fails-second-time":
		if s.seeks > 1 {
			return 0, errors.New("seek: illegal seek")
		}
	}
	var np int64
	switch whence {
	case io.SeekStart:
		np = off
	case io.SeekCurrent:
		np = int64(s.pos) + off
	case io.SeekEnd:
		np = int64(len(s.data)) + off
	}
	if np < 0 {
		return 0, errors.New("seek: negative position")
	}
	s.pos = int(np)
	return np, nil
}

var streamKinds = []string{"plain", "one-byte-reads", "data-with-eof", "read-fails-half-way", "seek-always-fails", "seek-fails-after-a-read", "seek-fails-second-time"}

func streamKindsGroup(c *engine.Ctx) {
	c.Group("stream-kinds")
	inputs := []struct {
		Name, Text string
		F          formats.Format
	}{
		{"spdx23", BaseSPDX, formats.SPDX23JSON}, {"cdx15", BaseCDX, formats.CDX15JSON},
		{"truncated-spdx", BaseSPDX[:len(BaseSPDX)/2], formats.SPDX23JSON}, {"not-json", "hello\nSPDXVersion: SPDX-2.3\n", formats.SPDX23JSON}, {"empty", "", formats.CDX15JSON},
	}
	c.Bound("stream-kinds", fmt.Sprintf("%d inputs x %d stream behaviours %v x {format detected, format stated, format stated wrongly} x {reader's own options, per-call options}: a document or an error, never both, never neither, no panic", len(inputs), len(streamKinds), streamKinds))
	for _, in := range inputs {
		for _, kind := range streamKinds {
			for mode := 0; mode < 3; mode++ {
				for via := 0; via < 2; via++ {
					in, kind, mode, via := in, kind, mode, via
					c.Case(func() any {
						return map[string]any{"input": in.Name, "stream": kind, "format": []string{"detected", "stated", "stated-wrongly"}[mode], "entry": []string{"ParseStreamWithOptions", "ParseStream on a configured reader"}[via]}
					}, func(t *engine.T) *engine.Violation {
						s := &stream{data: []byte(in.Text), kind: kind, failPos: len(in.Text) / 2}
						var f formats.Format
						switch mode {
						case 1:
							f = in.F
						case 2:
							f = formats.CDX14JSON
							if in.F != formats.SPDX23JSON {
								f = formats.SPDX23JSON
							}
						}
						var doc *sbom.Document
						var err error
						if via == 0 {
							doc, err = reader.New().ParseStreamWithOptions(s, &reader.Options{Format: f, UnserializeOptions: &native.UnserializeOptions{}})
						} else {
							r := reader.New()
							r.Options.Format = f
							doc, err = r.ParseStream(s)
						}
						t.Transitions(1)
						t.Validated(1)
						if v := checkParse(fmt.Sprintf("parse of %s on a stream with behaviour %q (format %s)", in.Name, kind, []string{"detected", "stated", "stated wrongly"}[mode]), doc, err); v != nil {
							return v
						}
						t.State(fmt.Sprint("stream", in.Name, kind, mode, via))
						t.Outcome(fmt.Sprintf("stream parse=%v", err == nil))
						return nil
					})
				}
			}
		}
	}
	_ = rw.DefaultFormats
}
