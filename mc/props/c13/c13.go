// Package c13: equality and checksums form a sound, order-insensitive equivalence.
package c13

import (
	"runtime"
	"fmt"
	"strings"
	"time"

	"github.com/protobom/protobom/pkg/sbom"
	"google.golang.org/protobuf/proto"
	"google.golang.org/protobuf/reflect/protoreflect"

	"mcverif/engine"
	"mcverif/gen"
)

var Spec = engine.Spec{
	ID: "C13", Run: Run, MapOrders: true, QuickBud: 5 * time.Minute, ThorBud: 45 * time.Minute,
	Technique: "explicit enumeration of a reflection-generated value set (bases + every single-field deviation + permutations + separator-bearing values): all pairs for symmetry / checksum agreement / discrimination / order-insensitivity against a canonical-content reference, all triples for transitivity",
	Rule:      "value = base message (empty, sparse, fully populated by reflection) with one deviation (set/change/clear scalar, append/drop/change/permute list element, put/delete/change map entry, date +1s/+1ns, recursively in nested persons and external references) or a crafted separator value; case = ordered pair (i,j) or one row of the transitivity matrix",
	Assume: []string{
		"content reference: set-valued lists compared as sorted multisets, dates to the second; Person.contacts order is never varied",
		"nil versus empty collections are never varied between the two sides of a pair",
	},
}

var ordered = map[string]bool{"protobom.protobom.Person.contacts": true}

type value struct {
	Label   string
	Msg     proto.Message
	Canon   string
	PermOf  int    // index of the value this one is a permutation / sub-second variant of, or -1
	Crafted string // family name for crafted separator values
	// Star >= 0: a wide value (nested collections with several entries: comparisons are expensive); in the quick tier it
	// is compared with itself and with the base of its family (index Star) only, not with every other value
	Star int // 0 = no; else index of the family's base + 1
}

// CraftedPairs returns node pairs that differ in content although the flattened equality encoding of both coincides.
func CraftedPairs() [][2]*sbom.Node {
	return [][2]*sbom.Node{
		{{Id: "x", Name: "x:protobom.protobom.Node.version:1"}, {Id: "x", Name: "x", Version: "1"}},
		{{Id: "x", Hashes: map[int32]string{1: "ab1", 2: "cd"}}, {Id: "x", Hashes: map[int32]string{1: "ab", 12: "cd"}}},
		{{Id: "x", Hashes: map[int32]string{1: "a2:b"}}, {Id: "x", Hashes: map[int32]string{1: "a", 2: "b"}}},
		{{Id: "x", Identifiers: map[int32]string{1: "a:identifiers[2]:b"}}, {Id: "x", Identifiers: map[int32]string{1: "a", 2: "b"}}},
		{{Id: "x", Suppliers: []*sbom.Person{{Name: "a)o(false)email(e"}}}, {Id: "x", Suppliers: []*sbom.Person{{Name: "a", Email: "e"}}}},
		{{Id: "x", ExternalReferences: []*sbom.ExternalReference{{Url: "u(c)k"}}}, {Id: "x", ExternalReferences: []*sbom.ExternalReference{{Url: "u", Comment: "k"}}}},
		{{Id: "x", Licenses: []string{"MIT:protobom.protobom.Node.licenses[1]:GPL"}}, {Id: "x", Licenses: []string{"MIT", "GPL"}}},
	}
}

func nodeValues(thorough bool) []value {
	var vs []value
	star := false
	addBase := func(label string, base *sbom.Node, depth int) {
		bi := len(vs)
		vs = append(vs, value{Label: label, Msg: base, PermOf: -1})
		for _, d := range gen.Deviations(base, depth) {
			c := proto.Clone(base)
			d.Mutate(c.ProtoReflect())
			v := value{Label: label + "/" + d.Label, Msg: c, PermOf: -1}
			if d.Kind != "dev" {
				v.PermOf = bi
			}
			vs = append(vs, v)
		}
		if star && !thorough {
			for i := bi; i < len(vs); i++ {
				vs[i].Star = bi + 1
			}
		}
	}
	full := &sbom.Node{}
	gen.Full(full, "A", 2)
	addBase("full", full, 2)
	addBase("sparse", &sbom.Node{Id: "n1", Name: "sparse"}, 1)
	if thorough {
		full20 := &sbom.Node{}
		gen.Full(full20, "W", 20)
		addBase("full20", full20, 1)
	}
	sub := &sbom.Node{Id: "n2", Name: "subsecond"}
	gen.SetField(sub.ProtoReflect(), sub.ProtoReflect().Descriptor().Fields().ByName("release_date"), 1, "S")
	gen.SetField(sub.ProtoReflect(), sub.ProtoReflect().Descriptor().Fields().ByName("build_date"), 1, "S")
	sub.ReleaseDate.Nanos, sub.BuildDate.Nanos = 700_000_000, 700_000_000
	addBase("subsecond-dates", sub, 1)
	// dates before 1970 with half a second: negative seconds with positive nanos (rounding toward zero and rounding
	// down differ there)
	pre := &sbom.Node{Id: "n3", Name: "pre-epoch"}
	gen.SetField(pre.ProtoReflect(), pre.ProtoReflect().Descriptor().Fields().ByName("release_date"), 1, "S")
	gen.SetField(pre.ProtoReflect(), pre.ProtoReflect().Descriptor().Fields().ByName("valid_until_date"), 1, "S")
	pre.ReleaseDate.Seconds, pre.ReleaseDate.Nanos = -1_000_000_000, 500_000_000
	pre.ValidUntilDate.Seconds, pre.ValidUntilDate.Nanos = -2, 500_000_000
	addBase("pre-epoch-subsecond-dates", pre, 1)
	// nested collections with three entries each (an external reference with three hashes, contacts of contacts)
	deep := &sbom.Node{}
	gen.FullDeep(deep, "A", 3, 2)
	star = true
	addBase("full-deep", deep, 2)
	star = false
	if thorough {
		full3 := &sbom.Node{}
		gen.Full(full3, "B", 3)
		addBase("full3", full3, 2)
	}
	addBase("empty", &sbom.Node{}, 0)
	// set-valued lists whose elements coincide under common normalisations (letter case, surrounding blanks,
	// numeric order vs. lexical order): any ordering that is not a total order on the raw values shows up as a
	// permutation that changes equality
	addBase("colliding-elements", collidingNode(), 2)
	// crafted values: the flattening's own separators inside attribute values
	crafted := func(family string, a, b *sbom.Node) {
		vs = append(vs, value{Label: "crafted/" + family + "/1", Msg: a, PermOf: -1, Crafted: family}, value{Label: "crafted/" + family + "/2", Msg: b, PermOf: -1, Crafted: family})
	}
	crafted("separator-injection",
		&sbom.Node{Id: "x", Name: "x:protobom.protobom.Node.version:1"},
		&sbom.Node{Id: "x", Name: "x", Version: "1"})
	crafted("separator-injection",
		&sbom.Node{Id: "x", Suppliers: []*sbom.Person{{Name: "a)o(false)email(e"}}},
		&sbom.Node{Id: "x", Suppliers: []*sbom.Person{{Name: "a", Email: "e"}}})
	crafted("separator-injection",
		&sbom.Node{Id: "x", ExternalReferences: []*sbom.ExternalReference{{Url: "u(c)k"}}},
		&sbom.Node{Id: "x", ExternalReferences: []*sbom.ExternalReference{{Url: "u", Comment: "k"}}})
	crafted("separator-injection",
		&sbom.Node{Id: "x", Licenses: []string{"MIT:protobom.protobom.Node.licenses[1]:GPL"}},
		&sbom.Node{Id: "x", Licenses: []string{"MIT", "GPL"}})
	crafted("hash-map-concatenation",
		&sbom.Node{Id: "x", Hashes: map[int32]string{1: "ab1", 2: "cd"}},
		&sbom.Node{Id: "x", Hashes: map[int32]string{1: "ab", 12: "cd"}})
	crafted("hash-map-concatenation",
		&sbom.Node{Id: "x", Hashes: map[int32]string{1: "ab2:cd"}},
		&sbom.Node{Id: "x", Hashes: map[int32]string{1: "ab", 2: "cd"}})
	for i := range vs {
		vs[i].Canon = gen.Canon(vs[i].Msg, ordered)
	}
	return vs
}

func collidingNode() *sbom.Node {
	cs := func(p string) []string {
		return []string{p + "MIT", p + "mit", p + "Mit", p + "mit ", " " + p + "mit", p + "10", p + "9"}
	}
	per := func(p string) []*sbom.Person {
		return []*sbom.Person{{Name: p + "Bob", Email: "B@x"}, {Name: p + "bob", Email: "b@x"}, {Name: p + "BOB", Email: "b@x "}}
	}
	return &sbom.Node{Id: "col", Name: "colliding", Licenses: cs(""), Attribution: cs("a-"), FileTypes: cs("f-"),
		Suppliers: per("s"), Originators: per("o"),
		ExternalReferences: []*sbom.ExternalReference{{Url: "https://E/x", Type: 1}, {Url: "https://e/x", Type: 1}, {Url: "https://e/X", Type: 1, Comment: "c"}},
		PrimaryPurpose:     []sbom.Purpose{sbom.Purpose_LIBRARY, sbom.Purpose_APPLICATION, sbom.Purpose_CONTAINER}}
}

func edgeValues() []value {
	var vs []value
	addBase := func(label string, base *sbom.Edge) {
		bi := len(vs)
		vs = append(vs, value{Label: label, Msg: base, PermOf: -1})
		for _, d := range gen.Deviations(base, 1) {
			c := proto.Clone(base)
			d.Mutate(c.ProtoReflect())
			v := value{Label: label + "/" + d.Label, Msg: c, PermOf: -1}
			if d.Kind != "dev" {
				v.PermOf = bi
			}
			vs = append(vs, v)
		}
	}
	addBase("e3", &sbom.Edge{From: "a", Type: sbom.Edge_contains, To: []string{"c", "b", "d"}})
	addBase("e1", &sbom.Edge{From: "a", Type: sbom.Edge_dependsOn, To: []string{"b"}})
	addBase("e0", &sbom.Edge{From: "a"})
	addBase("colliding-targets", &sbom.Edge{From: "a", Type: sbom.Edge_contains, To: []string{"B", "b", "b ", " b", "10", "9"}})
	for t := range sbom.Edge_Type_name {
		vs = append(vs, value{Label: fmt.Sprintf("type-%d", t), Msg: &sbom.Edge{From: "f", Type: sbom.Edge_Type(t), To: []string{"t"}}, PermOf: -1})
	}
	// numbers outside the declared enum (an open proto3 enum: a document written by a newer schema), several of them
	for _, t := range []int32{-1, 45, 46, 99, 1000, 1001, 1 << 20} {
		vs = append(vs, value{Label: fmt.Sprintf("type-undeclared-%d", t), Msg: &sbom.Edge{From: "f", Type: sbom.Edge_Type(t), To: []string{"t"}}, PermOf: -1})
	}
	vs = append(vs,
		value{Label: "crafted/plus/1", Msg: &sbom.Edge{From: "a", Type: sbom.Edge_contains, To: []string{"b+c"}}, PermOf: -1, Crafted: "separator-injection"},
		value{Label: "crafted/plus/2", Msg: &sbom.Edge{From: "a", Type: sbom.Edge_contains, To: []string{"b", "c"}}, PermOf: -1, Crafted: "separator-injection"},
		value{Label: "crafted/colon/1", Msg: &sbom.Edge{From: "a:contains:x", Type: sbom.Edge_contains, To: []string{"y"}}, PermOf: -1, Crafted: "separator-injection"},
	)
	for i := range vs {
		vs[i].Canon = gen.Canon(vs[i].Msg, ordered)
	}
	return vs
}

func listValues() []value {
	var vs []value
	mk := func(nodes []*sbom.Node, edges []*sbom.Edge, roots []string) *sbom.NodeList {
		return &sbom.NodeList{Nodes: nodes, Edges: edges, RootElements: roots}
	}
	n := func(id, name string) *sbom.Node {
		return &sbom.Node{Id: id, Name: name, Hashes: map[int32]string{1: "h" + id}, Licenses: []string{"L2", "L1"}}
	}
	e := func(f string, t sbom.Edge_Type, to ...string) *sbom.Edge { return &sbom.Edge{From: f, Type: t, To: to} }
	base := func() *sbom.NodeList {
		return mk([]*sbom.Node{n("a", "A"), n("b", "B"), n("c", "C")},
			// two edge objects share (source a, type contains): equality must see both
			[]*sbom.Edge{e("a", sbom.Edge_contains, "b", "c"), e("b", sbom.Edge_dependsOn, "c"), e("a", sbom.Edge_dependsOn, "c"), e("a", sbom.Edge_contains, "a")},
			[]string{"b", "a"})
	}
	bi := 0
	vs = append(vs, value{Label: "base", Msg: base(), PermOf: -1})
	// permutations of nodes, edges, roots, targets
	gen.Permutations(3, func(p []int) {
		b := base()
		nl := mk(nil, b.Edges, b.RootElements)
		for _, i := range p {
			nl.Nodes = append(nl.Nodes, b.Nodes[i])
		}
		vs = append(vs, value{Label: fmt.Sprintf("perm-nodes%v", p), Msg: nl, PermOf: bi})
	})
	gen.Permutations(4, func(p []int) {
		b := base()
		nl := mk(b.Nodes, nil, b.RootElements)
		for _, i := range p {
			nl.Edges = append(nl.Edges, b.Edges[i])
		}
		vs = append(vs, value{Label: fmt.Sprintf("perm-edges%v", p), Msg: nl, PermOf: bi})
	})
	// deviations inside each of the edge objects that share (source,type) -- the generic generator only descends into the first and last element
	for ei := 0; ei < 4; ei++ {
		b := base()
		b.Edges[ei].To = append(b.Edges[ei].To, "b")
		vs = append(vs, value{Label: fmt.Sprintf("edge%d-extra-target", ei), Msg: b, PermOf: -1})
		b = base()
		b.Edges[ei].To = []string{"c"}
		vs = append(vs, value{Label: fmt.Sprintf("edge%d-targets-replaced", ei), Msg: b, PermOf: -1})
	}
	{
		b := base()
		b.RootElements = []string{"a", "b"}
		vs = append(vs, value{Label: "perm-roots", Msg: b, PermOf: bi})
		b = base()
		b.Edges[0].To = []string{"c", "b"}
		vs = append(vs, value{Label: "perm-targets", Msg: b, PermOf: bi})
		b = base()
		b.Nodes[0].Licenses = []string{"L1", "L2"}
		vs = append(vs, value{Label: "perm-node-attr", Msg: b, PermOf: bi})
	}
	// deviations of the list itself (depth 2 reaches node attributes and edge fields)
	b0 := base()
	for _, d := range gen.Deviations(b0, 2) {
		c := proto.Clone(b0)
		d.Mutate(c.ProtoReflect())
		v := value{Label: "base/" + d.Label, Msg: c, PermOf: -1}
		if d.Kind != "dev" {
			v.PermOf = bi
		}
		vs = append(vs, v)
	}
	{
		// identifiers that coincide under case folding / trimming, in both orders
		cb := func(rev bool) *sbom.NodeList {
			ns := []*sbom.Node{n("Pkg", "A"), n("pkg", "B"), n("pkg ", "C")}
			rs := []string{"Pkg", "pkg", "pkg "}
			es := []*sbom.Edge{e("Pkg", sbom.Edge_contains, "pkg", "pkg "), e("pkg", sbom.Edge_contains, "Pkg", "pkg ")}
			if rev {
				ns = []*sbom.Node{ns[2], ns[1], ns[0]}
				rs = []string{"pkg ", "pkg", "Pkg"}
				es = []*sbom.Edge{e("pkg", sbom.Edge_contains, "pkg ", "Pkg"), e("Pkg", sbom.Edge_contains, "pkg ", "pkg")}
			}
			return mk(ns, es, rs)
		}
		ci := len(vs)
		vs = append(vs, value{Label: "colliding-ids", Msg: cb(false), PermOf: -1}, value{Label: "colliding-ids-reversed", Msg: cb(true), PermOf: ci})
	}
	vs = append(vs, value{Label: "empty", Msg: &sbom.NodeList{}, PermOf: -1})
	vs = append(vs, value{Label: "new", Msg: sbom.NewNodeList(), PermOf: -1}) // nil-vs-empty is C12's copy clause, not asserted here
	vs = append(vs, value{Label: "one-node", Msg: mk([]*sbom.Node{n("a", "A")}, nil, nil), PermOf: -1})
	vs = append(vs, value{Label: "one-node-root", Msg: mk([]*sbom.Node{n("a", "A")}, nil, []string{"a"}), PermOf: -1})
	for i := range vs {
		vs[i].Canon = gen.Canon(vs[i].Msg, ordered)
	}
	return vs
}

// separatorTokens are the structural tokens of the flattened encoding.
var separatorTokens = []string{":protobom.protobom.", ")o(", ")email(", ")url(", ")p(", ")c(", "(u)", "(c)", "(a)", "(t)", "+", ":identifiers[", ":extref:", ":supplier:", ":originator:"}

func hasSeparatorValue(m protoreflect.Message) bool {
	found := false
	var walk func(r protoreflect.Message)
	walk = func(r protoreflect.Message) {
		r.Range(func(fd protoreflect.FieldDescriptor, v protoreflect.Value) bool {
			chk := func(s string) {
				for _, t := range separatorTokens {
					if strings.Contains(s, t) {
						found = true
					}
				}
				if strings.HasSuffix(s, ":") || strings.Contains(s, ":contains:") {
					found = true
				}
			}
			switch {
			case fd.IsMap():
				v.Map().Range(func(_ protoreflect.MapKey, mv protoreflect.Value) bool {
					if fd.MapValue().Kind() == protoreflect.StringKind {
						chk(mv.String())
					}
					return true
				})
			case fd.IsList():
				for i := 0; i < v.List().Len(); i++ {
					if fd.Kind() == protoreflect.MessageKind {
						walk(v.List().Get(i).Message())
					} else if fd.Kind() == protoreflect.StringKind {
						chk(v.List().Get(i).String())
					}
				}
			case fd.Kind() == protoreflect.MessageKind:
				walk(v.Message())
			case fd.Kind() == protoreflect.StringKind:
				chk(v.String())
			}
			return true
		})
	}
	walk(m)
	return found
}

// onlyHashMapsDiffer: the two nodes have identical content except for hashes maps
// whose undelimited concatenation "k:v" coincides.
func hashConcat(m map[int32]string) string {
	n := &sbom.Node{Hashes: m}
	_ = n
	keys := []string{}
	vals := map[string]string{}
	for k, v := range m {
		ks := fmt.Sprint(k)
		keys = append(keys, ks)
		vals[ks] = v
	}
	// string sort, as the encoding does
	for i := range keys {
		for j := i + 1; j < len(keys); j++ {
			if keys[j] < keys[i] {
				keys[i], keys[j] = keys[j], keys[i]
			}
		}
	}
	s := ""
	for _, k := range keys {
		s += k + ":" + vals[k]
	}
	return s
}

// EncodingCollisionTrigger names the known-finding family a pair of differing values falls into ("" = none).
func EncodingCollisionTrigger(a, b proto.Message) string { return discriminationTrigger(a, b) }

func discriminationTrigger(a, b proto.Message) string {
	na, oka := a.(*sbom.Node)
	nb, okb := b.(*sbom.Node)
	if oka && okb {
		ca, cb := proto.Clone(na).(*sbom.Node), proto.Clone(nb).(*sbom.Node)
		ca.Hashes, cb.Hashes = nil, nil
		if gen.Canon(ca, ordered) == gen.Canon(cb, ordered) && hashConcat(na.Hashes) == hashConcat(nb.Hashes) {
			return "hash-map-concatenation"
		}
	}
	if hasSeparatorValue(a.ProtoReflect()) || hasSeparatorValue(b.ProtoReflect()) {
		return "separator-injection"
	}
	return ""
}

type equaler func(a, b proto.Message) bool

func family(c *engine.Ctx, name string, vs []value, eq equaler, checksum func(m proto.Message) string) {
	c.Group(name + "-pairs")
	nStar := 0
	for _, v := range vs {
		if v.Star > 0 {
			nStar++
		}
	}
	c.Bound(name, fmt.Sprintf("%d values: all %d ordered pairs, all %d triples; plus %d wide values (nested collections of three entries, single and nested deviations) compared with themselves and with their base (thorough tier: with everything)", len(vs)-nStar, (len(vs)-nStar)*(len(vs)-nStar), (len(vs)-nStar)*(len(vs)-nStar)*(len(vs)-nStar), nStar))
	for i := range vs {
		for j := range vs {
			i, j := i, j
			if (vs[i].Star > 0 || vs[j].Star > 0) && !(i == j || (vs[i].Star == vs[j].Star && (vs[i].Star == i+1 || vs[j].Star == j+1))) {
				continue // wide values, quick tier: with themselves and with their base only
			}
			c.Case(func() any { return map[string]string{"a": vs[i].Label, "b": vs[j].Label} }, func(t *engine.T) *engine.Violation {
				a, b := vs[i], vs[j]
				before := gen.Snap(a.Msg) + gen.Snap(b.Msg)
				_ = before
				e1 := eq(a.Msg, b.Msg)
				e2 := eq(b.Msg, a.Msg)
				t.Transitions(2)
				t.Validated(1)
				if i == j && !e1 {
					return engine.Violate("reflexive", "", "%s is not equal to itself", a.Label)
				}
				if e1 != e2 {
					return engine.Violate("symmetric", "", "Equal(%s,%s)=%v but Equal(%s,%s)=%v", a.Label, b.Label, e1, b.Label, a.Label, e2)
				}
				if checksum != nil {
					ce := checksum(a.Msg) == checksum(b.Msg)
					if ce != e1 {
						return engine.Violate("checksum-agreement", "", "Equal(%s,%s)=%v but checksums equal=%v", a.Label, b.Label, e1, ce)
					}
				}
				if checksum != nil {
					t.Observe(fmt.Sprint(e1, checksum(a.Msg), checksum(b.Msg)))
				} else {
					t.Observe(fmt.Sprint(e1))
				}
				same := a.Canon == b.Canon
				if e1 && !same {
					return engine.Violate("discrimination", discriminationTrigger(a.Msg, b.Msg), "%s and %s compare equal but differ in content:\n a=%s\n b=%s", a.Label, b.Label, a.Canon, b.Canon)
				}
				if !e1 && same && related(vs, i, j) {
					return engine.Violate("order-insensitive", "", "%s and %s have the same content up to order (or sub-second) but compare unequal:\n a=%s\n b=%s", a.Label, b.Label, gen.Snap(a.Msg), gen.Snap(b.Msg))
				}
				t.State(name + ":" + a.Label + "|" + b.Label)
				t.Outcome(fmt.Sprintf("%s equal=%v samecontent=%v", name, e1, same))
				if same != (i == j) {
					t.NonTrivial()
				}
				return nil
			})
		}
	}
	// transitivity over all triples: one case per first index, matrix computed locally
	c.Group(name + "-triples")
	// rows of the equality matrix are computed on demand (row i, and the rows of the values equal to i): a case costs
	// O(n x size of i's class) comparisons instead of n^2
	mat := make([][]bool, len(vs))
	row := func(a int) []bool {
		if mat[a] == nil {
			r := make([]bool, len(vs))
			for b := range vs {
				if vs[a].Star != vs[b].Star {
					continue // wide values, quick tier: within their family only
				}
				r[b] = eq(vs[a].Msg, vs[b].Msg)
			}
			mat[a] = r
		}
		return mat[a]
	}
	for i := range vs {
		i := i
		if vs[i].Star > 0 && vs[i].Star != i+1 {
			continue // wide values, quick tier: the row of the family's base only
		}
		c.Case(func() any {
			return map[string]any{"row": vs[i].Label, "triples-with-this-first-element": len(vs) * len(vs)}
		}, func(t *engine.T) *engine.Violation {
			mat = make([][]bool, len(vs)) // per run of the case (the rows depend on the map iteration order of the run)
			ri := row(i)
			for j := range vs {
				if !ri[j] {
					continue
				}
				t.Alive()
				rj := row(j)
				for k := range vs {
					if rj[k] && !ri[k] {
						return engine.Violate("transitive", "", "%s=%s and %s=%s but %s!=%s", vs[i].Label, vs[j].Label, vs[j].Label, vs[k].Label, vs[i].Label, vs[k].Label)
					}
				}
			}
			rows := 0
			for a := range mat {
				if mat[a] != nil {
					rows++
				}
			}
			t.Transitions(rows * len(vs))
			t.State(name + ":row:" + vs[i].Label)
			t.Outcome(name + " transitive-row-ok")
			return nil
		})
	}
}

// related: both are order/sub-second variants of the same base (or one is the base).
func related(vs []value, i, j int) bool {
	bi, bj := vs[i].PermOf, vs[j].PermOf
	if bi < 0 {
		bi = i
	}
	if bj < 0 {
		bj = j
	}
	return bi == bj
}

// stringContents: at every string-valued place of a populated node / edge, every ordered pair of the near-string
// menu on the two sides: equality (and checksum agreement) holds iff the two strings are the same string.
func stringContents(c *engine.Ctx) {
	c.Group("string-contents")
	menu := gen.NearStrings()
	full := &sbom.Node{}
	gen.Full(full, "A", 2)
	slots := gen.StringSlots(full, 2)
	edge := &sbom.Edge{From: "a", Type: sbom.Edge_contains, To: []string{"b", "c"}}
	eslots := gen.StringSlots(edge, 0)
	// all ordered pairs of the near-string menu, plus every word-like literal of the library's sources against its
	// own case variants and against itself with a blank or a letter attached (values the code itself knows: a comparison
	// that canonicalises recognised words equates them)
	var pairs [][2]string
	for i := range menu {
		for j := range menu {
			pairs = append(pairs, [2]string{menu[i], menu[j]})
		}
	}
	nMenuPairs := len(pairs)
	lits, _ := gen.Literals()
	for _, l := range lits {
		if len(l) > 16 || strings.ContainsAny(l, "%\\\"`") {
			continue
		}
		for _, v := range []string{strings.ToLower(l), strings.ToUpper(l), l + " ", "x" + l} {
			if v != l {
				pairs = append(pairs, [2]string{l, v})
			}
		}
	}
	c.Bound("string-contents", fmt.Sprintf("(%d node + %d edge string-valued places) x (all %d ordered pairs of a %d-entry near-string menu + %d pairs of a source literal with a case variant / padded / prefixed form of itself)", len(slots), len(eslots), nMenuPairs, len(menu), len(pairs)-nMenuPairs))
	run := func(kind string, base proto.Message, sl []gen.StringSlot, eq equaler, sum func(m proto.Message) string) {
		for si := range sl {
			for pi := range pairs {
				{
					si, i, j := si, 0, 1
					menu := pairs[pi][:]
					pi := pi
					c.Case(func() any {
						return map[string]any{"kind": kind, "place": sl[si].Label, "first": menu[i], "second": menu[j]}
					}, func(t *engine.T) *engine.Violation {
						a, b := proto.Clone(base), proto.Clone(base)
						sl[si].Set(a.ProtoReflect(), menu[i])
						sl[si].Set(b.ProtoReflect(), menu[j])
						e1, e2 := eq(a, b), eq(b, a)
						t.Transitions(2)
						t.Validated(1)
						if e1 != e2 {
							return engine.Violate("symmetric", "", "%s place %s: Equal(%q,%q)=%v but reversed %v", kind, sl[si].Label, menu[i], menu[j], e1, e2)
						}
						if sum != nil && (sum(a) == sum(b)) != e1 {
							return engine.Violate("checksum-agreement", "", "%s place %s with %q vs %q: Equal=%v but checksums equal=%v", kind, sl[si].Label, menu[i], menu[j], e1, !e1)
						}
						if e1 && menu[i] != menu[j] {
							return engine.Violate("discrimination", discriminationTrigger(a, b), "%s place %s: %q and %q compare equal", kind, sl[si].Label, menu[i], menu[j])
						}
						if !e1 && menu[i] == menu[j] {
							return engine.Violate("reflexive", "", "%s place %s: the same value %q on both sides compares unequal", kind, sl[si].Label, menu[i])
						}
						t.State(fmt.Sprintf("str|%s|%s|%d", kind, sl[si].Label, pi))
						t.Outcome(fmt.Sprintf("string-contents equal=%v", e1))
						return nil
					})
				}
			}
		}
	}
	run("node", full, slots, func(a, b proto.Message) bool { return a.(*sbom.Node).Equal(b.(*sbom.Node)) }, func(m proto.Message) string { return m.(*sbom.Node).Checksum() })
	run("edge", edge, eslots, func(a, b proto.Message) bool { return a.(*sbom.Edge).Equal(b.(*sbom.Edge)) }, nil)
}

func Run(c *engine.Ctx) {
	stringContents(c)
	family(c, "node", nodeValues(c.Thorough()),
		func(a, b proto.Message) bool { return a.(*sbom.Node).Equal(b.(*sbom.Node)) },
		func(m proto.Message) string { return m.(*sbom.Node).Checksum() })
	family(c, "edge", edgeValues(),
		func(a, b proto.Message) bool { return a.(*sbom.Edge).Equal(b.(*sbom.Edge)) }, nil)
	family(c, "list", listValues(),
		func(a, b proto.Message) bool { return a.(*sbom.NodeList).Equal(b.(*sbom.NodeList)) }, nil)
	deepNesting(c)
	afterEdit(c)
	wideLists(c)
	// nil argument
	c.Group("nil")
	c.Case(func() any { return "Equal(nil)" }, func(t *engine.T) *engine.Violation {
		if (&sbom.Node{}).Equal(nil) || (&sbom.Edge{}).Equal(nil) || (&sbom.NodeList{}).Equal(nil) {
			return engine.Violate("nil-unequal", "", "a value compares equal to nil")
		}
		return nil
	})
}

// deepNesting: a node (and a list holding it) whose supplier's contacts nest 1..130 levels; a change of one person at
// any level makes the values unequal (both directions, checksums differ), an untouched clone stays equal.
func deepNesting(c *engine.Ctx) {
	c.Group("deep-nesting")
	depths := gen.DepthLadder(130)
	c.Bound("deep-nesting", fmt.Sprintf("supplier contact chains of depth %v: a clone is equal; an edit (name, e-mail, a removed contact) of the person at every level makes node and list unequal in both directions with different checksums", depths))
	for _, d := range depths {
		d := d
		c.Case(func() any { return map[string]any{"depth": d} }, func(t *engine.T) *engine.Violation {
			mk := func() *sbom.Node {
				return &sbom.Node{Id: "a", Name: "n", Suppliers: []*sbom.Person{gen.ContactChain(d)}}
			}
			ls := func(n *sbom.Node) *sbom.NodeList {
				return &sbom.NodeList{Nodes: []*sbom.Node{n, {Id: "b"}}, RootElements: []string{"a"}}
			}
			base := mk()
			if cl := mk(); !base.Equal(cl) || !cl.Equal(base) || base.Checksum() != cl.Checksum() || !ls(base).Equal(ls(cl)) {
				return engine.Violate("reflexive", "deep", "two identically built nodes with a contact chain of depth %d do not compare equal", d)
			}
			for level := 0; level <= d; level++ {
				for ei, edit := range []func(p *sbom.Person){
					func(p *sbom.Person) { p.Name += "x" },
					func(p *sbom.Person) { p.Email = "other@example.com" },
					func(p *sbom.Person) {
						if len(p.Contacts) > 0 {
							p.Contacts = p.Contacts[:len(p.Contacts)-1]
						} else {
							p.Contacts = []*sbom.Person{{Name: "added"}}
						}
					},
				} {
					v := mk()
					edit(gen.PersonAt(v.Suppliers[0], level))
					t.Transitions(4)
					t.Validated(1)
					if base.Equal(v) || v.Equal(base) {
						return engine.Violate("discrimination", "", "contact chain of depth %d: edit %d of the person at level %d is not seen by Node.Equal", d, ei, level)
					}
					if base.Checksum() == v.Checksum() {
						return engine.Violate("checksum-agreement", "", "contact chain of depth %d: edit %d of the person at level %d leaves the checksum unchanged", d, ei, level)
					}
					if ls(base).Equal(ls(v)) || ls(v).Equal(ls(base)) {
						return engine.Violate("discrimination", "", "contact chain of depth %d: edit %d of the person at level %d is not seen by NodeList.Equal", d, ei, level)
					}
				}
			}
			t.State(fmt.Sprint("deep", d))
			t.Outcome("deep-ok")
			return nil
		})
	}
}

// afterEdit: a node (and a list holding it) is compared and hashed, then edited in place, then compared and hashed
// again. The second answers must be those of a freshly built copy of the edited value (differential oracle). Edits come
// from the deviation generator, so they include changes that keep the encoded size, the number of elements and the
// identifier; anything remembered about a value from an earlier call and validated too weakly shows here.
func afterEdit(c *engine.Ctx) {
	c.Group("after-edit")
	full := &sbom.Node{}
	gen.Full(full, "A", 2)
	bases := map[string]*sbom.Node{"full": full, "sparse": {Id: "n1", Name: "sparse", Version: "1.0"}}
	n := 0
	for _, bn := range []string{"full", "sparse"} {
		base := bases[bn]
		devs := gen.Deviations(base, 2)
		n += len(devs)
		for di := range devs {
			bn, di := bn, di
			c.Case(func() any { return map[string]string{"base": bn, "edit-after-first-comparison": devs[di].Label} }, func(t *engine.T) *engine.Violation {
				v := proto.Clone(base).(*sbom.Node)
				ref := proto.Clone(base).(*sbom.Node)
				ls := func(x *sbom.Node) *sbom.NodeList {
					return &sbom.NodeList{Nodes: []*sbom.Node{x, {Id: "other"}}, RootElements: []string{"other"}}
				}
				lv, lref := ls(v), ls(ref)
				// first round of questions
				_, _, _, _ = v.Checksum(), v.Equal(ref), ref.Equal(v), lv.Equal(lref)
				func() {
					defer func() { _ = recover() }()
					devs[di].Mutate(v.ProtoReflect())
				}()
				fresh := proto.Clone(v).(*sbom.Node)
				lf := ls(fresh)
				t.Transitions(8)
				t.Validated(4)
				if a, b := v.Checksum(), fresh.Checksum(); a != b {
					return engine.Violate("checksum-agreement", "after-edit", "after the in-place edit %s the node's checksum is %s, a fresh copy of the same content has %s", devs[di].Label, a, b)
				}
				if a, b := v.Equal(ref), fresh.Equal(ref); a != b {
					return engine.Violate("discrimination", "after-edit", "after the in-place edit %s Equal(edited, base)=%v, with a fresh copy of the edited node it is %v", devs[di].Label, a, b)
				}
				if a, b := ref.Equal(v), ref.Equal(fresh); a != b {
					return engine.Violate("symmetric", "after-edit", "after the in-place edit %s Equal(base, edited)=%v, with a fresh copy of the edited node it is %v", devs[di].Label, a, b)
				}
				if a, b := lv.Equal(lref), lf.Equal(lref); a != b {
					return engine.Violate("discrimination", "after-edit", "after the in-place edit %s NodeList.Equal(list with the edited node, base list)=%v, with a fresh copy it is %v", devs[di].Label, a, b)
				}
				if a, b := lref.Equal(lv), lref.Equal(lf); a != b {
					return engine.Violate("symmetric", "after-edit", "after the in-place edit %s NodeList.Equal(base list, list with the edited node)=%v, with a fresh copy it is %v", devs[di].Label, a, b)
				}
				t.State("after-edit|" + bn + "|" + devs[di].Label)
				t.Outcome("after-edit-ok")
				return nil
			})
		}
	}
	c.Bound("after-edit", fmt.Sprintf("%d in-place edits (every deviation of a fully populated and of a sparse node, nested to depth 2) between two rounds of Checksum / Node.Equal / NodeList.Equal on the same values; second answers = answers on a fresh copy of the edited value", n))
}

// wideLists: node lists of 131, 515 and 1027 nodes under several processor counts (an environment answer): an equal
// copy, the nodes in another order (last node first, reversed) are equal; a change of one node at the first, a middle
// and each of the last three positions makes the lists unequal, in both directions.
func wideLists(c *engine.Ctx) {
	c.Group("wide-lists")
	sizes := []int{131, 515, 1027}
	procs := []int{2, 3, 4, 16}
	c.Bound("wide-lists", fmt.Sprintf("lists of %v nodes x GOMAXPROCS %v: equal copy, last node moved to the front, reversed order are equal; one node changed at position first / middle / each of the last three is unequal in both directions", sizes, procs))
	mk := func(n int) *sbom.NodeList {
		nl := &sbom.NodeList{RootElements: []string{"w0000"}}
		for i := 0; i < n; i++ {
			id := fmt.Sprintf("w%04d", i)
			nl.Nodes = append(nl.Nodes, &sbom.Node{Id: id, Name: "n-" + id, Version: "1", Hashes: map[int32]string{1: "h" + id}})
			if i > 0 {
				nl.Edges = append(nl.Edges, &sbom.Edge{From: "w0000", Type: sbom.Edge_contains, To: []string{id}})
			}
		}
		return nl
	}
	for _, n := range sizes {
		for _, pr := range procs {
			n, pr := n, pr
			c.Case(func() any { return map[string]int{"nodes": n, "GOMAXPROCS": pr} }, func(t *engine.T) *engine.Violation {
				defer runtime.GOMAXPROCS(runtime.GOMAXPROCS(pr))
				base := mk(n)
				if cp := mk(n); !base.Equal(cp) || !cp.Equal(base) {
					return engine.Violate("reflexive", "wide", "two identically built lists of %d nodes compare unequal (GOMAXPROCS %d)", n, pr)
				}
				moved := mk(n)
				last := moved.Nodes[n-1]
				moved.Nodes = append([]*sbom.Node{last}, moved.Nodes[:n-1]...)
				if !base.Equal(moved) || !moved.Equal(base) {
					return engine.Violate("order-insensitive", "wide", "%d nodes, GOMAXPROCS %d: moving the last node to the front makes the lists unequal", n, pr)
				}
				rev := mk(n)
				for i, j := 0, n-1; i < j; i, j = i+1, j-1 {
					rev.Nodes[i], rev.Nodes[j] = rev.Nodes[j], rev.Nodes[i]
				}
				if !base.Equal(rev) || !rev.Equal(base) {
					return engine.Violate("order-insensitive", "wide", "%d nodes, GOMAXPROCS %d: the reversed node order makes the lists unequal", n, pr)
				}
				t.Transitions(6)
				for _, idx := range []int{0, n / 2, n - 3, n - 2, n - 1} {
					v := mk(n)
					v.Nodes[idx].Name += "-changed"
					t.Transitions(2)
					t.Validated(1)
					if base.Equal(v) || v.Equal(base) {
						return engine.Violate("discrimination", "", "%d nodes, GOMAXPROCS %d: a changed name of the node at position %d is not seen by NodeList.Equal", n, pr, idx)
					}
				}
				t.State(fmt.Sprint("wide", n, pr))
				t.Outcome("wide-lists-ok")
				return nil
			})
		}
	}
}
