// Package c07: serializers are total and deterministic on arbitrary documents.
package c07

import (
	"bytes"
	"encoding/json"
	"errors"
	"fmt"
	"github.com/protobom/protobom/pkg/writer"
	"os"
	"os/exec"
	"strings"
	"time"

	"github.com/protobom/protobom/pkg/formats"
	"github.com/protobom/protobom/pkg/sbom"
	"google.golang.org/protobuf/proto"
	"google.golang.org/protobuf/types/known/timestamppb"

	"mcverif/engine"
	"mcverif/gen"
	"mcverif/rw"
	"mcverif/vmap"
)

var Spec = engine.Spec{
	ID: "C07", Run: Run, MapOrders: true, MapOrdersQuick: []int{vmap.Alternating}, QuickBud: 6 * time.Minute, ThorBud: 60 * time.Minute,
	Technique: "explicit-state search over Document construction histories (deviation-bounded from the all-nil message and from a well-formed base; de-duplicated by snapshot) x 8 serializers, real WriteStreamWithOptions under recover; exhaustive short serialization histories compared with fresh-process reference outputs",
	Rule:      "state = Document reached by <=d construction steps from a base (steps: set/leave nil metadata and node list, ids empty/duplicate, out-of-range enums, dangling edges and roots, cycles, document types with every subset of optional fields...); key = field-by-field snapshot; case = (state, format, as-built | after proto round trip)",
	Assume:    []string{"nil elements inside repeated fields are not values of the message type (proto.Marshal rejects them) and are excluded", "outputs compared after removing creation timestamps and sorting every JSON array"},
}

type step struct {
	Name string
	Do   func(d *sbom.Document)
}

func md(d *sbom.Document) *sbom.Metadata {
	if d.Metadata == nil {
		d.Metadata = &sbom.Metadata{}
	}
	return d.Metadata
}

func nl(d *sbom.Document) *sbom.NodeList {
	if d.NodeList == nil {
		d.NodeList = &sbom.NodeList{}
	}
	return d.NodeList
}

func steps() []step {
	var s []step
	add := func(n string, f func(d *sbom.Document)) { s = append(s, step{n, f}) }
	add("meta:new", func(d *sbom.Document) { md(d) })
	add("meta:id", func(d *sbom.Document) { md(d).Id = "urn:uuid:3e671687-395b-41f5-a30f-a58921a69b79" })
	add("meta:name", func(d *sbom.Document) { md(d).Name = "doc-name" })
	add("meta:version=2", func(d *sbom.Document) { md(d).Version = "2" })
	add("meta:version=x", func(d *sbom.Document) { md(d).Version = "x" })
	add("meta:comment", func(d *sbom.Document) { md(d).Comment = "c" })
	add("meta:tool", func(d *sbom.Document) { md(d).Tools = append(md(d).Tools, &sbom.Tool{Name: "t", Version: "1"}) })
	add("meta:author", func(d *sbom.Document) { md(d).Authors = append(md(d).Authors, &sbom.Person{Name: "p", Email: "e"}) })
	add("meta:date", func(d *sbom.Document) { md(d).Date = timestamppb.New(time.Unix(1700000000, 0)) })
	for mask := 0; mask < 8; mask++ {
		mask := mask
		add(fmt.Sprintf("doctype:BUILD[type=%v name=%v desc=%v]", mask&1 != 0, mask&2 != 0, mask&4 != 0), func(d *sbom.Document) {
			dt := &sbom.DocumentType{}
			if mask&1 != 0 {
				dt.Type = sbom.DocumentType_BUILD.Enum()
			}
			if mask&2 != 0 {
				n := "tn"
				dt.Name = &n
			}
			if mask&4 != 0 {
				x := "td"
				dt.Description = &x
			}
			md(d).DocumentTypes = append(md(d).DocumentTypes, dt)
		})
	}
	for _, ty := range []sbom.DocumentType_SBOMType{sbom.DocumentType_OTHER, 99} {
		for _, named := range []bool{false, true} {
			ty, named := ty, named
			add(fmt.Sprintf("doctype:%d[name=%v]", ty, named), func(d *sbom.Document) {
				dt := &sbom.DocumentType{Type: ty.Enum()}
				if named {
					n := "Custom"
					dt.Name = &n
				}
				md(d).DocumentTypes = append(md(d).DocumentTypes, dt)
			})
		}
	}
	add("nl:new", func(d *sbom.Document) { nl(d) })
	node := func(name string, mk func() *sbom.Node) {
		add("node:"+name, func(d *sbom.Document) { nl(d).Nodes = append(nl(d).Nodes, mk()) })
	}
	node("a", func() *sbom.Node { return &sbom.Node{Id: "a", Name: "na"} })
	node("b", func() *sbom.Node { return &sbom.Node{Id: "b", Name: "nb"} })
	node("a-file", func() *sbom.Node { return &sbom.Node{Id: "a", Type: sbom.Node_FILE, Name: "fa"} })
	node("empty-id", func() *sbom.Node { return &sbom.Node{} })
	// identifiers inside or next to the namespace the library generates (protobom-<flags>--<seed>)
	for _, rid := range []string{"protobom-lib", "protobom-", "protobom", "protobom-auto", "protobom-auto--000000001", "protobom--", "--", "protobom-auto-x--"} {
		rid := rid
		node("reserved:"+rid, func() *sbom.Node { return &sbom.Node{Id: rid, Name: "reserved"} })
	}
	node("b-type7", func() *sbom.Node { return &sbom.Node{Id: "b", Type: 7} })
	node("c-full", func() *sbom.Node {
		n := &sbom.Node{}
		gen.Full(n, "F", 2)
		n.Id = "c"
		return n
	})
	node("b-2purposes", func() *sbom.Node {
		return &sbom.Node{Id: "b", PrimaryPurpose: []sbom.Purpose{sbom.Purpose_LIBRARY, sbom.Purpose_APPLICATION}}
	})
	node("b-purpose99-hash99-id99", func() *sbom.Node {
		return &sbom.Node{Id: "b", PrimaryPurpose: []sbom.Purpose{99}, Hashes: map[int32]string{99: "h", 0: "z"}, Identifiers: map[int32]string{99: "i"}, ExternalReferences: []*sbom.ExternalReference{{Type: 999, Url: "u", Hashes: map[int32]string{77: "x"}}}}
	})
	// negative numbers wherever an enum or an enum-keyed map sits (any int32 is a legal value on the wire)
	node("b-negative-numbers", func() *sbom.Node {
		return &sbom.Node{Id: "b", Type: -1, PrimaryPurpose: []sbom.Purpose{-1, -2147483648}, Hashes: map[int32]string{-1: "h", -2147483648: "m"}, Identifiers: map[int32]string{-1: "i", -2147483648: "j"}, ExternalReferences: []*sbom.ExternalReference{{Type: -1, Url: "u", Hashes: map[int32]string{-1: "x"}}}}
	})
	node("a-negative-identifier-package", func() *sbom.Node {
		return &sbom.Node{Id: "a", Name: "na", Identifiers: map[int32]string{-1: "i", 1: "pkg:generic/a@1"}, Hashes: map[int32]string{-7: "h", 3: "aa"}}
	})
	// every identifier type and every hash algorithm at once, with distinct values (a serializer that keeps "the first
	// one it sees" depends on the map iteration order), and the variant with empty values in between
	node("a-all-identifiers-and-hashes", func() *sbom.Node {
		n := &sbom.Node{Id: "a", Name: "na", Identifiers: map[int32]string{}, Hashes: map[int32]string{}}
		for k := range sbom.SoftwareIdentifierType_name {
			n.Identifiers[k] = fmt.Sprintf("identifier-%d", k)
		}
		for k := range sbom.HashAlgorithm_name {
			n.Hashes[k] = fmt.Sprintf("%02x%02x", k, k+1)
		}
		return n
	})
	node("a-identifiers-some-empty", func() *sbom.Node {
		n := &sbom.Node{Id: "a", Name: "na", Identifiers: map[int32]string{}, Hashes: map[int32]string{}}
		for k := range sbom.SoftwareIdentifierType_name {
			n.Identifiers[k] = ""
			if k%2 == 0 {
				n.Identifiers[k] = fmt.Sprintf("identifier-%d", k)
			}
		}
		for k := range sbom.HashAlgorithm_name {
			n.Hashes[k] = ""
			if k%2 == 1 {
				n.Hashes[k] = fmt.Sprintf("%02x", k)
			}
		}
		return n
	})
	node("a-identifiers-other-half-empty", func() *sbom.Node {
		n := &sbom.Node{Id: "a", Name: "na", Identifiers: map[int32]string{}}
		for k := range sbom.SoftwareIdentifierType_name {
			n.Identifiers[k] = ""
			if k%2 == 1 {
				n.Identifiers[k] = fmt.Sprintf("identifier-%d", k)
			}
		}
		return n
	})
	node("b-empty-person", func() *sbom.Node {
		return &sbom.Node{Id: "b", Suppliers: []*sbom.Person{{}}, Originators: []*sbom.Person{{Contacts: []*sbom.Person{{}}}}, ExternalReferences: []*sbom.ExternalReference{{}}}
	})
	for _, from := range []string{"a", "b", "x"} {
		for _, ty := range []sbom.Edge_Type{sbom.Edge_contains, sbom.Edge_dependsOn} {
			for _, to := range [][]string{{"b"}, {"a"}, {"x"}, {}} {
				from, ty, to := from, ty, to
				add(fmt.Sprintf("edge:%s-%s->%v", from, ty, to), func(d *sbom.Document) {
					nl(d).Edges = append(nl(d).Edges, &sbom.Edge{From: from, Type: ty, To: append([]string{}, to...)})
				})
			}
		}
	}
	add("edge:a-other->[b]", func(d *sbom.Document) {
		nl(d).Edges = append(nl(d).Edges, &sbom.Edge{From: "a", Type: sbom.Edge_other, To: []string{"b"}})
	})
	add("edge:a-(-1)->[b]", func(d *sbom.Document) {
		nl(d).Edges = append(nl(d).Edges, &sbom.Edge{From: "a", Type: -1, To: []string{"b"}})
	})
	add("doctype:-1", func(d *sbom.Document) {
		md(d).DocumentTypes = append(md(d).DocumentTypes, &sbom.DocumentType{Type: sbom.DocumentType_SBOMType(-1).Enum()})
	})
	add("edge:a-999->[b]", func(d *sbom.Document) {
		nl(d).Edges = append(nl(d).Edges, &sbom.Edge{From: "a", Type: 999, To: []string{"b"}})
	})
	add("edge:empty", func(d *sbom.Document) { nl(d).Edges = append(nl(d).Edges, &sbom.Edge{}) })
	for _, r := range []string{"a", "b", "x", ""} {
		r := r
		add("root:"+r, func(d *sbom.Document) { nl(d).RootElements = append(nl(d).RootElements, r) })
	}
	return s
}

type base struct {
	Name string
	Mk   func() *sbom.Document
}

func bases() []base {
	return []base{
		{"all-nil", func() *sbom.Document { return &sbom.Document{} }},
		{"new-document", func() *sbom.Document { return sbom.NewDocument() }},
		{"well-formed", func() *sbom.Document {
			d := sbom.NewDocument()
			d.Metadata.Id, d.Metadata.Name, d.Metadata.Version = "urn:uuid:3e671687-395b-41f5-a30f-a58921a69b79", "wf", "1"
			d.NodeList.Nodes = []*sbom.Node{{Id: "a", Name: "na"}, {Id: "b", Name: "nb"}}
			d.NodeList.Edges = []*sbom.Edge{{From: "a", Type: sbom.Edge_contains, To: []string{"b"}}}
			d.NodeList.RootElements = []string{"a"}
			return d
		}},
	}
}

func buildState(b base, all []step, path []int) *sbom.Document {
	d := b.Mk()
	for _, i := range path {
		all[i].Do(d)
	}
	return d
}

func pathNames(all []step, path []int) []string {
	out := make([]string, len(path))
	for i, p := range path {
		out[i] = all[p].Name
	}
	return out
}

func Run(c *engine.Ctx) {
	all := steps()
	depth := map[string]int{"all-nil": 2, "new-document": 2, "well-formed": 2}
	if c.Thorough() {
		depth = map[string]int{"all-nil": 3, "new-document": 3, "well-formed": 3}
	}
	for _, b := range bases() {
		b := b
		c.Group("totality-" + b.Name)
		// breadth-first generation of the distinct states (every worker regenerates the frontier; cheap)
		type st struct{ path []int }
		seen := map[string]bool{}
		frontier := []st{{}}
		seen[gen.Snap(b.Mk())] = true
		var states []st
		states = append(states, st{})
		for d := 0; d < depth[b.Name]; d++ {
			var next []st
			for _, s := range frontier {
				for i := range all {
					p := append(append([]int{}, s.path...), i)
					k := gen.Snap(buildState(b, all, p))
					if seen[k] {
						continue
					}
					seen[k] = true
					next = append(next, st{p})
				}
			}
			states = append(states, next...)
			frontier = next
		}
		c.Bound("totality-"+b.Name, fmt.Sprintf("all %d distinct documents within %d construction steps (menu of %d) of base %s x %d formats x {as built, after proto round trip}", len(states), depth[b.Name], len(all), b.Name, len(rw.AllFormats)))
		for _, s := range states {
			if c.Expired() {
				c.Cap("deadline in totality-" + b.Name)
				break
			}
			for _, f := range rw.AllFormats {
				for variant := 0; variant < 2; variant++ {
					s, f, variant := s, f, variant
					c.Case(func() any {
						return map[string]any{"base": b.Name, "steps": pathNames(all, s.path), "format": string(f), "after-proto-roundtrip": variant == 1}
					}, func(t *engine.T) *engine.Violation {
						d := buildState(b, all, s.path)
						if variant == 1 {
							raw, err := proto.Marshal(d)
							if err != nil {
								t.Outcome("not-a-message-value")
								return nil
							}
							d = &sbom.Document{}
							if err := proto.Unmarshal(raw, d); err != nil {
								return engine.Violate("harness", "", "proto round trip failed: %v", err)
							}
						}
						indent := 2
						if len(s.path) <= 1 && variant == 0 {
							indent = -1 // nil render options
						}
						out1, err1 := rw.Write(d, f, indent)
						t.Transitions(1)
						if err1 == nil && len(out1) == 0 {
							return engine.Violate("neither", fam(f), "no error and no output")
						}
						out2, err2 := rw.Write(d, f, indent)
						t.Transitions(1)
						if (err1 == nil) != (err2 == nil) {
							return engine.Violate("nondeterministic", fam(f), "first call err=%v, second call err=%v", err1, err2)
						}
						if err1 == nil {
							n1, e1 := rw.NormalizeJSON(out1)
							n2, e2 := rw.NormalizeJSON(out2)
							if e1 != nil || e2 != nil {
								return engine.Violate("output-not-json", fam(f), "output is not JSON: %v %v", e1, e2)
							}
							t.Validated(1)
							if n1 != n2 {
								return engine.Violate("nondeterministic", fam(f), "two serializations of the same document differ:\n%s\n%s", n1, n2)
							}
							t.Observe(n1)
							t.Outcome(fam(f) + ":output")
						} else {
							t.Observe("error")
							t.Outcome(fam(f) + ":error")
						}
						t.State(b.Name + "|" + strings.Join(pathNames(all, s.path), ";") + fmt.Sprint(variant))
						return nil
					})
				}
			}
		}
	}
	stringValues(c)
	graphShapes(c)
	sizeClasses(c)
	histories(c)
	fileHistories(c)
	writerObjectHistories(c)
}

// graphShapes: totality over containment shapes the construction-step search cannot reach at its depth:
// every ordered list of <=3 contains-edge objects with 1..2 ordered targets (self included) over four
// nodes, rooted at the first. Self-containment, cycles and multiple parents are all inside.
func graphShapes(c *engine.Ctx) {
	c.Group("totality-graph-shapes")
	if !c.Thorough() {
		c.SetOrderSweep(false) // quick tier: this group runs under ascending map order only (266k CycloneDX serializations)
		defer c.SetOrderSweep(true)
	}
	ids := []string{"r", "a", "b", "c"}
	type eo struct {
		From string
		To   []string
	}
	var objs []eo
	for _, f := range ids {
		for _, t1 := range ids {
			objs = append(objs, eo{f, []string{t1}})
			for _, t2 := range ids {
				if t2 != t1 {
					objs = append(objs, eo{f, []string{t1, t2}})
				}
			}
		}
	}
	fs := []formats.Format{formats.CDX15JSON, formats.SPDX23JSON}
	if c.Thorough() {
		fs = []formats.Format{formats.CDX12JSON, formats.CDX14JSON, formats.CDX15JSON, formats.SPDX23JSON}
	}
	c.Bound("totality-graph-shapes", fmt.Sprintf("nodes %v rooted at r; every ordered list of <=3 contains-edge objects over %d candidates (1..2 ordered targets, self included) x %d formats", ids, len(objs), len(fs)))
	var rec func(cur []int)
	rec = func(cur []int) {
		if c.Expired() {
			c.Cap("deadline in totality-graph-shapes")
			return
		}
		sel := append([]int{}, cur...)
		for _, f := range fs {
			f := f
			if !c.Thorough() && len(sel) == 3 && f == formats.SPDX23JSON {
				continue // quick tier: SPDX (no nesting pass) up to two edge objects
			}
			c.Case(func() any {
				var l []eo
				for _, i := range sel {
					l = append(l, objs[i])
				}
				return map[string]any{"edges": l, "format": string(f)}
			}, func(t *engine.T) *engine.Violation {
				build := func() *sbom.Document {
					d := sbom.NewDocument()
					d.Metadata.Id = "urn:uuid:3e671687-395b-41f5-a30f-a58921a69b79"
					for _, id := range ids {
						d.NodeList.Nodes = append(d.NodeList.Nodes, &sbom.Node{Id: id, Name: "n" + id})
					}
					d.NodeList.RootElements = []string{"r"}
					for _, i := range sel {
						d.NodeList.Edges = append(d.NodeList.Edges, &sbom.Edge{From: objs[i].From, Type: sbom.Edge_contains, To: append([]string{}, objs[i].To...)})
					}
					return d
				}
				d := build()
				out1, err1 := rw.Write(d, f, 2)
				t.Transitions(1)
				if err1 == nil && len(out1) == 0 {
					return engine.Violate("neither", fam(f), "no error and no output")
				}
				if len(sel) == 3 && !c.Thorough() {
					// quick tier: termination and error-xor-output only at the deepest level
					t.Outcome(fam(f) + ":shape-returned")
					t.State(fmt.Sprint("shape", sel, f))
					return nil
				}
				out2, err2 := rw.Write(d, f, 2)
				t.Transitions(1)
				if (err1 == nil) != (err2 == nil) {
					return engine.Violate("nondeterministic", fam(f), "first call err=%v, second call err=%v", err1, err2)
				}
				if err1 == nil {
					n1, e1 := rw.NormalizeJSON(out1)
					n2, e2 := rw.NormalizeJSON(out2)
					if e1 != nil || e2 != nil {
						return engine.Violate("output-not-json", fam(f), "output is not JSON: %v %v", e1, e2)
					}
					t.Validated(1)
					if n1 != n2 {
						return engine.Violate("nondeterministic", fam(f), "two serializations of the same document differ:\n%s\n%s", n1, n2)
					}
					t.Outcome(fam(f) + ":shape-output")
				} else {
					t.Outcome(fam(f) + ":shape-error")
				}
				if len(sel) <= 2 {
					// the same document value written in the other format afterwards: its output is that of a freshly built
					// document (a serializer that rearranges its input changes what the next one writes)
					other := formats.SPDX23JSON
					if f == formats.SPDX23JSON {
						other = formats.CDX15JSON
					}
					live, errL := rw.Write(d, other, 2)
					fresh, errF := rw.Write(build(), other, 2)
					t.Transitions(2)
					t.Validated(1)
					if (errL == nil) != (errF == nil) {
						return engine.Violate("history-dependent", fam(other), "after writing the document as %s, writing it as %s gives err=%v; a freshly built document gives err=%v", f, other, errL, errF)
					}
					if errL == nil {
						nl, _ := rw.NormalizeJSON(live)
						nf, _ := rw.NormalizeJSON(fresh)
						if nl != nf {
							return engine.Violate("history-dependent", fam(other), "after writing the document as %s, its %s output differs from that of a freshly built document:\nafter: %.500s\nfresh: %.500s", f, other, nl, nf)
						}
					}
				}
				t.State(fmt.Sprint("shape", sel, f))
				return nil
			})
		}
		if len(cur) == 3 {
			return
		}
		for i := range objs {
			rec(append(cur, i))
		}
	}
	rec(nil)
}

// sizeClasses: totality and determinism on the shared size-class documents (a 40-leaf and a 2000-leaf star, chains 20
// and 300 deep, a bushy tree, attribute-rich nodes) and on flat lists of 255 / 256 / 257 / 1025 nodes x 8 formats:
// buffers, worker pools and recursion limits are invisible to documents of four nodes.
func sizeClasses(c *engine.Ctx) {
	c.Group("size-classes")
	lists := gen.WideLists()
	for _, n := range []int{255, 256, 257, 1025} {
		nl := &sbom.NodeList{RootElements: []string{"r"}}
		nl.Nodes = append(nl.Nodes, &sbom.Node{Id: "r", Name: "root"})
		e := &sbom.Edge{From: "r", Type: sbom.Edge_contains}
		for i := 1; i < n; i++ {
			id := fmt.Sprintf("f%04d", i)
			nl.Nodes = append(nl.Nodes, &sbom.Node{Id: id, Name: "n" + id, Version: "1"})
			e.To = append(e.To, id)
		}
		nl.Edges = []*sbom.Edge{e}
		lists[fmt.Sprintf("flat%d", n)] = nl
	}
	var names []string
	for n := range lists {
		names = append(names, n)
	}
	sortStrings(names)
	c.Bound("size-classes", fmt.Sprintf("%d size-class documents %v x 8 formats: error or output, the same output twice", len(names), names))
	for _, n := range names {
		for _, f := range rw.AllFormats {
			n, f := n, f
			c.Case(func() any { return map[string]string{"document": n, "format": string(f)} }, func(t *engine.T) *engine.Violation {
				d := sbom.NewDocument()
				d.Metadata.Id = "urn:uuid:3e671687-395b-41f5-a30f-a58921a69b79"
				d.NodeList = proto.Clone(lists[n]).(*sbom.NodeList)
				out1, err1 := rw.Write(d, f, 2)
				out2, err2 := rw.Write(d, f, 2)
				t.Transitions(2)
				if (err1 == nil) != (err2 == nil) {
					return engine.Violate("nondeterministic", fam(f), "first call err=%v, second call err=%v", err1, err2)
				}
				if err1 == nil {
					if len(out1) == 0 {
						return engine.Violate("neither", fam(f), "no error and no output")
					}
					n1, e1 := rw.NormalizeJSON(out1)
					n2, e2 := rw.NormalizeJSON(out2)
					t.Validated(1)
					if e1 != nil || e2 != nil || n1 != n2 {
						return engine.Violate("nondeterministic", fam(f), "two serializations of the size-class document %s differ or are not JSON (%v, %v)", n, e1, e2)
					}
				}
				t.State("size|" + n + string(f))
				t.Outcome(fam(f) + ":size-class")
				return nil
			})
		}
	}
}

func fam(f formats.Format) string {
	switch {
	case f == rw.SPDX3:
		return "spdx3"
	case strings.Contains(string(f), "cyclonedx"):
		return "cdx"
	default:
		return "spdx23"
	}
}

// history documents --------------------------------------------------------

func histDocs() map[string]*sbom.Document {
	mk := func(id string, nodes []string, edges []*sbom.Edge, root string) *sbom.Document {
		d := sbom.NewDocument()
		d.Metadata.Id, d.Metadata.Name, d.Metadata.Version = "urn:uuid:"+id, "doc-"+id, "1"
		for _, n := range nodes {
			d.NodeList.Nodes = append(d.NodeList.Nodes, &sbom.Node{Id: n, Name: "n" + n, Version: "1", Hashes: map[int32]string{int32(sbom.HashAlgorithm_SHA256): "aa" + n}})
		}
		d.NodeList.Edges = edges
		if root != "" {
			d.NodeList.RootElements = []string{root}
		}
		return d
	}
	e := func(f string, t sbom.Edge_Type, to ...string) *sbom.Edge { return &sbom.Edge{From: f, Type: t, To: to} }
	// every field of the node schema populated (by reflection: lists and maps with three entries, nested persons with
	// e-mail, contacts, external references with hashes...), as packages and as a file: whatever a serializer reads, it
	// reads it here - and whatever it writes back into its input shows in the next serialization
	rich := func(id string) *sbom.Document {
		d := mk(id, nil, []*sbom.Edge{e("r", sbom.Edge_contains, "p", "f"), e("p", sbom.Edge_dependsOn, "f")}, "r")
		for i, nid := range []string{"r", "p", "f"} {
			n := &sbom.Node{}
			gen.Full(n, nid, 3)
			n.Id = nid
			n.Type = sbom.Node_PACKAGE
			if i == 2 {
				n.Type = sbom.Node_FILE
			}
			n.PrimaryPurpose = []sbom.Purpose{sbom.Purpose_LIBRARY}
			n.Identifiers = map[int32]string{int32(sbom.SoftwareIdentifierType_PURL): "pkg:apk/w/" + nid + "@1", int32(sbom.SoftwareIdentifierType_CPE23): "cpe:2.3:a:" + nid}
			n.Hashes = map[int32]string{int32(sbom.HashAlgorithm_SHA1): "1111", int32(sbom.HashAlgorithm_SHA256): "2222" + nid}
			d.NodeList.Nodes = append(d.NodeList.Nodes, n)
		}
		d.Metadata.Authors = []*sbom.Person{{Name: "Au Thor", Email: "au@example.com", Contacts: []*sbom.Person{{Name: "c", Email: "c@example.com"}}}}
		d.Metadata.Tools = []*sbom.Tool{{Name: "tool", Version: "1", Vendor: "v"}}
		return d
	}
	return map[string]*sbom.Document{
		"D11-rich":   rich("11"),
		"D0-empty":   sbom.NewDocument(),
		"D1-single":  mk("1", []string{"a"}, nil, "a"),
		"D2-tree":    mk("2", []string{"a", "b", "c"}, []*sbom.Edge{e("a", sbom.Edge_contains, "b"), e("b", sbom.Edge_contains, "c")}, "a"),
		"D3-deps":    mk("3", []string{"a", "b", "c"}, []*sbom.Edge{e("a", sbom.Edge_contains, "b", "c"), e("b", sbom.Edge_dependsOn, "c")}, "a"),
		"D4-other":   mk("4", []string{"b", "d"}, []*sbom.Edge{e("b", sbom.Edge_contains, "d")}, "b"),
		"D5-noroots": mk("5", []string{"a", "b"}, nil, ""),
		// the same identifiers as D2 with the containment reversed, nested below a non-root node, and cyclic:
		// state left behind by one serialization (placement, ancestry, component caches) must not steer another
		"D6-tree-reversed": mk("6", []string{"a", "b", "c"}, []*sbom.Edge{e("a", sbom.Edge_contains, "c"), e("c", sbom.Edge_contains, "b")}, "a"),
		"D7-deep":          mk("7", []string{"r", "a", "b", "c"}, []*sbom.Edge{e("r", sbom.Edge_contains, "a"), e("a", sbom.Edge_contains, "b"), e("b", sbom.Edge_contains, "c")}, "r"),
		"D8-deep-reversed": mk("8", []string{"r", "a", "b", "c"}, []*sbom.Edge{e("r", sbom.Edge_contains, "c"), e("c", sbom.Edge_contains, "b"), e("b", sbom.Edge_contains, "a")}, "r"),
		// not normalised: repeated targets (adjacent and apart) and two edge objects per source and type
		"D10-repeated-targets": mk("10", []string{"r", "a", "b"}, []*sbom.Edge{e("r", sbom.Edge_dependsOn, "a", "a", "b"), e("r", sbom.Edge_contains, "b", "a", "b"), e("r", sbom.Edge_dependsOn, "b", "a")}, "r"),
		"D9-cycle":             mk("9", []string{"r", "a", "b"}, []*sbom.Edge{e("a", sbom.Edge_contains, "b"), e("b", sbom.Edge_contains, "a"), e("r", sbom.Edge_dependsOn, "a")}, "r"),
	}
}

var histFormats = []formats.Format{formats.CDX15JSON, formats.SPDX23JSON, rw.SPDX3}

type hcall struct {
	Doc string
	F   formats.Format
}

func callOutput(k hcall) string {
	return callOutputOn(proto.Clone(histDocs()[k.Doc]).(*sbom.Document), k)
}

func callOutputOn(d *sbom.Document, k hcall) string {
	out, err := rw.Write(d, k.F, 2)
	if err != nil {
		return "error: " + err.Error()
	}
	n, err := rw.NormalizeJSON(out)
	if err != nil {
		return "not-json"
	}
	return n
}

// Aux is invoked in a fresh process: prints the normalised output of one serialization from the initial state.
func Aux(args []string) int {
	if len(args) != 2 {
		return 2
	}
	fmt.Print(callOutput(hcall{args[0], formats.Format(args[1])}))
	return 0
}

func histories(c *engine.Ctx) {
	c.Group("histories")
	docs := histDocs()
	var names []string
	for n := range docs {
		names = append(names, n)
	}
	sortStrings(names)
	var calls []hcall
	for _, n := range names {
		for _, f := range histFormats {
			calls = append(calls, hcall{n, f})
		}
	}
	depth := 2
	if c.Thorough() {
		depth = 3
	}
	c.Bound("histories", fmt.Sprintf("all sequences of <= %d serializations over %d calls (%d documents x %d formats); the last output must equal the output of the same call made first in a fresh process", depth, len(calls), len(names), len(histFormats)))
	// references from fresh processes (one process per call)
	refs := map[hcall]string{}
	self, _ := os.Executable()
	refFor := func(k hcall) (string, error) {
		if r, ok := refs[k]; ok {
			return r, nil
		}
		out, err := exec.Command(self, "--aux", "c07ref", k.Doc, string(k.F)).Output()
		if err != nil {
			return "", err
		}
		refs[k] = string(out)
		return refs[k], nil
	}
	var rec func(seq []hcall)
	rec = func(seq []hcall) {
		if len(seq) > 0 {
			s := append([]hcall{}, seq...)
			c.Case(func() any {
				b, _ := json.Marshal(s)
				return json.RawMessage(b)
			}, func(t *engine.T) *engine.Violation {
				k := s[len(s)-1]
				ref, err := refFor(k)
				if err != nil {
					return engine.Violate("harness", "", "reference process failed: %v", err)
				}
				// twice: every call on a fresh copy of its document (state kept inside the library), and every call on
				// the history's own live document values (a serializer that edits its input changes what the next one sees)
				for _, live := range []bool{false, true} {
					docs := map[string]*sbom.Document{}
					for n, d := range histDocs() {
						docs[n] = proto.Clone(d).(*sbom.Document) // the same normal form the reference process serializes
					}
					var last string
					for _, k := range s {
						if live {
							last = callOutputOn(docs[k.Doc], k)
						} else {
							last = callOutput(k)
						}
						t.Transitions(1)
					}
					t.Validated(1)
					if last != ref {
						how := "fresh copies of the documents"
						if live {
							how = "the same document values throughout"
						}
						return engine.Violate("history-dependent", fam(k.F), "output of %s as %s after the history (%s) differs from its output from the initial state:\nafter history: %.600s\nfrom initial:  %.600s", k.Doc, k.F, how, last, ref)
					}
				}
				t.State(fmt.Sprint(s))
				t.Outcome("history-ok:" + fam(k.F))
				return nil
			})
		}
		if len(seq) == depth || c.Expired() {
			return
		}
		for _, k := range calls {
			rec(append(seq, k))
		}
	}
	rec(nil)
}

// fileHistories: serializations through the writer's file entry point onto ONE path, one after the other (longer
// outputs before shorter ones and the reverse, one format after another). What the path holds after the last call is
// what the same call writes to a stream from the initial state - nothing of an earlier output survives.
func fileHistories(c *engine.Ctx) {
	c.Group("file-histories")
	docs := histDocs()
	var names []string
	for n := range docs {
		names = append(names, n)
	}
	sortStrings(names)
	var calls []hcall
	for _, n := range names {
		for _, f := range histFormats {
			calls = append(calls, hcall{n, f})
		}
	}
	c.Bound("file-histories", fmt.Sprintf("all sequences of 2 WriteFile calls over %d calls (%d documents x %d formats) on one path; the file after the last call = the stream output of that call from the initial state", len(calls), len(names), len(histFormats)))
	for i := range calls {
		for j := range calls {
			i, j := i, j
			c.Case(func() any { return []hcall{calls[i], calls[j]} }, func(t *engine.T) *engine.Violation {
				dir, err := os.MkdirTemp(os.Getenv("MCVERIF_SCRATCH"), "c07f-")
				if err != nil {
					return engine.Violate("harness", "", "%v", err)
				}
				defer os.RemoveAll(dir)
				path := dir + "/out.json"
				var lastErr error
				for _, k := range []hcall{calls[i], calls[j]} {
					lastErr = rw.WriteFile(proto.Clone(histDocs()[k.Doc]).(*sbom.Document), k.F, 2, path)
					t.Transitions(1)
				}
				k := calls[j]
				want := callOutput(k)
				t.Validated(1)
				got := "error: "
				if lastErr == nil {
					b, rerr := os.ReadFile(path)
					if rerr != nil {
						return engine.Violate("neither", fam(k.F), "WriteFile reported success but the file cannot be read: %v", rerr)
					}
					n, nerr := rw.NormalizeJSON(b)
					if nerr != nil {
						return engine.Violate("history-dependent", fam(k.F), "after WriteFile of %s as %s and then of %s as %s onto the same path the file is not a JSON document (%v): %.300q", calls[i].Doc, calls[i].F, k.Doc, k.F, nerr, b)
					}
					got = n
				} else if strings.HasPrefix(want, "error: ") {
					got = want // both fail: the messages may name the path
				}
				if got != want {
					return engine.Violate("history-dependent", fam(k.F), "WriteFile of %s as %s after %s as %s onto the same path leaves a file that differs from the stream output of the same call:\nfile:   %.400s\nstream: %.400s", k.Doc, k.F, calls[i].Doc, calls[i].F, got, want)
				}
				t.State(fmt.Sprint("fh", i, j))
				t.Outcome("file-history-ok:" + fam(k.F))
				return nil
			})
		}
	}
}

// failAfter is a destination that accepts n bytes and then fails (a full disk, a closed pipe).
type failAfter struct {
	n   int
	buf bytes.Buffer
}

func (f *failAfter) Write(p []byte) (int, error) {
	if len(p) <= f.n {
		f.n -= len(p)
		return f.buf.Write(p)
	}
	k := f.n
	f.n = 0
	f.buf.Write(p[:k])
	return k, errors.New("no space left on device")
}

func (f *failAfter) Close() error { return nil }

type okCloser struct{ *bytes.Buffer }

func (okCloser) Close() error { return nil }

// writerObjectHistories: ONE writer value serves a sequence of calls through its plain entry point, and the
// destination of an earlier call fails after 0, 1, 40 bytes, half of and all but one byte of the document (an
// environment answer of the stream). The output of the next call equals the output of that call from the initial state:
// nothing of an earlier document - written, unwritten or half written - comes out with a later one.
func writerObjectHistories(c *engine.Ctx) {
	c.Group("writer-object-histories")
	firsts := []string{"D0-empty", "D2-tree", "D9-cycle", "D11-rich"}
	docs := histDocs()
	var names []string
	for n := range docs {
		names = append(names, n)
	}
	sortStrings(names)
	cuts := []string{"no fault", "0", "1", "40", "half", "all-but-one"}
	c.Bound("writer-object-histories", fmt.Sprintf("one Writer value: WriteStream of %d documents x %d formats into a destination that fails after {nothing, 0, 1, 40, half, all but one} bytes, then WriteStream of each of %d documents in the same format into a good destination; second output = output of that call from the initial state", len(firsts), len(histFormats), len(names)))
	for _, fn := range firsts {
		for _, f := range histFormats {
			for _, cut := range cuts {
				for _, sn := range names {
					fn, f, cut, sn := fn, f, cut, sn
					c.Case(func() any {
						return map[string]any{"writer-format": string(f), "first": fn, "first-destination-fails-after": cut, "second": sn}
					}, func(t *engine.T) *engine.Violation {
						w := writer.New(writer.WithFormat(f))
						full, ferr := rw.Write(proto.Clone(histDocs()[fn]).(*sbom.Document), f, 4)
						n := map[string]int{"no fault": 1 << 30, "0": 0, "1": 1, "40": 40, "half": len(full) / 2, "all-but-one": len(full) - 1}[cut]
						if ferr != nil {
							n = 1 << 30
						}
						_ = w.WriteStream(proto.Clone(histDocs()[fn]).(*sbom.Document), &failAfter{n: n})
						var out bytes.Buffer
						err := w.WriteStream(proto.Clone(histDocs()[sn]).(*sbom.Document), okCloser{&out})
						t.Transitions(2)
						t.Validated(1)
						want := callOutput(hcall{sn, f})
						got := "error: "
						if err == nil {
							nrm, nerr := rw.NormalizeJSON(out.Bytes())
							if nerr != nil {
								return engine.Violate("history-dependent", fam(f), "after a WriteStream of %s whose destination failed after %s bytes, the same writer's output of %s is not a JSON document (%v): %.300q", fn, cut, sn, nerr, out.Bytes())
							}
							got = nrm
						} else if strings.HasPrefix(want, "error: ") {
							got = want
						}
						if got != want {
							return engine.Violate("history-dependent", fam(f), "after a WriteStream of %s whose destination failed after %s bytes, the same writer's output of %s differs from its output from the initial state:\nafter: %.400s\nfresh: %.400s", fn, cut, sn, got, want)
						}
						t.State(fmt.Sprint("woh", fn, f, cut, sn))
						t.Outcome("writer-history-ok:" + fam(f))
						return nil
					})
				}
			}
		}
	}
}

func sortStrings(s []string) {
	for i := range s {
		for j := i + 1; j < len(s); j++ {
			if s[j] < s[i] {
				s[i], s[j] = s[j], s[i]
			}
		}
	}
}

// stringValues: every string-valued place of a fully populated document (metadata, tools, persons and their
// contacts, document types, every node attribute, list elements, map values, edge ends, root elements) takes every
// content of the hostile menu (gen.HostileStrings: what URL, date, number, e-mail, UUID, purl, CPE, path and template
// parsers reject or return absent parts for) and every structural token of the library's own sources, in every
// registered format: the serializer returns an error or an output, twice the same.
func stringValues(c *engine.Ctx) {
	c.Group("string-values")
	mk := func() *sbom.Document {
		d := sbom.NewDocument()
		gen.Full(d.Metadata, "m", 1)
		d.Metadata.Id, d.Metadata.Version = "urn:uuid:3e671687-395b-41f5-a30f-a58921a69b79", "1"
		n := &sbom.Node{}
		gen.Full(n, "n", 1)
		n.Id = "a"
		d.NodeList.Nodes = []*sbom.Node{n, {Id: "b", Name: "nb"}}
		d.NodeList.Edges = []*sbom.Edge{{From: "a", Type: sbom.Edge_contains, To: []string{"b"}}}
		d.NodeList.RootElements = []string{"a"}
		return d
	}
	slots := gen.StringSlots(mk(), 3)
	menu := append([]string{}, gen.HostileStrings()...)
	seen := map[string]bool{}
	for _, s := range menu {
		seen[s] = true
	}
	for _, tk := range gen.StructuralTokens() {
		for _, s := range []string{tk, tk + "x", "x" + tk} {
			if !seen[s] {
				seen[s] = true
				menu = append(menu, s)
			}
		}
	}
	fs := rw.AllFormats
	c.Bound("string-values", fmt.Sprintf("%d string-valued places of a fully populated document x %d contents (hostile to general-purpose parsers, structural tokens of the sources) x %d formats, serialized twice", len(slots), len(menu), len(fs)))
	for si := range slots {
		for mi := range menu {
			for _, f := range fs {
				si, mi, f := si, mi, f
				c.Case(func() any {
					return map[string]any{"group": "string-values", "place": slots[si].Label, "string": menu[mi], "format": string(f)}
				}, func(t *engine.T) *engine.Violation {
					d := mk()
					slots[si].Set(d.ProtoReflect(), menu[mi])
					out1, err1 := rw.Write(d, f, 2)
					out2, err2 := rw.Write(d, f, 2)
					t.Transitions(2)
					t.State(fmt.Sprintf("sv|%s|%d|%s", slots[si].Label, mi, f))
					if err1 == nil && len(out1) == 0 {
						return engine.Violate("neither", fam(f), "no error and no output")
					}
					if (err1 == nil) != (err2 == nil) {
						return engine.Violate("nondeterministic", fam(f), "first call err=%v, second call err=%v", err1, err2)
					}
					if err1 != nil {
						t.Outcome(fam(f) + ":error")
						return nil
					}
					n1, e1 := rw.NormalizeJSON(out1)
					n2, e2 := rw.NormalizeJSON(out2)
					if e1 != nil || e2 != nil {
						return engine.Violate("output-not-json", fam(f), "output is not JSON: %v %v", e1, e2)
					}
					t.Validated(1)
					if n1 != n2 {
						return engine.Violate("nondeterministic", fam(f), "two serializations of the same document differ")
					}
					t.Outcome(fam(f) + ":output")
					return nil
				})
			}
		}
	}
}
