// Package c17: registries, detection, parsing and writing are safe under concurrency.
package c17

import (
	"bytes"
	"crypto/sha256"
	"fmt"
	"io"
	"os"
	"os/exec"
	"path/filepath"
	"regexp"
	"sort"
	"strings"
	"time"

	"github.com/protobom/protobom/pkg/formats"
	"github.com/protobom/protobom/pkg/native"
	"github.com/protobom/protobom/pkg/reader"
	"github.com/protobom/protobom/pkg/sbom"
	"github.com/protobom/protobom/pkg/writer"

	"mcverif/engine"
	"mcverif/props/c04"
	"mcverif/rw"
	"mcverif/sched"
	"mcverif/vpoint"
	"mcverif/vsync"
)

var Spec = engine.Spec{
	ID: "C17", Run: Run, QuickBud: 8 * time.Minute, ThorBud: 40 * time.Minute, Shards: 16,
	Technique: "stateless model checking of the implementation: a controlled scheduler runs 2 (thorough 3) real goroutines one at a time with scheduling points at every sync operation of pkg/reader, pkg/writer, pkg/formats and pkg/storage (import-rewrite shim that performs the real operation), depth-first enumeration of all schedules up to a preemption bound; the binary is race-instrumented and the scheduler's hand-offs are hidden from ThreadSanitizer, which therefore reports every pair of conflicting accesses not ordered by the program's own synchronisation in the same serialised executions; per schedule the call results are compared with all sequential orders run on the real code",
	Rule:      "case = one scenario (multiset of calls, one per thread / two per thread for registry calls) with all its schedules inside; state = (scenario, schedule); outcome = result vector; oracle: no race report, no deadlock, no abort, result vector equal to some sequential order's",
	Assume: []string{
		"scheduling at synchronisation operations is complete for data-race-free programs; data races are caught by ThreadSanitizer in the same executions (its happens-before analysis sees only the program's own edges)",
		"ThreadSanitizer prints a given pair of stacks once per process: a race is attributed to the first schedule that exhibits it",
	},
}

const (
	keyShared = formats.Format("application/x-mcverif-shared")
)

func privKey(i int) formats.Format {
	return formats.Format(fmt.Sprintf("application/x-mcverif-private-%d", i))
}

type namedU struct{ name string }

func (u *namedU) Unserialize(io.Reader, *native.UnserializeOptions, interface{}) (*sbom.Document, error) {
	return sbom.NewDocument(), nil
}

type namedS struct{ name string }

func (s *namedS) Serialize(*sbom.Document, *native.SerializeOptions, interface{}) (interface{}, error) {
	return s.name, nil
}
func (s *namedS) Render(interface{}, io.Writer, *native.RenderOptions, interface{}) error { return nil }

// call is one API call of the alphabet, instantiated for thread i.
type call struct {
	Name string
	Do   func(i int) string
}

type nopCloser struct{ *bytes.Buffer }

func (nopCloser) Close() error { return nil }

func privateDoc(i int) *sbom.Document {
	d := sbom.NewDocument()
	d.Metadata.Id = fmt.Sprintf("urn:uuid:00000000-0000-0000-0000-00000000000%d", i)
	for k := 0; k <= i; k++ {
		d.NodeList.Nodes = append(d.NodeList.Nodes, &sbom.Node{Id: fmt.Sprintf("n%d", k), Name: fmt.Sprintf("t%d-%d", i, k)})
	}
	d.NodeList.RootElements = []string{"n0"}
	// relationships that differ per thread: every node but the root is contained in the root and depends on its predecessor
	for k := 1; k <= i; k++ {
		d.NodeList.Edges = append(d.NodeList.Edges,
			&sbom.Edge{From: "n0", Type: sbom.Edge_contains, To: []string{fmt.Sprintf("n%d", k)}},
			&sbom.Edge{From: fmt.Sprintf("n%d", k), Type: sbom.Edge_dependsOn, To: []string{fmt.Sprintf("n%d", k-1)}})
	}
	return d
}

// pointSerializer wraps a registered serializer so that the boundaries between the writer and its driver (before
// Serialize, before Render) are scheduling points: state that a driver or a writer keeps from one step of a call to
// the next is then exposed to the calls of other threads that the scheduler can put in between.
type pointSerializer struct {
	inner native.Serializer
}

func (p *pointSerializer) EnabledFor(string) bool { return true }

func (p *pointSerializer) Serialize(d *sbom.Document, o *native.SerializeOptions, fo interface{}) (interface{}, error) {
	sched.Point("driver.serialize", p)
	return p.inner.Serialize(d, o, fo)
}

func (p *pointSerializer) Render(doc interface{}, w io.Writer, o *native.RenderOptions, fo interface{}) error {
	sched.Point("driver.render", p)
	return p.inner.Render(doc, w, o, fo)
}

type pointUnserializer struct {
	inner native.Unserializer
}

func (p *pointUnserializer) EnabledFor(string) bool { return true }

func (p *pointUnserializer) Unserialize(r io.Reader, o *native.UnserializeOptions, fo interface{}) (*sbom.Document, error) {
	sched.Point("driver.unserialize", p)
	return p.inner.Unserialize(r, o, fo)
}

// wrapDrivers puts the scheduling-point wrappers around the drivers of the default formats (idempotent per reset).
func wrapDrivers() {
	for _, f := range rw.DefaultFormats {
		if s, err := writer.GetFormatSerializer(f); err == nil && s != nil {
			if _, done := s.(*pointSerializer); !done {
				writer.RegisterSerializer(f, &pointSerializer{inner: s})
			}
		}
		if u, err := reader.GetFormatUnserializer(f); err == nil && u != nil {
			if _, done := u.(*pointUnserializer); !done {
				reader.RegisterUnserializer(f, &pointUnserializer{inner: u})
			}
		}
	}
}

var (
	richCDX   []string         // BaseCDX with the bom-refs removed, differently sized per thread
	richDocs  []*sbom.Document // parsed rich documents (thread-private), for writing
	spdxBytes [4][]byte
	cdxBytes  [4][]byte
	tvDocs    = []string{"SPDXVersion: SPDX-2.3\nDataLicense: CC0-1.0\n", "DataLicense: CC0-1.0\nSPDXVersion: SPDX-2.2\n", "# nothing\nSPDXVersion:\n\"SPDX-2.3\"\n"}
)

var bomRef = regexp.MustCompile(`"bom-ref": "[^"]*",?\s*`)

func prepareInputs() {
	richCDX, richDocs = nil, nil
	for i := 0; i < 3; i++ {
		// strip the references so that every component gets a generated identifier; thread i has i extra components
		doc := bomRef.ReplaceAllString(c04.BaseCDX, "")
		extra := strings.Repeat(`{"type": "library", "name": "extra"},`, i)
		doc = strings.Replace(doc, `"components": [`+"\n  "+`{"type": "library", "name": "c1"`, `"components": [`+extra+`{"type": "library", "name": "c1"`, 1)
		doc = strings.Replace(doc, `"dependencies": [{"ref": "root", "dependsOn": ["c1", "c2"]}, {"ref": "c1", "dependsOn": []}]`, `"dependencies": []`, 1)
		richCDX = append(richCDX, doc)
		d, err := rw.Read([]byte(c04.BaseCDX))
		if err != nil {
			panic(err)
		}
		d.Metadata.Name = fmt.Sprintf("rich-%d", i)
		richDocs = append(richDocs, d)
	}
	for i := range spdxBytes {
		b, err := rw.Write(privateDoc(i), formats.SPDX23JSON, 0)
		if err != nil {
			panic(err)
		}
		spdxBytes[i] = b
		cb, err := rw.Write(privateDoc(i), formats.CDX15JSON, 0)
		if err != nil {
			panic(err)
		}
		cdxBytes[i] = cb
	}
}

func alphabet() []call {
	return []call{
		{"reader.Register(shared)", func(i int) string {
			reader.RegisterUnserializer(keyShared, &namedU{fmt.Sprintf("u%d", i)})
			return "ok"
		}},
		{"reader.Unregister(shared)", func(i int) string { reader.UnregisterUnserializer(keyShared); return "ok" }},
		{"reader.Get(shared)", func(i int) string {
			u, err := reader.GetFormatUnserializer(keyShared)
			if err != nil {
				return "err"
			}
			if n, ok := u.(*namedU); ok {
				return "found:" + n.name
			}
			return "found:?"
		}},
		{"reader.Register+Get(private)", func(i int) string {
			reader.RegisterUnserializer(privKey(i), &namedU{fmt.Sprintf("p%d", i)})
			u, err := reader.GetFormatUnserializer(privKey(i))
			if err != nil {
				return "err"
			}
			return "found:" + u.(*namedU).name
		}},
		{"writer.Register(shared)", func(i int) string {
			writer.RegisterSerializer(keyShared, &namedS{fmt.Sprintf("s%d", i)})
			return "ok"
		}},
		{"writer.Unregister(shared)", func(i int) string { writer.UnregisterSerializer(keyShared); return "ok" }},
		{"writer.Get(shared)", func(i int) string {
			s, err := writer.GetFormatSerializer(keyShared)
			if err != nil {
				return "err"
			}
			if n, ok := s.(*namedS); ok {
				return "found:" + n.name
			}
			return "found:?"
		}},
		{"writer.Get(default cdx15)", func(i int) string {
			s, err := writer.GetFormatSerializer(formats.CDX15JSON)
			if err != nil || s == nil {
				return "err"
			}
			return "found"
		}},
		{"reader.New()", func(i int) string {
			r := reader.New()
			return fmt.Sprintf("fmtopt=%v", r.Options.GetFormatOptions("k"))
		}},
		{"reader.New(WithFormatOptions)", func(i int) string {
			r := reader.New(reader.WithFormatOptions("k", fmt.Sprintf("v%d", i)))
			return fmt.Sprintf("fmtopt=%v", r.Options.GetFormatOptions("k"))
		}},
		{"writer.New()", func(i int) string {
			w := writer.New()
			return fmt.Sprintf("format=%q indent=%d", w.Options.Format, w.Options.RenderOptions.Indent)
		}},
		{"writer.New(WithFormat,WithRenderOptions)", func(i int) string {
			f := []formats.Format{formats.SPDX23JSON, formats.CDX15JSON, formats.CDX14JSON}[i%3]
			w := writer.New(writer.WithFormat(f), writer.WithRenderOptions(&native.RenderOptions{Indent: i + 1}))
			return fmt.Sprintf("format=%q indent=%d", w.Options.Format, w.Options.RenderOptions.Indent)
		}},
		{"Sniff(json)", func(i int) string {
			f, err := rw.Sniff(bytes.NewReader(spdxBytes[i]))
			return fmt.Sprintf("%s/%v", f, err != nil)
		}},
		{"Sniff(tag-value)", func(i int) string {
			f, err := rw.Sniff(strings.NewReader(tvDocs[i%len(tvDocs)]))
			return fmt.Sprintf("%s/%v", f, err != nil)
		}},
		{"Sniff(tag-value, version on a later line)", func(i int) string {
			f, err := rw.Sniff(strings.NewReader("SPDXVersion: SPDX-2.1\nx\n\"SPDX-2.3\"\n"))
			return fmt.Sprintf("%s/%v", f, err != nil)
		}},
		{"Sniff(quoted version only)", func(i int) string {
			f, err := rw.Sniff(strings.NewReader("# c\n'SPDX-2.2'\n"))
			return fmt.Sprintf("%s/%v", f, err != nil)
		}},
		{"Sniff(not JSON, one line of 96 KiB)", func(i int) string {
			f, err := rw.Sniff(strings.NewReader("<bom>" + strings.Repeat("x", 96<<10) + "</bom>\nSPDXVersion: SPDX-2.3\n"))
			return fmt.Sprintf("%s/%v", f, err != nil)
		}},
		{"ParseStream(private)", func(i int) string {
			d, err := reader.New().ParseStream(bytes.NewReader(spdxBytes[i]))
			if err != nil {
				return "err:" + err.Error()
			}
			return fmt.Sprintf("nodes=%d", len(d.NodeList.Nodes))
		}},
		{"WriteStream(private)", func(i int) string {
			var buf bytes.Buffer
			w := writer.New(writer.WithFormat(formats.SPDX23JSON))
			if err := w.WriteStream(privateDoc(i), nopCloser{&buf}); err != nil {
				return "err:" + err.Error()
			}
			n, _ := rw.NormalizeJSON(buf.Bytes())
			return fmt.Sprintf("packages=%d %x", bytes.Count(buf.Bytes(), []byte(`"SPDXID": "SPDXRef-n`)), sha256.Sum256([]byte(n)))[:24]
		}},
		{"WriteStream(private, spdx23, render options of its own)", func(i int) string {
			// every thread renders with another indentation; the result is a digest of the bytes as written (creation
			// time blanked), so a layout that belongs to another call shows
			var buf bytes.Buffer
			w := writer.New(writer.WithFormat(formats.SPDX23JSON), writer.WithRenderOptions(&native.RenderOptions{Indent: []int{1, 2, 7}[i%3]}))
			if err := w.WriteStream(privateDoc(i), nopCloser{&buf}); err != nil {
				return "err:" + err.Error()
			}
			return fmt.Sprintf("%x", sha256.Sum256(createdRe.ReplaceAll(buf.Bytes(), []byte(`"created": "T"`))))[:12]
		}},
		{"WriteStream(private, cdx15, render options of its own)", func(i int) string {
			var buf bytes.Buffer
			w := writer.New(writer.WithFormat(formats.CDX15JSON), writer.WithRenderOptions(&native.RenderOptions{Indent: []int{1, 2, 7}[i%3]}))
			if err := w.WriteStream(privateDoc(i), nopCloser{&buf}); err != nil {
				return "err:" + err.Error()
			}
			return fmt.Sprintf("%x", sha256.Sum256(timestampRe.ReplaceAll(buf.Bytes(), []byte(`"timestamp": "T"`))))[:12]
		}},
		{"shared-writer.WriteStreamWithOptions(private, per-call format and render options)", func(i int) string {
			// one Writer value used by every thread, each call with options of its own
			var buf bytes.Buffer
			f := []formats.Format{formats.SPDX23JSON, formats.CDX15JSON, formats.SPDX23JSON}[i%3]
			o := &writer.Options{Format: f, RenderOptions: &native.RenderOptions{Indent: []int{1, 2, 7}[i%3]}, SerializeOptions: &native.SerializeOptions{}}
			if err := sharedWriter.WriteStreamWithOptions(privateDoc(i), nopCloser{&buf}, o); err != nil {
				return "err:" + err.Error()
			}
			b := createdRe.ReplaceAll(buf.Bytes(), []byte(`"created": "T"`))
			b = timestampRe.ReplaceAll(b, []byte(`"timestamp": "T"`))
			return fmt.Sprintf("%x", sha256.Sum256(b))[:12]
		}},
		{"shared-writer.WriteStream(private)", func(i int) string {
			var buf bytes.Buffer
			if err := sharedWriter.WriteStream(privateDoc(i), nopCloser{&buf}); err != nil {
				return "err:" + err.Error()
			}
			b := timestampRe.ReplaceAll(buf.Bytes(), []byte(`"timestamp": "T"`))
			return fmt.Sprintf("%x", sha256.Sum256(b))[:12]
		}},
		{"WriteStream(private, cdx15)", func(i int) string {
			var buf bytes.Buffer
			w := writer.New(writer.WithFormat(formats.CDX15JSON))
			if err := w.WriteStream(privateDoc(i), nopCloser{&buf}); err != nil {
				return "err:" + err.Error()
			}
			n, _ := rw.NormalizeJSON(buf.Bytes())
			return fmt.Sprintf("components=%d %x", bytes.Count(buf.Bytes(), []byte(`"bom-ref": "n`)), sha256.Sum256([]byte(n)))[:26]
		}},
		{"ParseStream(rich cdx, reference-less components)", func(i int) string {
			d, err := reader.New().ParseStream(strings.NewReader(richCDX[i%len(richCDX)]))
			if err != nil {
				return "err:" + err.Error()
			}
			var ids []string
			for _, n := range d.NodeList.Nodes {
				ids = append(ids, n.Id)
			}
			sort.Strings(ids)
			return strings.Join(ids, ",")
		}},
		{"ParseStream(spdx with malformed dates new to the process)", func(i int) string {
			// tolerated bad input that the process has not met before (per-thread counters: nothing shared by the harness)
			novelDates[i]++
			bad := fmt.Sprintf("%02d/13/20%02d-%d", i, novelDates[i]%100, novelDates[i])
			in := strings.Replace(c04.BaseSPDX, `"created": "`, `"created": "`+bad+" ", 1)
			in = strings.Replace(in, `"releaseDate": "`, `"releaseDate": "`+bad+" ", 1)
			d, err := reader.New().ParseStream(strings.NewReader(in))
			if err != nil {
				return "err"
			}
			return fmt.Sprintf("nodes=%d edges=%d", len(d.NodeList.Nodes), len(d.NodeList.Edges))
		}},
		{"ParseStream(rich spdx)", func(i int) string {
			d, err := reader.New().ParseStream(strings.NewReader(c04.BaseSPDX))
			if err != nil {
				return "err:" + err.Error()
			}
			return fmt.Sprintf("nodes=%d edges=%d", len(d.NodeList.Nodes), len(d.NodeList.Edges))
		}},
		{"WriteStream(rich, cdx15)", func(i int) string {
			var buf bytes.Buffer
			w := writer.New(writer.WithFormat(formats.CDX15JSON))
			if err := w.WriteStream(richDocs[i%len(richDocs)], nopCloser{&buf}); err != nil {
				return "err:" + err.Error()
			}
			n, _ := rw.NormalizeJSON(buf.Bytes())
			return fmt.Sprintf("%x", sha256.Sum256([]byte(n)))[:12]
		}},
		{"ParseStream(private, cdx15)", func(i int) string {
			d, err := reader.New().ParseStream(bytes.NewReader(cdxBytes[i]))
			if err != nil {
				return "err:" + err.Error()
			}
			return fmt.Sprintf("nodes=%d", len(d.NodeList.Nodes))
		}},
		// the file entry points (the last nFileCalls entries: they form the file-calls group). Every thread works on
		// files of its own in one directory; the names of different threads differ in the extension only, or in the
		// stem only.
		{"WriteFile(private, own file: same stem, extension of its own)", func(i int) string {
			return writeFileCall(i, filepath.Join(scratchDir(), "c17-out"+[]string{".json", ".xml", ".spdx"}[i%3]))
		}},
		{"WriteFile(private, own file: stem of its own, same extension)", func(i int) string {
			return writeFileCall(i, filepath.Join(scratchDir(), fmt.Sprintf("c17-out-%d.json", i)))
		}},
		{"ParseFile(private, own file)", func(i int) string {
			d, err := reader.New().ParseFile(inputFile(i))
			if err != nil {
				return "err:" + err.Error()
			}
			return fmt.Sprintf("nodes=%d", len(d.NodeList.Nodes))
		}},
		{"SniffFile(private, own file)", func(i int) string {
			sn := formats.Sniffer{}
			f, err := sn.SniffFile(inputFile(i))
			return fmt.Sprintf("%s/%v", f, err != nil)
		}},
		// graph operations on thread-private lists (the last nGraphCalls entries)
		{"RemoveNodes(private list: two nodes, one of them a root)", func(i int) string {
			nl := privateList(i)
			nl.RemoveNodes([]string{fmt.Sprintf("t%d-n1", i), fmt.Sprintf("t%d-n3", i)})
			return listKey(nl)
		}},
		{"Union + Intersect(private lists)", func(i int) string {
			a, b := privateList(i), privateList(i+10)
			u := a.Union(b)
			return listKey(u) + " | " + listKey(u.Intersect(a))
		}},
		{"Add + NodeGraph + Copy(private list)", func(i int) string {
			a, b := privateList(i), privateList(i+10)
			a.Add(b)
			return listKey(a.NodeGraph(fmt.Sprintf("t%d-n0", i))) + " | " + listKey(a.Copy())
		}},
	}
}

const nFileCalls = 4

// nGraphCalls: the last entries of the alphabet - graph operations on lists that belong to the calling thread alone
// (the model package is inside the sync seam: package-level state it may keep - a pool, a cache behind a lock - is
// owned by the scheduler)
const nGraphCalls = 3

func privateList(i int) *sbom.NodeList {
	nl := &sbom.NodeList{}
	for k := 0; k < 6; k++ {
		id := fmt.Sprintf("t%d-n%d", i, k)
		nl.Nodes = append(nl.Nodes, &sbom.Node{Id: id, Name: id})
		if k > 0 {
			nl.Edges = append(nl.Edges, &sbom.Edge{From: fmt.Sprintf("t%d-n%d", i, k-1), Type: sbom.Edge_contains, To: []string{id}})
		}
	}
	nl.RootElements = []string{fmt.Sprintf("t%d-n0", i), fmt.Sprintf("t%d-n3", i)}
	return nl
}

func listKey(nl *sbom.NodeList) string {
	if nl == nil {
		return "<nil>"
	}
	var ids []string
	for _, n := range nl.Nodes {
		ids = append(ids, n.Id)
	}
	ne := 0
	for _, e := range nl.Edges {
		ne += len(e.To)
	}
	return fmt.Sprintf("nodes=%s edges=%d roots=%s", strings.Join(ids, ","), ne, strings.Join(nl.RootElements, ","))
}

func scratchDir() string {
	d := filepath.Join(os.Getenv("MCVERIF_SCRATCH"), fmt.Sprintf("c17-files-%d", os.Getpid()))
	_ = os.MkdirAll(d, 0o755)
	return d
}

// inputFile: the SPDX rendering of thread i's private document, written once per process.
func inputFile(i int) string {
	p := filepath.Join(scratchDir(), fmt.Sprintf("c17-in-%d.spdx.json", i))
	if _, err := os.Stat(p); err != nil {
		_ = os.WriteFile(p, spdxBytes[i], 0o644)
	}
	return p
}

// writeFileCall writes thread i's private document to path and reports a digest of what the file then holds.
func writeFileCall(i int, path string) string {
	_ = os.Remove(path)
	w := writer.New(writer.WithFormat(formats.CDX15JSON))
	if err := w.WriteFile(privateDoc(i), path); err != nil {
		return "err:" + err.Error()
	}
	b, err := os.ReadFile(path)
	if err != nil {
		return "unreadable:" + err.Error()
	}
	n, nerr := rw.NormalizeJSON(b)
	if nerr != nil {
		return "not-json"
	}
	return fmt.Sprintf("components=%d %x", bytes.Count(b, []byte(`"bom-ref": "n`)), sha256.Sum256([]byte(n)))[:26]
}

var novelDates [8]int

// sharedWriter: one writer value (CycloneDX 1.4, indent 3) that the shared-writer calls of all threads use.
var sharedWriter = writer.New(writer.WithFormat(formats.CDX14JSON), writer.WithRenderOptions(&native.RenderOptions{Indent: 3}))

var (
	createdRe   = regexp.MustCompile(`"created":\s*"[^"]*"`)
	timestampRe = regexp.MustCompile(`"timestamp":\s*"[^"]*"`)
)

// resetState restores the package state the scenarios start from (no execution in progress).
//
// fresh=false: a registry call has completed on every package before the threads start (the usual state of a
// running program). fresh=true: the state of a process that has not called the writer package yet, so the
// threads race through its lazy first-use initialisation (the reader package initialises eagerly at load).
func resetState(nThreads int, fresh bool) {
	if fresh {
		vsync.ResetFirstUse()
	} else {
		vsync.ResetAll()
	}
	reader.RegisterUnserializer(keyShared, &namedU{"u-initial"})
	for i := 0; i < 4; i++ {
		reader.UnregisterUnserializer(privKey(i))
	}
	if !fresh {
		writer.RegisterSerializer(keyShared, &namedS{"s-initial"})
		wrapDrivers()
	}
}

type scenario struct {
	// calls[t] = call indices executed by thread t in program order
	calls [][]int
	fresh bool // start from the not-yet-initialised state (see resetState)
	// points: the code-point seam is on - every function entry and loop iteration of the library is a scheduling point
	points bool
}

func (s scenario) describe(al []call) []string {
	if s.points {
		defer func() {}()
	}
	var out []string
	for t, cs := range s.calls {
		var names []string
		for _, c := range cs {
			names = append(names, al[c].Name)
		}
		out = append(out, fmt.Sprintf("T%d: %s", t, strings.Join(names, "; ")))
	}
	if s.fresh {
		out = append(out, "start: first use (no writer call completed before)")
	}
	if s.points {
		out = append(out, "scheduling points: every function entry and loop iteration of the library")
	}
	return out
}

// sequentialResults runs the scenario's calls in every interleaving-free order compatible with program order.
func sequentialResults(al []call, s scenario) map[string]bool {
	out := map[string]bool{}
	n := len(s.calls)
	pos := make([]int, n)
	total := 0
	for _, cs := range s.calls {
		total += len(cs)
	}
	var order []int
	var rec func()
	rec = func() {
		if len(order) == total {
			resetState(n, s.fresh)
			res := make([][]string, n)
			p := make([]int, n)
			for _, t := range order {
				res[t] = append(res[t], al[s.calls[t][p[t]]].Do(t))
				p[t]++
			}
			out[fmt.Sprint(res)] = true
			return
		}
		for t := 0; t < n; t++ {
			if pos[t] < len(s.calls[t]) {
				pos[t]++
				order = append(order, t)
				rec()
				order = order[:len(order)-1]
				pos[t]--
			}
		}
	}
	rec()
	return out
}

func Run(c *engine.Ctx) {
	rw.SilenceStdout()
	// what the library's init functions left in shimmed package-level objects is the state every reset returns to
	vsync.Baseline()
	if os.Getenv("MCVERIF_SEAM") != "sched" {
		c.Note("sync seam unavailable on this tree: schedules are explored at thread granularity only (whole calls), ThreadSanitizer still decides races (seam_sync:false)")
		c.Selftest("seam_sync", "false")
	} else {
		c.Selftest("seam_sync", "true")
	}
	c.Selftest("race_instrumented", fmt.Sprint(sched.RaceBuild))
	prepareInputs()
	al := alphabet()
	// drain anything the race detector printed during start-up
	_ = sched.NewRaceReports()

	// the generic groups range over the calls in front of the file calls
	nGen := len(al) - nFileCalls - nGraphCalls
	fileEnd := len(al) - nGraphCalls
	var scenarios []scenario
	for a := 0; a < nGen; a++ {
		for b := a; b < nGen; b++ {
			scenarios = append(scenarios, scenario{calls: [][]int{{a}, {b}}})
		}
	}
	bound := 2
	c.Group("pairs")
	c.Bound("pairs", fmt.Sprintf("all %d unordered pairs of %d calls as 2-thread scenarios, every schedule with <= %d preemptions", len(scenarios), nGen, bound))
	runScenarios(c, al, scenarios, bound)

	// interleavings INSIDE calls: the code-point seam makes every function entry and loop iteration of the library a
	// scheduling point; every schedule with one preemption, over the pairs of the parsing / writing / detection calls
	if vpoint.Sites == 0 {
		c.Selftest("seam_points", "false")
		c.Note("code-point seam unavailable on this tree: interleavings inside calls are not explored (seam_points:false)")
	} else {
		c.Selftest("seam_points", fmt.Sprintf("true (sites=%d)", vpoint.Sites))
		var inner []int
		for i, k := range al {
			if strings.HasPrefix(k.Name, "ParseStream(") || strings.HasPrefix(k.Name, "WriteStream(") || strings.HasPrefix(k.Name, "Sniff(tag-value)") || strings.HasPrefix(k.Name, "shared-writer.") {
				inner = append(inner, i)
			}
		}
		var scp []scenario
		for x := 0; x < len(inner); x++ {
			for y := x; y < len(inner); y++ {
				scp = append(scp, scenario{calls: [][]int{{inner[x]}, {inner[y]}}, points: true})
			}
		}
		c.Group("pairs-inside-calls")
		c.Bound("pairs-inside-calls", fmt.Sprintf("all %d unordered pairs of the %d parsing / writing / detection calls with every function entry and loop iteration of the library as a scheduling point, every schedule with <= 1 preemption", len(scp), len(inner)))
		runScenarios(c, al, scp, 1)
	}

	// the file entry points: every pair (a call with itself included), whole calls with <= 2 preemptions and - where the
	// code-point seam is there - every function entry and loop iteration inside the calls with <= 1 preemption. The
	// file system is the real one; what a call reports is a digest of the file it wrote, as found after the call.
	{
		var scf, scfp []scenario
		for a := nGen; a < fileEnd; a++ {
			for b := a; b < fileEnd; b++ {
				scf = append(scf, scenario{calls: [][]int{{a}, {b}}})
				if vpoint.Sites != 0 {
					scfp = append(scfp, scenario{calls: [][]int{{a}, {b}}, points: true})
				}
			}
		}
		// next to a stream call of each kind
		for a := nGen; a < fileEnd; a++ {
			for b, k := range al[:nGen] {
				if k.Name == "ParseStream(private)" || k.Name == "WriteStream(private, cdx15)" {
					scf = append(scf, scenario{calls: [][]int{{a}, {b}}})
					if vpoint.Sites != 0 {
						scfp = append(scfp, scenario{calls: [][]int{{a}, {b}}, points: true})
					}
				}
			}
		}
		c.Group("file-calls")
		c.Bound("file-calls", fmt.Sprintf("%d two-thread scenarios over the %d file entry points (WriteFile to names that differ in the extension only / in the stem only, ParseFile, SniffFile; each with each and with a stream parse and a stream write): whole calls with <= 2 preemptions and, with the code-point seam, every function entry and loop iteration inside them with <= 1 preemption", len(scf)+len(scfp), nFileCalls))
		runScenarios(c, al, scf, 2)
		runScenarios(c, al, scfp, 1)
	}

	// graph operations on thread-private lists: every pair (a call with itself included), whole calls with <= 2
	// preemptions and, with the code-point seam, every function entry and loop iteration inside them with <= 1
	{
		var scg, scgp []scenario
		for a := fileEnd; a < len(al); a++ {
			for b := a; b < len(al); b++ {
				scg = append(scg, scenario{calls: [][]int{{a}, {b}}})
				if vpoint.Sites != 0 {
					scgp = append(scgp, scenario{calls: [][]int{{a}, {b}}, points: true})
				}
			}
		}
		c.Group("graph-calls")
		c.Bound("graph-calls", fmt.Sprintf("%d two-thread scenarios over %d graph operations on thread-private node lists (RemoveNodes; Union + Intersect; Add + NodeGraph + Copy): whole calls with <= 2 preemptions and, with the code-point seam, every function entry and loop iteration inside them with <= 1 preemption", len(scg)+len(scgp), nGraphCalls))
		runScenarios(c, al, scg, 2)
		runScenarios(c, al, scgp, 1)
	}

	if !c.IsReplay() && !sharedFidelity(c, al) {
		c.Selftest("first_use_reset_faithful", "false")
		c.Cap("first-use scenarios not run: the in-process reset does not reproduce a new process on this tree")
	} else {
		c.Selftest("first_use_reset_faithful", "true")
		var freshPairs []scenario
		for _, sc := range scenarios {
			freshPairs = append(freshPairs, scenario{calls: sc.calls, fresh: true})
		}
		c.Group("pairs-first-use")
		c.Bound("pairs-first-use", fmt.Sprintf("the same %d pairs started from the first-use state (lazy initialisation not yet run), every schedule with <= %d preemptions", len(freshPairs), bound))
		runScenarios(c, al, freshPairs, bound)
	}

	if !c.Thorough() {
		// quick: three-thread registry scenarios with a preemption bound of 1
		reg := []int{0, 1, 2, 4, 5, 6}
		var sc3 []scenario
		for _, a := range reg {
			for _, b := range reg {
				for _, d := range reg {
					sc3 = append(sc3, scenario{calls: [][]int{{a, 2}, {b, 6}, {d}}})
				}
			}
		}
		c.Group("triples")
		c.Bound("triples", fmt.Sprintf("%d three-thread scenarios over the registry calls (two calls on two threads, one on the third), every schedule with <= 2 preemptions", len(sc3)))
		runScenarios(c, al, sc3, 2)
		var sc2 []scenario
		for a := 0; a < nGen; a++ {
			for b := 0; b < nGen; b++ {
				sc2 = append(sc2, scenario{calls: [][]int{{a, b}, {b, a}}})
			}
		}
		c.Group("pairs-2calls")
		c.Bound("pairs-2calls", fmt.Sprintf("%d two-thread scenarios with two calls per thread, every schedule with <= 1 preemption", len(sc2)))
		runScenarios(c, al, sc2, 1)
	}
	if c.Thorough() {
		// 3 threads x 2 registry calls each, unbounded preemptions
		reg := []int{0, 1, 2, 4, 5, 6}
		var sc3 []scenario
		for _, a := range reg {
			for _, b := range reg {
				for _, d := range reg {
					sc3 = append(sc3, scenario{calls: [][]int{{a, 2}, {b, 6}, {d}}})
				}
			}
		}
		c.Group("triples")
		c.Bound("triples", fmt.Sprintf("%d three-thread scenarios over the registry calls (two calls on two threads, one on the third), every schedule (unbounded preemptions)", len(sc3)))
		runScenarios(c, al, sc3, -1)
		var sc2 []scenario
		for a := 0; a < nGen; a++ {
			for b := 0; b < nGen; b++ {
				sc2 = append(sc2, scenario{calls: [][]int{{a, b}, {b, a}}})
			}
		}
		c.Group("pairs-2calls")
		c.Bound("pairs-2calls", fmt.Sprintf("%d two-thread scenarios with two calls per thread, every schedule with <= 3 preemptions", len(sc2)))
		runScenarios(c, al, sc2, 3)
	}
}

// freshFidelity: the in-process reset must reproduce what each call returns in a new process; a package-level
// state the seam does not own (a plain variable behind a lock, say) would make every later execution start from a
// stale state. Every worker decides this for itself, identically; when the reset is not faithful the first-use
// scenarios are not run and the evidence says so (reduced coverage, never an alarm).
func freshFidelity(c *engine.Ctx, al []call) bool {
	self, _ := os.Executable()
	for ci := range al {
		cmd := exec.Command(self, "--aux", "c17first", fmt.Sprint(ci))
		out, err := cmd.CombinedOutput()
		want := ""
		for _, l := range strings.Split(string(out), "\n") {
			if strings.HasPrefix(l, "FIRST:") {
				want = strings.TrimPrefix(l, "FIRST:")
			}
		}
		if err != nil || want == "" {
			c.Note(fmt.Sprintf("first-use fidelity: child process for %s failed (%v)", al[ci].Name, err))
			return false
		}
		for round := 0; round < 2; round++ {
			resetState(1, true)
			if got := al[ci].Do(0); got != want {
				c.Note(fmt.Sprintf("first-use fidelity: %s returns %q in a new process but %q after the in-process reset: some package-level state is outside the seam", al[ci].Name, want, got))
				return false
			}
		}
	}
	_ = sched.NewRaceReports()
	return true
}

// sharedFidelity: shard 0 decides and publishes the verdict in the run's scratch directory; the other workers
// wait for it (and decide themselves if it does not appear).
func sharedFidelity(c *engine.Ctx, al []call) bool {
	f := filepath.Join(os.Getenv("MCVERIF_SCRATCH"), "c17-first-use-fidelity")
	if c.Shard != 0 && os.Getenv("MCVERIF_SCRATCH") != "" {
		for i := 0; i < 600; i++ {
			if b, err := os.ReadFile(f); err == nil && len(b) > 0 {
				if strings.HasPrefix(string(b), "true") {
					return true
				}
				c.Note(strings.TrimPrefix(string(b), "false:"))
				return false
			}
			time.Sleep(200 * time.Millisecond)
		}
	}
	ok := freshFidelity(c, al)
	if os.Getenv("MCVERIF_SCRATCH") != "" {
		v := "true"
		if !ok {
			v = "false:" + strings.Join(c.ResultForOutput().Notes, "; ")
		}
		_ = os.WriteFile(f+".tmp", []byte(v), 0o644)
		_ = os.Rename(f+".tmp", f)
	}
	return ok
}

// AuxFirst runs one call alone in this new process (first use of the library) and prints its result.
func AuxFirst(args []string) int {
	rw.SilenceStdout()
	prepareInputs()
	al := alphabet()
	ci := decodeInts(args[0])[0]
	// same thread-private registrations as the in-process reset, reader side only
	reader.RegisterUnserializer(keyShared, &namedU{"u-initial"})
	fmt.Fprintln(os.Stderr, "FIRST:"+al[ci].Do(0))
	return 0
}

func runScenarios(c *engine.Ctx, al []call, scenarios []scenario, bound int) {
	for _, s := range scenarios {
		s := s
		if c.Expired() {
			c.Cap("deadline")
			return
		}
		c.Case(func() any { return s.describe(al) }, func(t *engine.T) *engine.Violation {
			allowed := sequentialResults(al, s)
			_ = sched.NewRaceReports() // the sequential reference runs are single-goroutine: nothing to report
			n := len(s.calls)
			var res [][]string
			var viol *engine.Violation
			schedules := 0
			outcomes := map[string]bool{}
			newBodies := func() []func() {
				resetState(n, s.fresh)
				res = make([][]string, n)
				bodies := make([]func(), n)
				for ti := 0; ti < n; ti++ {
					ti := ti
					bodies[ti] = func() {
						for _, ci := range s.calls[ti] {
							res[ti] = append(res[ti], al[ci].Do(ti))
						}
					}
				}
				return bodies
			}
			first := true
			var firstKey string
			vpoint.On = s.points
			defer func() { vpoint.On = false }()
			schedules = sched.Explore(bound, newBodies, func(x *sched.Exec) bool {
				t.Alive()
				t.Transitions(len(x.Points))
				if x.Foreign {
					t.Cap("the code under test starts goroutines of its own: their interleavings are not enumerated (only those of the scenario's threads)")
				}
				if x.Diverged != "" {
					viol = engine.Violate("harness", "", "%s", x.Diverged)
					return false
				}
				if x.Deadlock {
					viol = engine.Violate("deadlock", "", "schedule %s ends with no enabled thread although not all threads finished", sched.DescribeSchedule(x))
					t.Poison()
					return false
				}
				if rs := sched.NewRaceReports(); len(rs) > 0 {
					viol = engine.Violate("data-race", rs[0].Signature, "schedule %s\n%s", sched.DescribeSchedule(x), rs[0].Text)
					// ThreadSanitizer prints a report once per process: confirm by replaying this very schedule in 4 fresh processes
					// (ThreadSanitizer has no false positives, but it re-detects a given access pattern only some of the
					// time - e.g. a read after a write by the same goroutine may not be kept in its shadow cells -, so one
					// re-detection in 8 fresh-process replays of the schedule confirms the report)
					k := confirmRace(s, x.Choices, rs[0].Signature, false)
					how := "this schedule"
					if k == 0 {
						// the race may need state left behind by earlier calls (a buffer that has grown, a cache that is warm):
						// replay the schedule in fresh processes after the scenario's own calls have been made once, sequentially
						if k = confirmRace(s, x.Choices, rs[0].Signature, true); k > 0 {
							how = "this schedule run after the same calls had been made once before in the process"
						}
					}
					viol.Detail = fmt.Sprintf("re-detected in %d of 8 fresh-process replays of %s\n%s", k, how, viol.Detail)
					viol.PreConfirmed = 1
					if k >= 1 {
						viol.PreConfirmed = 5
					}
					return false
				}
				key := fmt.Sprint(res)
				outcomes[key] = true
				t.Validated(1)
				if !allowed[key] {
					var al2 []string
					for k := range allowed {
						al2 = append(al2, k)
					}
					sort.Strings(al2)
					viol = engine.Violate("not-sequentially-explainable", "", "schedule %s gives results %s; sequential orders give %v", sched.DescribeSchedule(x), key, al2)
					return false
				}
				if first {
					// determinism self-test: replaying the recorded schedule must reproduce the observation
					first = false
					firstKey = key
					y := sched.Run(newBodies(), x.Choices)
					if fmt.Sprint(res) != firstKey || len(y.Points) != len(x.Points) {
						viol = engine.Violate("harness", "replay", "replaying schedule %v gave %s / %d points, first run gave %s / %d points", x.Choices, fmt.Sprint(res), len(y.Points), firstKey, len(x.Points))
						return false
					}
					_ = sched.NewRaceReports()
				}
				t.State(fmt.Sprintf("%v|%v", s.calls, x.Choices))
				return true
			})
			if viol != nil {
				return viol
			}
			t.Outcome(fmt.Sprintf("schedules=%s distinct-results=%d", bucket(schedules), len(outcomes)))
			if len(outcomes) > 1 {
				t.NonTrivial()
			}
			return nil
		})
	}
}

// confirmRace replays one schedule of a scenario in fresh processes and counts how many report the same race.
func confirmRace(s scenario, choices []int, sig string, history bool) int {
	self, _ := os.Executable()
	n := 0
	for i := 0; i < 8; i++ {
		base := filepath.Join(os.Getenv("MCVERIF_SCRATCH"), fmt.Sprintf("tsanc-%d-%d", os.Getpid(), i))
		start := "warm"
		if s.fresh {
			start = "fresh"
		}
		if s.points {
			start += "+points"
		}
		hist := "no-history"
		if history {
			hist = "history"
		}
		cmd := exec.Command(self, "--aux", "c17race", encode(s.calls), encodeInts(choices), start, hist)
		cmd.Env = append(os.Environ(), "GORACE=halt_on_error=0 log_path="+base, "MCVERIF_TSAN_LOG="+base)
		out, _ := cmd.CombinedOutput()
		if os.Getenv("VERIF_DUMP") != "" && i == 0 {
			fmt.Printf("confirmRace: %s --aux c17race %q %q %s %s -> %.300q\n", self, encode(s.calls), encodeInts(choices), start, hist, out)
		}
		if strings.Contains(string(out), "RACE:") { // any report of the replayed schedule confirms (the two stacks may be listed in either order)
			n++
		}
		if m, _ := filepath.Glob(base + ".*"); m != nil {
			for _, f := range m {
				os.Remove(f)
			}
		}
	}
	return n
}

func encodeInts(l []int) string {
	var p []string
	for _, x := range l {
		p = append(p, fmt.Sprint(x))
	}
	return "[" + strings.Join(p, ",") + "]"
}

func encode(calls [][]int) string {
	var p []string
	for _, c := range calls {
		p = append(p, encodeInts(c))
	}
	return strings.Join(p, ";")
}

func decodeInts(s string) []int {
	s = strings.Trim(s, "[]")
	var out []int
	for _, f := range strings.Split(s, ",") {
		if f == "" {
			continue
		}
		var x int
		fmt.Sscan(f, &x)
		out = append(out, x)
	}
	return out
}

// Aux replays one schedule of one scenario in this fresh process and prints the race signatures seen.
func Aux(args []string) int {
	rw.SilenceStdout()
	var s scenario
	for _, part := range strings.Split(args[0], ";") {
		s.calls = append(s.calls, decodeInts(part))
	}
	choices := decodeInts(args[1])
	prepareInputs()
	al := alphabet()
	_ = sched.NewRaceReports()
	n := len(s.calls)
	if len(args) > 2 && strings.HasPrefix(args[2], "fresh") {
		s.fresh = true
	}
	if len(args) > 2 && strings.HasSuffix(args[2], "+points") {
		s.points = true
	}
	if len(args) > 3 && args[3] == "history" {
		// the same calls made once before, one thread after the other, by this (single) goroutine
		resetState(n, false)
		for ti := 0; ti < n; ti++ {
			for _, ci := range s.calls[ti] {
				al[ci].Do(ti)
			}
		}
		_ = sched.NewRaceReports()
	}
	resetState(n, s.fresh)
	bodies := make([]func(), n)
	for ti := 0; ti < n; ti++ {
		ti := ti
		bodies[ti] = func() {
			for _, ci := range s.calls[ti] {
				al[ci].Do(ti)
			}
		}
	}
	vpoint.On = s.points
	sched.Run(bodies, choices)
	vpoint.On = false
	rs := sched.NewRaceReports()
	if len(rs) == 0 {
		fmt.Fprintln(os.Stderr, "NORACE")
	}
	for _, r := range rs {
		fmt.Fprintln(os.Stderr, "RACE:"+r.Signature)
	}
	return 0
}

func bucket(n int) string {
	switch {
	case n <= 1:
		return "1"
	case n <= 4:
		return "2-4"
	case n <= 16:
		return "5-16"
	case n <= 64:
		return "17-64"
	default:
		return ">64"
	}
}
