// Package c06: format detection is correct, layout-independent and non-consuming.
package c06

import (
	"bytes"
	"encoding/json"
	"fmt"
	"io"
	"os"
	"os/exec"
	"path/filepath"
	"strings"
	"time"

	"github.com/protobom/protobom/pkg/formats"
	"github.com/protobom/protobom/pkg/reader"
	"github.com/protobom/protobom/pkg/sbom"
	"google.golang.org/protobuf/proto"

	"mcverif/engine"
	"mcverif/gen"
	"mcverif/jsonfault"
	"mcverif/props/c05"
	"mcverif/rw"
)

var Spec = engine.Spec{
	ID: "C06", Run: Run, QuickBud: 6 * time.Minute, ThorBud: 30 * time.Minute,
	Technique: "explicit enumeration: every small document x the 4 readable output formats x indents x a finite re-encoding group (declaration first / last / behind a 64 KiB member, compact, indented, escaped values and keys) through the real writer and Sniffer; the full cube of declaration-member values (absent, null, number, near-miss, correct)^3, tag-value header variants and all short token strings for the negative and totality clauses; an instrumented ReadSeeker (chunked reads of 1/7/4096 bytes, every pre-position <= 8) checks the rewind contract",
	Rule:      "case = (document, format, indent) with all layouts and seeker variants inside, or one declaration-cube point, or one header/token string; oracle: detected format = written format; any reported format agrees with the declaration present in the input (type, version, encoding accessors); otherwise error; offset 0 afterwards; ParseStream = ParseStreamWithOptions(Format)",
	Assume:    []string{"for line-based (tag-value) detection the declaration is read weakly: the input mentions both the SPDXVersion tag and the SPDX-<version> token"},
}

// seeker is an instrumented ReadSeeker serving reads in chunks.
type seeker struct {
	r     *bytes.Reader
	chunk int
	pos   int64
	// eofWithData: the read that delivers the last bytes also returns io.EOF (as io.Reader allows and files on
	// some file systems, HTTP bodies and decompressors do)
	eofWithData bool
}

func newSeeker(b []byte, chunk int) *seeker { return &seeker{r: bytes.NewReader(b), chunk: chunk} }

func (s *seeker) Read(p []byte) (int, error) {
	if len(p) > s.chunk {
		p = p[:s.chunk]
	}
	n, err := s.r.Read(p)
	s.pos += int64(n)
	if s.eofWithData && err == nil && s.r.Len() == 0 {
		err = io.EOF
	}
	return n, err
}

func (s *seeker) Seek(off int64, whence int) (int64, error) {
	n, err := s.r.Seek(off, whence)
	if err == nil {
		s.pos = n
	}
	return n, err
}

var _ io.ReadSeeker = (*seeker)(nil)

type declaration struct {
	isObject                        bool
	bomFormat, specVersion, spdxVer string
	hasBom, hasSpec, hasSpdx        bool
}

// declOf reads the top-level declaration of a JSON input independently (encoding/json into a map).
func declOf(in []byte) declaration {
	var d declaration
	var m map[string]json.RawMessage
	dec := json.NewDecoder(bytes.NewReader(in))
	if err := dec.Decode(&m); err != nil || m == nil {
		return d
	}
	d.isObject = true
	get := func(k string) (string, bool) {
		raw, ok := m[k]
		if !ok {
			return "", false
		}
		var s string
		if json.Unmarshal(raw, &s) != nil {
			return "", false
		}
		return s, true
	}
	d.bomFormat, d.hasBom = get("bomFormat")
	d.specVersion, d.hasSpec = get("specVersion")
	d.spdxVer, d.hasSpdx = get("spdxVersion")
	return d
}

// agrees: the reported format is backed by the declaration present in the input.
func agrees(f formats.Format, in []byte) string {
	d := declOf(in)
	typ, ver, enc := f.Type(), f.Version(), f.Encoding()
	if typ == "" || ver == "" || enc == "" {
		return fmt.Sprintf("format %q has an empty type/version/encoding accessor (%q,%q,%q)", f, typ, ver, enc)
	}
	switch enc {
	case formats.JSON:
		if !d.isObject {
			return "a JSON format was reported for input that is not a JSON object"
		}
		switch typ {
		case formats.CDXFORMAT:
			if !d.hasBom || !strings.EqualFold(d.bomFormat, "CycloneDX") {
				return fmt.Sprintf("CycloneDX reported but bomFormat is %q (present=%v)", d.bomFormat, d.hasBom)
			}
			if !d.hasSpec || d.specVersion != ver {
				return fmt.Sprintf("version %s reported but specVersion is %q", ver, d.specVersion)
			}
		case formats.SPDXFORMAT:
			if !d.hasSpdx || d.spdxVer != "SPDX-"+ver {
				return fmt.Sprintf("SPDX %s reported but spdxVersion is %q (present=%v)", ver, d.spdxVer, d.hasSpdx)
			}
		default:
			return "unknown type " + typ
		}
	case formats.TEXT:
		if typ != formats.SPDXFORMAT {
			return "text encoding reported for type " + typ
		}
		if d.isObject {
			return "a tag-value format was reported for an input that is a JSON object: its top-level declaration is its members, whatever its strings contain"
		}
		if !bytes.Contains(in, []byte("SPDXVersion:")) {
			return "tag-value SPDX reported but the input has no SPDXVersion tag"
		}
		if !bytes.Contains(in, []byte("SPDX-"+ver)) {
			return fmt.Sprintf("tag-value SPDX %s reported but the input does not mention SPDX-%s", ver, ver)
		}
	default:
		return "unknown encoding " + enc
	}
	return ""
}

// sniffAll runs detection through every seeker variant and checks rewind + agreement; returns the result on the plain reader.
func sniffAll(t *engine.T, in []byte) (formats.Format, error, *engine.Violation) {
	f0, e0 := rw.Sniff(bytes.NewReader(in))
	t.Transitions(1)
	if (e0 == nil) == (f0 == "") {
		return f0, e0, engine.Violate("format-xor-error", "", "SniffReader returned format %q and error %v", f0, e0)
	}
	if e0 == nil {
		if why := agrees(f0, in); why != "" {
			return f0, e0, engine.Violate("agreement", "", "detected %q but %s", f0, why)
		}
	}
	for _, chunk := range []int{1, 7, 4096} {
		s := newSeeker(in, chunk)
		f, e := rw.Sniff(s)
		t.Transitions(1)
		if s.pos != 0 {
			return f0, e0, engine.Violate("rewind", "", "after SniffReader (chunk %d) the stream is at offset %d, not 0", chunk, s.pos)
		}
		if f != f0 || (e == nil) != (e0 == nil) {
			return f0, e0, engine.Violate("chunk-dependence", "", "reads in chunks of %d give (%q,%v), whole reads give (%q,%v)", chunk, f, e, f0, e0)
		}
	}
	for _, chunk := range []int{7, 4096, 1 << 20} {
		s := newSeeker(in, chunk)
		s.eofWithData = true
		f, e := rw.Sniff(s)
		t.Transitions(1)
		if s.pos != 0 {
			return f0, e0, engine.Violate("rewind", "eof-with-data", "after SniffReader on a stream that returns its last bytes together with io.EOF (chunk %d) the stream is at offset %d, not 0", chunk, s.pos)
		}
		if f != f0 || (e == nil) != (e0 == nil) {
			return f0, e0, engine.Violate("chunk-dependence", "eof-with-data", "a stream that returns its last bytes together with io.EOF (chunks of %d) gives (%q,%v), a plain reader gives (%q,%v)", chunk, f, e, f0, e0)
		}
	}
	for pre := 1; pre <= 8 && pre <= len(in); pre++ {
		s := newSeeker(in, 4096)
		_, _ = s.Seek(int64(pre), io.SeekStart)
		_, _ = rw.Sniff(s)
		t.Transitions(1)
		if s.pos != 0 {
			return f0, e0, engine.Violate("rewind", "prepositioned", "stream pre-positioned at %d is at offset %d after SniffReader, not 0", pre, s.pos)
		}
	}
	return f0, e0, nil
}

var readable = []formats.Format{formats.SPDX23JSON, formats.CDX13JSON, formats.CDX14JSON, formats.CDX15JSON}

func Run(c *engine.Ctx) {
	rw.SilenceStdout()
	positive(c)
	sizeClasses(c)
	historyPairs(c)
	fileHistories(c)
	filePaths(c)
	truncations(c)
	multiByteText(c)
	declarationCube(c)
	headers(c)
	tokens(c)
}

// sizeClasses: detection and the parse after it on documents of 1 MiB, 5 MiB and 17 MiB (one padded top-level
// member, before or after the declaration members): thresholds, probe windows and buffer limits are invisible to
// documents of a few hundred bytes.
func sizeClasses(c *engine.Ctx) {
	c.Group("size-classes")
	sizes := []int{1<<20 + 1, 5 << 20, 17 << 20}
	c.Bound("size-classes", fmt.Sprintf("4 readable formats x padded member of %v bytes x {before, after} the declaration members: detected format = written format, ParseStream = ParseStreamWithOptions(Format)", sizes))
	for _, f := range readable {
		for _, size := range sizes {
			for _, before := range []bool{true, false} {
				f, size, before := f, size, before
				c.Case(func() any {
					return map[string]any{"format": string(f), "padding-bytes": size, "padding-before-declaration": before}
				}, func(t *engine.T) *engine.Violation {
					out, err := rw.Write(histDoc(), f, 0)
					if err != nil {
						return engine.Violate("harness", "", "write: %v", err)
					}
					root, err := jsonfault.Parse(out)
					if err != nil {
						return engine.Violate("harness", "", "parse: %v", err)
					}
					pad := &jsonfault.Node{Raw: `"` + strings.Repeat("p", size) + `"`}
					if before {
						root.Keys = append([]string{"aa-padding"}, root.Keys...)
						root.Elems = append([]*jsonfault.Node{pad}, root.Elems...)
					} else {
						root.Keys = append(root.Keys, "zz-padding")
						root.Elems = append(root.Elems, pad)
					}
					text := []byte(c05.Render(root, false, false))
					got, serr := rw.Sniff(bytes.NewReader(text))
					t.Transitions(1)
					t.Validated(1)
					if serr != nil || got != f {
						return engine.Violate("written-format", "size", "a %d-byte document written as %s is detected as (%q, %v)", len(text), f, got, serr)
					}
					d1, e1 := rw.Read(text)
					d2, e2 := rw.ReadAs(text, f)
					if e1 != nil || e2 != nil || gen.Canon(d1.NodeList, nil) != gen.Canon(d2.NodeList, nil) {
						return engine.Violate("parse-vs-explicit", "size", "a %d-byte %s document: ParseStream (%v) differs from ParseStreamWithOptions (%v)", len(text), f, e1, e2)
					}
					t.State(fmt.Sprint("size", f, size, before))
					t.Outcome("size-class-ok")
					return nil
				})
			}
		}
	}
}

// multiByteText: writer outputs in which a long run of 2-, 3- and 4-byte UTF-8 characters starts within the first few
// hundred bytes and extends for 90 KB, shifted by 0..3 ASCII bytes: for every fixed byte offset in that stretch one
// of the shifts puts the offset inside a character. Whatever window, prefix or buffer boundary detection uses, some
// case has a character straddling it.
func multiByteText(c *engine.Ctx) {
	c.Group("multi-byte-text")
	chars := []string{"é", "日", "😀"}
	c.Bound("multi-byte-text", "4 readable formats x indents {0,2,4} x runs of 90 KB of 2- / 3- / 4-byte characters in the document name and the root node's name x shifts of 0..3 ASCII bytes: detected format = written format, ParseStream = ParseStreamWithOptions(Format)")
	for _, f := range readable {
		for _, indent := range []int{0, 2, 4} {
			for _, ch := range chars {
				for shift := 0; shift < 4; shift++ {
					f, indent, ch, shift := f, indent, ch, shift
					c.Case(func() any {
						return map[string]any{"format": string(f), "indent": indent, "character": ch, "ascii-bytes-before-the-run": shift}
					}, func(t *engine.T) *engine.Violation {
						d := histDoc()
						text := strings.Repeat("x", shift) + strings.Repeat(ch, 90000/len(ch))
						d.Metadata.Name = text
						d.NodeList.Nodes[0].Name = text
						out, err := rw.Write(d, f, indent)
						if err != nil {
							return engine.Violate("harness", "", "write: %v", err)
						}
						got, serr := rw.Sniff(bytes.NewReader(out))
						t.Transitions(1)
						t.Validated(1)
						if serr != nil || got != f {
							return engine.Violate("written-format", "multi-byte", "a document written as %s (indent %d) whose names are %d ASCII bytes followed by 90 KB of %q is detected as (%q, %v)", f, indent, shift, ch, got, serr)
						}
						d1, e1 := rw.Read(out)
						d2, e2 := rw.ReadAs(out, f)
						if e1 != nil || e2 != nil || gen.Canon(d1.NodeList, nil) != gen.Canon(d2.NodeList, nil) {
							return engine.Violate("parse-vs-explicit", "multi-byte", "ParseStream (%v) differs from ParseStreamWithOptions (%v)", e1, e2)
						}
						t.State(fmt.Sprint("mb", f, indent, ch, shift))
						t.Outcome("multi-byte-ok")
						return nil
					})
				}
			}
		}
	}
}

func positive(c *engine.Ctx) {
	c.Group("writer-outputs")
	ids := []string{"a", "b-1"}
	types := []sbom.Edge_Type{sbom.Edge_contains, sbom.Edge_dependsOn}
	objs := gen.EdgeObjects(ids, types, ids)
	maxE := 1
	if c.Thorough() {
		maxE = 2
	}
	c.Bound("writer-outputs", fmt.Sprintf("every document over <=2 nodes (node subsets, ordered edge lists of <=%d of %d objects, root subsets, plain/rich attributes) x 4 readable formats x indents {0,1,4} x 8 layouts x 4 seeker variants + 8 pre-positions", maxE, len(objs)))
	for _, nodes := range gen.Subsets(ids) {
		var froms []string = nodes
		_ = froms
		gen.EdgeLists(objs, maxE, func(el []gen.EdgeSpec) {
			for _, roots := range gen.Subsets(nodes) {
				spec := gen.ListSpec{Nodes: nodes, Edges: el, Roots: roots}
				if !gen.SpecWellFormed(spec) {
					continue
				}
				for rich := 0; rich < 2; rich++ {
					for _, f := range readable {
						for _, indent := range []int{0, 1, 4} {
							if strings.Contains(string(f), "cyclonedx") && (len(roots) != 1 || indent != 0) {
								continue // the CycloneDX serializer needs one root and ignores the indent
							}
							rich, f, indent := rich, f, indent
							c.Case(func() any {
								return map[string]any{"list": spec, "rich": rich == 1, "format": string(f), "indent": indent}
							}, func(t *engine.T) *engine.Violation {
								nl := spec.Build()
								if rich == 1 {
									for _, n := range nl.Nodes {
										n.Description = `mentions "spdxVersion": "SPDX-2.2" and "bomFormat": "CycloneDX" and SPDXVersion: SPDX-2.2 in a value`
										n.Comment = n.Description
										n.Version = "1.4"
									}
								}
								d := sbom.NewDocument()
								d.Metadata.Id = "urn:uuid:3e671687-395b-41f5-a30f-a58921a69b79"
								d.Metadata.Name = `SPDX-2.2 "specVersion": "1.3"`
								d.NodeList = nl
								out, err := rw.Write(d, f, indent)
								t.Transitions(1)
								if err != nil {
									t.Outcome("write-error")
									return nil
								}
								for _, l := range layouts(out) {
									got, err, v := sniffAll(t, []byte(l.text))
									if v != nil {
										v.Detail = "layout " + l.name + ": " + v.Detail
										return v
									}
									t.Validated(1)
									if err != nil || got != f {
										return engine.Violate("written-format", "", "layout %s: wrote %s, detection says (%q, %v)", l.name, f, got, err)
									}
									if strings.HasPrefix(l.name, "escaped") && f == formats.SPDX23JSON {
										continue // parsing escaped SPDX identifiers is C05's known finding (third-party decoder); detection itself was judged above
									}
									d1, e1 := rw.Read([]byte(l.text))
									d2, e2 := rw.ReadAs([]byte(l.text), f)
									if (e1 == nil) != (e2 == nil) || (e1 == nil && gen.Canon(d1.NodeList, nil) != gen.Canon(d2.NodeList, nil)) {
										return engine.Violate("parse-vs-explicit", "", "layout %s: ParseStream (%v) differs from ParseStreamWithOptions(%s) (%v)", l.name, e1, f, e2)
									}
									if e1 != nil {
										return engine.Violate("parse-after-detect", "", "layout %s: detection succeeded but the following parse failed: %v", l.name, e1)
									}
									if len(d1.NodeList.Nodes) != len(nl.Nodes) {
										return engine.Violate("parse-after-detect", "truncated", "layout %s: the parse after detection saw %d of %d nodes", l.name, len(d1.NodeList.Nodes), len(nl.Nodes))
									}
								}
								t.State(fmt.Sprintf("%s|%d|%s|%d", gen.CanonKey(nl), rich, f, indent))
								t.Outcome("detected:" + string(f))
								return nil
							})
						}
					}
				}
			}
		})
	}
}

// historyPairs: every ordered pair (and triple, thorough) of representative inputs is sniffed back to back; the result
// for the last input must equal the result it gets when it is the first thing sniffed in a fresh process.
func historyInputs() []string {
	spdx, _ := rw.Write(histDoc(), formats.SPDX23JSON, 2)
	c14, _ := rw.Write(histDoc(), formats.CDX14JSON, 0)
	c15, _ := rw.Write(histDoc(), formats.CDX15JSON, 0)
	return []string{
		string(spdx), string(c14), string(c15),
		`{"bomFormat":"CycloneDX","specVersion":1.5}`, `{"spdxVersion":"SPDX-2.3","bomFormat":7}`, `{"bomFormat":"CycloneDX","specVersion":"1.3","spdxVersion":2}`,
		`{"spdxVersion":"SPDX-2.2","specVersion":["1.4"]}`, `{"specVersion":"1.4"}`, `{"bomFormat":"CycloneDX"}`, `{}`, `[]`, `{"spdxVersion":"SPDX-2.3"`, "",
		"SPDXVersion: SPDX-2.3\n", "SPDXVersion: SPDX-2.1\n\"SPDX-2.2\"\n", "\"SPDX-2.3\"\n", "SPDXVersion:\n", "garbage\n",
		`{"spdxVersion":"SPDX-2.4"}`, `{"bomFormat":"CycloneDX","specVersion":"1.6"}`,
	}
}

func histDoc() *sbom.Document {
	d := sbom.NewDocument()
	d.Metadata.Id = "urn:uuid:3e671687-395b-41f5-a30f-a58921a69b79"
	d.NodeList.Nodes = []*sbom.Node{{Id: "a", Name: "na"}}
	d.NodeList.RootElements = []string{"a"}
	return d
}

func sniffKey(in string) string {
	f, err := rw.Sniff(strings.NewReader(in))
	return fmt.Sprintf("%s|%v", f, err != nil)
}

// Aux prints the detection result of history input #n as the first call of a fresh process.
func Aux(args []string) int {
	rw.SilenceStdout()
	var n int
	fmt.Sscan(args[0], &n)
	fmt.Fprint(os.Stderr, sniffKey(historyInputs()[n]))
	return 0
}

func historyPairs(c *engine.Ctx) {
	c.Group("history")
	ins := historyInputs()
	depth := 2
	if c.Thorough() {
		depth = 3
	}
	c.Bound("history", fmt.Sprintf("all sequences of %d detections over %d representative inputs (writer outputs, wrongly typed / partial / near-miss declarations, truncated JSON, tag-value variants, garbage); last result = result as first call of a fresh process", depth, len(ins)))
	refs := map[int]string{}
	self, _ := os.Executable()
	var rec func(seq []int)
	rec = func(seq []int) {
		if len(seq) == depth {
			s := append([]int{}, seq...)
			c.Case(func() any {
				var l []string
				for _, i := range s {
					x := ins[i]
					if len(x) > 60 {
						x = x[:60] + "…"
					}
					l = append(l, x)
				}
				return l
			}, func(t *engine.T) *engine.Violation {
				last := s[len(s)-1]
				if _, ok := refs[last]; !ok {
					out, err := exec.Command(self, "--aux", "c06ref", fmt.Sprint(last)).CombinedOutput()
					if err != nil {
						return engine.Violate("harness", "", "reference process failed: %v %s", err, out)
					}
					refs[last] = string(out)
				}
				var got string
				for _, i := range s {
					got = sniffKey(ins[i])
					t.Transitions(1)
				}
				t.Validated(1)
				if got != refs[last] {
					return engine.Violate("history-dependent", "", "after sniffing %d other input(s) detection of input #%d gives %q; as first call of a fresh process it gives %q", len(s)-1, last, got, refs[last])
				}
				t.State(fmt.Sprint("hist", s))
				t.Outcome("history-ok")
				return nil
			})
			return
		}
		for i := range ins {
			rec(append(seq, i))
		}
	}
	rec(nil)
}

// fileHistories: detection through the file entry point (Sniffer.SniffFile, reader.ParseFile) on ONE path whose content
// changes between the calls, with the file's timestamps pinned to one instant (as after an archive extraction, a copy
// that preserves times, or two writes within one clock tick: the modification time is an environment answer, owned
// here) - rewritten in place or replaced by rename. Among the inputs are writer outputs of equal length in different
// formats. Oracle: the file entry point reports what the stream entry point reports for the bytes now in the file.
// filePaths: the ways a path can name the file that holds the document - directly, through a symbolic link (absolute,
// relative, a chain of two), through a symbolic link to its directory, as a hard link, relative to the working
// directory, with dot segments and a doubled separator, with blanks and non-ASCII characters in the name - and the
// paths that name no document: a directory, a dangling link, nothing. SniffFile and ParseFile answer as SniffReader
// and ParseStream do on the bytes the path leads to; where it leads nowhere they return an error.
func filePaths(c *engine.Ctx) {
	c.Group("file-paths")
	ins := historyInputs()
	kinds := []string{"direct", "symlink-absolute", "symlink-relative", "symlink-chain", "symlinked-directory", "hard-link", "relative-to-cwd", "dot-segments", "blanks-and-unicode", "directory", "dangling-symlink", "missing"}
	c.Bound("file-paths", fmt.Sprintf("%d inputs x %d ways a path names (or fails to name) the file: %v", len(ins), len(kinds), kinds))
	for i := range ins {
		for _, kind := range kinds {
			i, kind := i, kind
			c.Case(func() any { return map[string]any{"group": "file-paths", "input": clip60(ins[i]), "path": kind} }, func(t *engine.T) *engine.Violation {
				dir, err := os.MkdirTemp(os.Getenv("MCVERIF_SCRATCH"), "c06p-")
				if err != nil {
					return engine.Violate("harness", "", "%v", err)
				}
				defer os.RemoveAll(dir)
				real := filepath.Join(dir, "data", "sbom.json")
				_ = os.MkdirAll(filepath.Dir(real), 0o755)
				if err := os.WriteFile(real, []byte(ins[i]), 0o644); err != nil {
					return engine.Violate("harness", "", "%v", err)
				}
				path, leads := real, true
				var herr error
				switch kind {
				case "symlink-absolute":
					path = filepath.Join(dir, "latest.json")
					herr = os.Symlink(real, path)
				case "symlink-relative":
					path = filepath.Join(dir, "latest.json")
					herr = os.Symlink(filepath.Join("data", "sbom.json"), path)
				case "symlink-chain":
					mid := filepath.Join(dir, "mid.json")
					path = filepath.Join(dir, "latest.json")
					if herr = os.Symlink(real, mid); herr == nil {
						herr = os.Symlink("mid.json", path)
					}
				case "symlinked-directory":
					herr = os.Symlink(filepath.Join(dir, "data"), filepath.Join(dir, "current"))
					path = filepath.Join(dir, "current", "sbom.json")
				case "hard-link":
					path = filepath.Join(dir, "copy.json")
					herr = os.Link(real, path)
				case "relative-to-cwd":
					wd, _ := os.Getwd()
					defer func() { _ = os.Chdir(wd) }()
					herr = os.Chdir(dir)
					path = filepath.Join("data", "sbom.json")
				case "dot-segments":
					path = dir + "/data/../data//./sbom.json"
				case "blanks-and-unicode":
					path = filepath.Join(dir, "data", "my sbom é✓.json")
					herr = os.Rename(real, path)
				case "directory":
					path, leads = filepath.Join(dir, "data"), false
				case "dangling-symlink":
					path, leads = filepath.Join(dir, "latest.json"), false
					herr = os.Symlink(filepath.Join(dir, "nothing-here"), path)
				case "missing":
					path, leads = filepath.Join(dir, "nothing-here.json"), false
				}
				if herr != nil {
					return engine.Violate("harness", "", "preparing %s: %v", kind, herr)
				}
				f, err := (&formats.Sniffer{}).SniffFile(path)
				d1, e1 := reader.New().ParseFile(path)
				t.Transitions(2)
				t.Validated(1)
				if !leads {
					if err == nil || e1 == nil || d1 != nil {
						return engine.Violate("file-detection", "path-kind", "a path that names no document (%s): SniffFile returned (%q,%v), ParseFile (%v,%v)", kind, f, err, d1 != nil, e1)
					}
					t.Outcome("file-paths-error")
					return nil
				}
				want := sniffKey(ins[i])
				if got := fmt.Sprintf("%s|%v", f, err != nil); got != want {
					return engine.Violate("file-detection", "path-kind", "SniffFile through a path of kind %s reports %q (%v), SniffReader on the bytes it leads to reports %q", kind, got, err, want)
				}
				d2, e2 := reader.New().ParseStream(strings.NewReader(ins[i]))
				if (e1 == nil) != (e2 == nil) || (e1 == nil && !proto.Equal(normDoc(d1), normDoc(d2))) {
					return engine.Violate("file-detection", "path-kind", "ParseFile through a path of kind %s differs from ParseStream on the bytes it leads to (errors: %v / %v)", kind, e1, e2)
				}
				t.State(fmt.Sprint("fp", i, kind))
				t.Outcome("file-paths-ok")
				return nil
			})
		}
	}
}

func fileHistories(c *engine.Ctx) {
	c.Group("file-history")
	c13, _ := rw.Write(histDoc(), formats.CDX13JSON, 0)
	ins := append([]string{string(c13)}, historyInputs()...)
	sameLen := 0
	for i := range ins {
		for j := range ins {
			if i < j && len(ins[i]) == len(ins[j]) && ins[i] != ins[j] {
				sameLen++
			}
		}
	}
	c.Bound("file-history", fmt.Sprintf("all sequences of 2 (write content to the one path, detect) over %d inputs (%d pairs of different inputs of equal length) x {rewritten in place, replaced by rename} x {timestamps pinned to one instant, left to the clock}; SniffFile and ParseFile against SniffReader on the bytes now in the file", len(ins), sameLen))
	pinned := time.Unix(1_700_000_000, 0)
	for i := range ins {
		for j := range ins {
			for mode := 0; mode < 4; mode++ {
				i, j, rename, pin := i, j, mode&1 != 0, mode&2 != 0
				c.Case(func() any {
					return map[string]any{"first": clip60(ins[i]), "second": clip60(ins[j]), "replaced-by-rename": rename, "timestamps-pinned": pin}
				}, func(t *engine.T) *engine.Violation {
					dir, err := os.MkdirTemp(os.Getenv("MCVERIF_SCRATCH"), "c06f-")
					if err != nil {
						return engine.Violate("harness", "", "%v", err)
					}
					defer os.RemoveAll(dir)
					path := filepath.Join(dir, "sbom.json")
					put := func(content string) error {
						target := path
						if rename {
							target = path + ".new"
						}
						if err := os.WriteFile(target, []byte(content), 0o644); err != nil {
							return err
						}
						if pin {
							if err := os.Chtimes(target, pinned, pinned); err != nil {
								return err
							}
						}
						if rename {
							return os.Rename(target, path)
						}
						return nil
					}
					for step, k := range []int{i, j} {
						if err := put(ins[k]); err != nil {
							return engine.Violate("harness", "", "%v", err)
						}
						want := sniffKey(ins[k])
						f, err := (&formats.Sniffer{}).SniffFile(path)
						got := fmt.Sprintf("%s|%v", f, err != nil)
						t.Transitions(2)
						t.Validated(1)
						if got != want {
							return engine.Violate("file-detection", "", "step %d: SniffFile on a file holding %q reports %q, SniffReader on the same bytes reports %q (the path held %q before)", step, clip60(ins[k]), got, want, clip60(ins[i]))
						}
						// the parse that follows sees the whole current document
						d1, e1 := reader.New().ParseFile(path)
						d2, e2 := reader.New().ParseStream(strings.NewReader(ins[k]))
						if (e1 == nil) != (e2 == nil) || (e1 == nil && !proto.Equal(normDoc(d1), normDoc(d2))) {
							return engine.Violate("file-detection", "parse", "step %d: ParseFile on a file holding %q differs from ParseStream on the same bytes (errors: %v / %v)", step, clip60(ins[k]), e1, e2)
						}
					}
					t.State(fmt.Sprint("fh", i, j, mode))
					t.Outcome("file-history-ok")
					return nil
				})
			}
		}
	}
}

func clip60(x string) string {
	if len(x) > 60 {
		return x[:60] + "…"
	}
	return x
}

// normDoc clears what differs between two parses of the same bytes by design (generated document identifiers, dates).
func normDoc(d *sbom.Document) *sbom.Document {
	if d == nil {
		return nil
	}
	c := proto.Clone(d).(*sbom.Document)
	if c.Metadata != nil {
		c.Metadata.Date = nil
	}
	return c
}

type lay struct{ name, text string }

func layouts(out []byte) []lay {
	ls := []lay{{"as-written", string(out)}}
	root, err := jsonfault.Parse(out)
	if err != nil || root.Kind != jsonfault.Object {
		return ls
	}
	isDecl := func(k string) bool { return k == "bomFormat" || k == "specVersion" || k == "spdxVersion" }
	move := func(front bool) *jsonfault.Node {
		c := root.Clone()
		var dk, ok []int
		for i, k := range c.Keys {
			if isDecl(k) {
				dk = append(dk, i)
			} else {
				ok = append(ok, i)
			}
		}
		order := append(append([]int{}, dk...), ok...)
		if !front {
			order = append(append([]int{}, ok...), dk...)
		}
		c05.PermuteObj(c, order)
		return c
	}
	first, last := move(true), move(false)
	ls = append(ls, lay{"declaration-first compact", c05.Render(first, false, false)})
	ls = append(ls, lay{"declaration-last indented", c05.Render(last, true, false)})
	big := last.Clone()
	pad := &jsonfault.Node{Raw: `"` + strings.Repeat("p", 65536) + `"`}
	big.Keys = append([]string{"zz-padding"}, big.Keys...)
	big.Elems = append([]*jsonfault.Node{pad}, big.Elems...)
	ls = append(ls, lay{"declaration-after-64KiB-member", c05.Render(big, false, false)})
	esc := root.Clone()
	c05.EscapeAll(esc)
	ls = append(ls, lay{"escaped-values", c05.Render(esc, false, false)})
	ls = append(ls, lay{"escaped-values-and-keys", c05.Render(esc, true, true)})
	rev := root.Clone()
	order := make([]int, len(rev.Keys))
	for i := range order {
		order[i] = len(order) - 1 - i
	}
	c05.PermuteObj(rev, order)
	ls = append(ls, lay{"reversed-members", c05.Render(rev, false, false)})
	ls = append(ls, lay{"leading-whitespace", " \n\t" + string(out)})
	return ls
}

func declarationCube(c *engine.Ctx) {
	c.Group("declaration-cube")
	bom := []string{"", "null", "7", `"cyclonedx"`, `"CycloneDX "`, `"CycloneDX"`, `"SPDX"`}
	spec := []string{"", "null", "1.5", `"1.6"`, `"1.50"`, `"1.3"`, `"1.4"`, `"1.5"`, `"1.2"`, `" 1.5"`}
	spdx := []string{"", "null", "2.3", `"SPDX-2.4"`, `"SPDX-2.3 "`, `"spdx-2.3"`, `"SPDX-2.3"`, `"SPDX-2.2"`, `"2.3"`}
	c.Bound("declaration-cube", fmt.Sprintf("%d x %d x %d values of bomFormat / specVersion / spdxVersion (absent, null, number, near misses, correct), members in two orders, other string members plain / carrying declaration text of either format / spread over physical lines", len(bom), len(spec), len(spdx)))
	for _, b := range bom {
		for _, s := range spec {
			for _, x := range spdx {
				for ot := 0; ot < 6; ot++ {
					// order of the members x what the other string members say: nothing / the tag-value declaration text inside
					// a string (one physical line) / spread over two physical lines of a pretty-printed document
					b, s, x, order, text := b, s, x, ot%2, ot/2
					c.Case(func() any {
						return map[string]any{"bomFormat": b, "specVersion": s, "spdxVersion": x, "order": order, "other-members": []string{"plain", "tag-value text in a string", "tag-value text over two lines"}[text]}
					}, func(t *engine.T) *engine.Violation {
						var members []string
						if b != "" {
							members = append(members, `"bomFormat":`+b)
						}
						if s != "" {
							members = append(members, `"specVersion":`+s)
						}
						if x != "" {
							members = append(members, `"spdxVersion":`+x)
						}
						sep := ","
						switch text {
						case 0:
							members = append(members, `"name":"n"`, `"packages":[]`, `"components":[]`)
						case 1:
							members = append(members, `"name":"SPDXVersion: SPDX-2.3"`, `"comment":"\"bomFormat\": \"CycloneDX\", \"specVersion\": \"1.5\""`, `"packages":[]`)
						default:
							sep = ",\n"
							members = append(members, `"description":"SPDXVersion: SPDX-2.1"`, `"note":"SPDX-2.3"`, `"components":[]`)
						}
						if order == 1 {
							for i, j := 0, len(members)-1; i < j; i, j = i+1, j-1 {
								members[i], members[j] = members[j], members[i]
							}
						}
						in := []byte("{" + strings.Join(members, sep) + "}")
						f, err, v := sniffAll(t, in)
						if v != nil {
							return v
						}
						t.Validated(1)
						// a correct, unambiguous declaration must be detected
						d := declOf(in)
						// (only when the other declaration members are absent or strings: a wrong-typed member makes the input schema-invalid)
						strOrAbsent := func(v string) bool { return v == "" || strings.HasPrefix(v, `"`) }
						wantCDX := d.hasBom && d.bomFormat == "CycloneDX" && d.hasSpec && (d.specVersion == "1.3" || d.specVersion == "1.4" || d.specVersion == "1.5") && strOrAbsent(x)
						wantSPDX := d.hasSpdx && d.spdxVer == "SPDX-2.3" && !(d.hasBom && strings.EqualFold(d.bomFormat, "CycloneDX")) && strOrAbsent(b) && strOrAbsent(s)
						if wantCDX && (err != nil || f.Type() != formats.CDXFORMAT) {
							return engine.Violate("declared-not-detected", "cdx", "input declares CycloneDX %s but detection says (%q,%v)", d.specVersion, f, err)
						}
						if wantSPDX && (err != nil || f != formats.SPDX23JSON) {
							return engine.Violate("declared-not-detected", "spdx", "input declares SPDX-2.3 but detection says (%q,%v)", f, err)
						}
						t.State(string(in))
						if err != nil {
							t.Outcome("cube:error")
						} else {
							t.Outcome("cube:" + string(f))
						}
						return nil
					})
				}
			}
		}
	}
}

// truncations: inputs cut short. Every prefix (every byte position) of tag-value documents with the declaration in
// several positions and of the writer's output in the four readable formats, as it is and followed by a line end: a
// stream that ends inside the declaration, inside a token, inside a multi-byte character. Detection returns a format
// or an error, never panics, and leaves the stream at its start.
func truncations(c *engine.Ctx) {
	c.Group("truncated-inputs")
	ins := []string{
		"SPDXVersion: SPDX-2.3\nDataLicense: CC0-1.0\nSPDXID: SPDXRef-DOCUMENT\n",
		"# é✓ comment\nDataLicense: CC0-1.0\nSPDXVersion: SPDX-2.2\n",
		"DocumentName: x SPDX-2.3\r\nSPDXVersion:   SPDX-2.3  \r\n",
		"SPDXVersion: SPDX-2.3 SPDXVersion: SPDX-2.2 'SPDX-2.3' \"SPDX-2.3\"",
	}
	for _, f := range readable {
		if out, err := rw.Write(histDoc(), f, 0); err == nil {
			if len(out) > 700 {
				out = out[:700]
			}
			ins = append(ins, string(out))
		}
	}
	n := 0
	for _, in := range ins {
		n += 2 * (len(in) + 1)
	}
	c.Bound("truncated-inputs", fmt.Sprintf("%d cases: every prefix (every byte position) of %d inputs (tag-value declarations in several positions and spellings; the first 700 bytes of the writer's output in the 4 readable formats), as it is and followed by a line end", n, len(ins)))
	for ii := range ins {
		for cut := 0; cut <= len(ins[ii]); cut++ {
			for _, tail := range []string{"", "\n"} {
				ii, cut, tail := ii, cut, tail
				c.Case(func() any {
					return map[string]any{"group": "truncated-inputs", "input": clip60(ins[ii]), "cut-at": cut, "line-end-appended": tail != ""}
				}, func(t *engine.T) *engine.Violation {
					in := []byte(ins[ii][:cut] + tail)
					_, err, v := sniffAll(t, in)
					if v != nil {
						return v
					}
					t.State(fmt.Sprint("trunc", ii, cut, tail != ""))
					if err != nil {
						t.Outcome("truncated:error")
					} else {
						t.Outcome("truncated:format")
					}
					return nil
				})
			}
		}
	}
}

func headers(c *engine.Ctx) {
	c.Group("tag-value-headers")
	lines := []string{"SPDXVersion: SPDX-2.3", "SPDXVersion: SPDX-2.2", "SPDX-2.3 SPDXVersion:", "SPDXVersion: SPDX-2.4", "SPDXVersion:", "SPDX-2.3", "'SPDX-2.3'", `"SPDX-2.3"`, "DataLicense: CC0-1.0", "", "# comment", "spdxversion: SPDX-2.3", "SPDXVersion: spdx-2.3"}
	c.Bound("tag-value-headers", fmt.Sprintf("every sequence of <=3 lines over %d header-line variants, with LF and CRLF", len(lines)))
	var rec func(cur []string)
	rec = func(cur []string) {
		for _, eol := range []string{"\n", "\r\n"} {
			seq, eol := append([]string{}, cur...), eol
			c.Case(func() any { return map[string]any{"lines": seq, "eol": eol} }, func(t *engine.T) *engine.Violation {
				in := []byte(strings.Join(seq, eol) + eol)
				f, err, v := sniffAll(t, in)
				if v != nil {
					return v
				}
				// the plain header must be detected
				if len(seq) > 0 && seq[0] == "SPDXVersion: SPDX-2.3" && (err != nil || f != formats.SPDX23TV) {
					return engine.Violate("declared-not-detected", "tag-value", "a tag-value document starting with 'SPDXVersion: SPDX-2.3' gives (%q,%v)", f, err)
				}
				t.State("tv:" + string(in))
				if err != nil {
					t.Outcome("tv:error")
				} else {
					t.Outcome("tv:" + string(f))
				}
				return nil
			})
		}
		if len(cur) == 3 {
			return
		}
		for _, l := range lines {
			rec(append(cur, l))
		}
	}
	rec(nil)
}

var toks = []string{"{", "}", "[", "]", ":", ",", `"`, "a", "1", " ", "\n", "null", `"bomFormat":"CycloneDX"`, `"specVersion":"1.5"`, `"spdxVersion":"SPDX-2.3"`, "SPDXVersion: SPDX-2.3", "\xff"}

func tokens(c *engine.Ctx) {
	L := 4
	if c.Thorough() {
		L = 5
	}
	c.Group("token-strings")
	c.Bound("token-strings", fmt.Sprintf("all strings of <=%d tokens over a %d-token alphabet", L, len(toks)))
	idx := make([]int, 0, L)
	var rec func()
	rec = func() {
		cur := append([]int{}, idx...)
		c.Case(func() any {
			var sb strings.Builder
			for _, i := range cur {
				sb.WriteString(toks[i])
			}
			return sb.String()
		}, func(t *engine.T) *engine.Violation {
			var sb strings.Builder
			for _, i := range cur {
				sb.WriteString(toks[i])
			}
			in := []byte(sb.String())
			f, err := rw.Sniff(bytes.NewReader(in))
			t.Transitions(1)
			if (err == nil) == (f == "") {
				return engine.Violate("format-xor-error", "", "SniffReader returned format %q and error %v", f, err)
			}
			if err == nil {
				if why := agrees(f, in); why != "" {
					return engine.Violate("agreement", "", "input %q: detected %q but %s", in, f, why)
				}
			}
			s := newSeeker(in, 3)
			_, _ = rw.Sniff(s)
			if s.pos != 0 {
				return engine.Violate("rewind", "", "input %q: stream at offset %d after SniffReader", in, s.pos)
			}
			t.State("tok:" + sb.String())
			if err != nil {
				t.Outcome("tok:error")
			} else {
				t.Outcome("tok:" + string(f))
			}
			return nil
		})
		if len(idx) == L || c.Expired() {
			return
		}
		for i := range toks {
			idx = append(idx, i)
			rec()
			idx = idx[:len(idx)-1]
		}
	}
	rec()
}
