// Package c08: graph-editing operations preserve well-formedness (explicit-state
// search over operation histories on real NodeList values).
package c08

import (
	"fmt"
	"google.golang.org/protobuf/proto"
	"sort"
	"strings"
	"time"

	"github.com/protobom/protobom/pkg/sbom"

	"mcverif/engine"
	"mcverif/gen"
	"mcverif/vmap"
)

var Spec = engine.Spec{
	ID: "C08", Run: Run, MapOrders: true, MapOrdersQuick: []int{vmap.Alternating}, QuickBud: 4 * time.Minute, ThorBud: 30 * time.Minute,
	Technique: "explicit-state breadth-first search over editing-operation histories on real NodeList values (successor = replay of the path on fresh instances + one operation), canonical-key de-duplication, invariant checked in every state, RemoveNodes against a triple-set model",
	Rule:      "state = NodeList reached by a history; key = sorted ids + sorted roots with multiplicity + sorted multiset of edge objects; transition = one of ~100 operations (Union/Intersect/Add/RelateNodeListAtID with 8 library lists, RemoveNodes of every id subset, RelateNodeAtID, NodeGraph/NodeSiblings/NodeDescendants/GetNodesByPurlType whose result becomes the next state)",
	Assume:    []string{"premise checked on every step: receiver and argument well-formed; a step whose argument was corrupted by an earlier aliasing effect is skipped and counted (that is C12's subject)"},
}

// node payloads by identifier. a and d are the same software under two identifiers (equal hash and package URL), f and
// b share the package URL only: an operation that recognises nodes by what they describe instead of by their identifier
// meets both kinds of twin.
var purls = map[string]string{"a": "pkg:apk/w/a@1", "b": "pkg:deb/d/b@1", "c": "pkg:apk/w/c@2", "e": "pkg:deb/d/e@1", "d": "pkg:apk/w/a@1", "f": "pkg:deb/d/b@1"}
var hashes = map[string]string{"a": "aa11", "d": "aa11", "c": "cc33"}

func build(s gen.ListSpec) *sbom.NodeList {
	nl := s.Build()
	for _, n := range nl.Nodes {
		if p, ok := purls[n.Id]; ok {
			n.Identifiers = map[int32]string{int32(sbom.SoftwareIdentifierType_PURL): p}
		}
		if h, ok := hashes[n.Id]; ok {
			n.Hashes = map[int32]string{int32(sbom.HashAlgorithm_SHA256): h}
		}
	}
	return nl
}

const (
	tc = sbom.Edge_contains
	td = sbom.Edge_dependsOn
)

var library = []gen.ListSpec{
	{},
	{Nodes: []string{"a"}, Roots: []string{"a"}},
	{Nodes: []string{"a", "b"}, Edges: []gen.EdgeSpec{{From: "a", Type: tc, To: []string{"b"}}}, Roots: []string{"a"}},
	{Nodes: []string{"b", "c"}, Edges: []gen.EdgeSpec{{From: "b", Type: td, To: []string{"c"}}}, Roots: []string{"b"}},
	{Nodes: []string{"c", "d"}, Edges: []gen.EdgeSpec{{From: "c", Type: tc, To: []string{"d"}}, {From: "d", Type: tc, To: []string{"c", "d"}}}, Roots: []string{"c"}},
	{Nodes: []string{"a", "b", "c"}, Edges: []gen.EdgeSpec{{From: "a", Type: tc, To: []string{"b", "c"}}, {From: "a", Type: td, To: []string{"b"}}}, Roots: []string{"a"}},
	{Nodes: []string{"d"}},
	{Nodes: []string{"a", "d"}, Edges: []gen.EdgeSpec{{From: "d", Type: tc, To: []string{"a"}}}, Roots: []string{"d", "a"}},
	wideStar(false),
}

// libraryFileKinds: nodes that are FILE nodes in a library list (index -> identifiers) and PACKAGE nodes everywhere else.
var libraryFileKinds = map[int][]string{2: {"b"}, 3: {"c"}, 5: {"a"}, 7: {"d"}}

// wideStar: node a with 40 contained leaves (size class: thresholds and capacity effects are invisible to 3-node lists).
func wideStar(reversed bool) gen.ListSpec {
	var leaves []string
	for i := 0; i < 40; i++ {
		leaves = append(leaves, fmt.Sprintf("l%02d", i))
	}
	if reversed {
		for i, j := 0, len(leaves)-1; i < j; i, j = i+1, j-1 {
			leaves[i], leaves[j] = leaves[j], leaves[i]
		}
	}
	return gen.ListSpec{Nodes: append([]string{"a", "b"}, leaves...), Edges: []gen.EdgeSpec{{From: "a", Type: tc, To: leaves}, {From: "b", Type: td, To: leaves[:3]}}, Roots: []string{"a"}}
}

type op struct {
	Name  string
	Class string // merge | relate | remove | extract
	// apply runs the operation; it returns the next state (nil = no successor) and an oracle verdict.
	apply func(lib []*sbom.NodeList, cur *sbom.NodeList) (next *sbom.NodeList, v *engine.Violation, skipped bool)
}

func ops() []op {
	var out []op
	for i := range library {
		i := i
		out = append(out,
			op{Name: fmt.Sprintf("Union(X%d)", i), Class: "merge", apply: func(lib []*sbom.NodeList, cur *sbom.NodeList) (*sbom.NodeList, *engine.Violation, bool) {
				if gen.WellFormed(lib[i]) != "" {
					return nil, nil, true
				}
				return cur.Union(lib[i]), nil, false
			}},
			op{Name: fmt.Sprintf("Intersect(X%d)", i), Class: "merge", apply: func(lib []*sbom.NodeList, cur *sbom.NodeList) (*sbom.NodeList, *engine.Violation, bool) {
				if gen.WellFormed(lib[i]) != "" {
					return nil, nil, true
				}
				return cur.Intersect(lib[i]), nil, false
			}},
			op{Name: fmt.Sprintf("Add(X%d)", i), Class: "merge", apply: func(lib []*sbom.NodeList, cur *sbom.NodeList) (*sbom.NodeList, *engine.Violation, bool) {
				if gen.WellFormed(lib[i]) != "" {
					return nil, nil, true
				}
				cur.Add(lib[i])
				return cur, nil, false
			}},
		)
	}
	// the list as its own argument (one object on both sides)
	out = append(out,
		op{Name: "Union(itself)", Class: "merge", apply: func(lib []*sbom.NodeList, cur *sbom.NodeList) (*sbom.NodeList, *engine.Violation, bool) {
			return cur.Union(cur), nil, false
		}},
		op{Name: "Intersect(itself)", Class: "merge", apply: func(lib []*sbom.NodeList, cur *sbom.NodeList) (*sbom.NodeList, *engine.Violation, bool) {
			return cur.Intersect(cur), nil, false
		}},
	)
	for _, i := range []int{1, 2, 4, 6, 7, 8} {
		for _, at := range []string{"a", "c", "x"} {
			for _, ty := range []sbom.Edge_Type{tc, td} {
				i, at, ty := i, at, ty
				out = append(out, op{Name: fmt.Sprintf("RelateNodeListAtID(X%d,%s,%s)", i, at, ty), Class: "relate", apply: func(lib []*sbom.NodeList, cur *sbom.NodeList) (*sbom.NodeList, *engine.Violation, bool) {
					if gen.WellFormed(lib[i]) != "" {
						return nil, nil, true
					}
					present := cur.GetNodeByID(at) != nil
					before := gen.CanonKey(cur)
					err := cur.RelateNodeListAtID(lib[i], at, ty)
					if present == (err != nil) {
						return cur, engine.Violate("relate-error", "", "RelateNodeListAtID at %q: node present=%v but err=%v", at, present, err), false
					}
					if err != nil && gen.CanonKey(cur) != before {
						return cur, engine.Violate("relate-error", "mutated", "RelateNodeListAtID returned an error but changed the list"), false
					}
					return cur, nil, false
				}})
			}
		}
	}
	nearRemovals := [][]string{{"a "}, {"A"}, {" "}, {"a ", "a"}, {"c "}, {"B"}}
	for _, s := range append(gen.NonEmptySubsets([]string{"a", "b", "c", "x"}), nearRemovals...) {
		s := s
		out = append(out, op{Name: "RemoveNodes(" + strings.Join(s, ",") + ")", Class: "remove", apply: func(lib []*sbom.NodeList, cur *sbom.NodeList) (*sbom.NodeList, *engine.Violation, bool) {
			before := gen.ModelOf(cur)
			cur.RemoveNodes(s)
			after := gen.ModelOf(cur)
			rm := map[string]bool{}
			for _, x := range s {
				rm[x] = true
			}
			want := gen.Model{Nodes: map[string]int{}, Edges: map[gen.Triple]int{}, Roots: map[string]int{}}
			for id := range before.Nodes {
				if !rm[id] {
					want.Nodes[id] = 1
				}
			}
			for id := range before.Roots {
				if !rm[id] {
					want.Roots[id] = 1
				}
			}
			for t := range before.Edges {
				if !rm[t.From] && !rm[t.To] {
					want.Edges[t] = 1
				}
			}
			if after.SetKey() != want.SetKey() {
				return cur, engine.Violate("remove-exact", "", "RemoveNodes(%v): got %s\nwant %s", s, after.SetKey(), want.SetKey()), false
			}
			return cur, nil, false
		}})
	}
	for _, id := range []string{"a", "d", "e", "l05"} {
		for _, at := range []string{"a", "b", "x"} {
			for _, ty := range []sbom.Edge_Type{tc, td} {
				id, at, ty := id, at, ty
				out = append(out, op{Name: fmt.Sprintf("RelateNodeAtID(%s,%s,%s)", id, at, ty), Class: "relate", apply: func(lib []*sbom.NodeList, cur *sbom.NodeList) (*sbom.NodeList, *engine.Violation, bool) {
					present := cur.GetNodeByID(at) != nil
					n := &sbom.Node{Id: id, Name: "n-" + id}
					if p, ok := purls[id]; ok {
						n.Identifiers = map[int32]string{int32(sbom.SoftwareIdentifierType_PURL): p}
					}
					before := gen.CanonKey(cur)
					err := cur.RelateNodeAtID(n, at, ty)
					if present == (err != nil) {
						return cur, engine.Violate("relate-error", "", "RelateNodeAtID at %q: node present=%v but err=%v", at, present, err), false
					}
					if err != nil && gen.CanonKey(cur) != before {
						return cur, engine.Violate("relate-error", "mutated", "RelateNodeAtID returned an error but changed the list"), false
					}
					return cur, nil, false
				}})
			}
		}
	}
	for _, id := range []string{"a", "b", "c"} {
		id := id
		out = append(out,
			op{Name: "NodeGraph(" + id + ")", Class: "extract", apply: func(lib []*sbom.NodeList, cur *sbom.NodeList) (*sbom.NodeList, *engine.Violation, bool) {
				return cur.NodeGraph(id), nil, false
			}},
			op{Name: "NodeSiblings(" + id + ")", Class: "extract", apply: func(lib []*sbom.NodeList, cur *sbom.NodeList) (*sbom.NodeList, *engine.Violation, bool) {
				return cur.NodeSiblings(id), nil, false
			}},
		)
	}
	for _, id := range []string{"a", "b"} {
		for d := 1; d <= 3; d++ {
			id, d := id, d
			out = append(out, op{Name: fmt.Sprintf("NodeDescendants(%s,%d)", id, d), Class: "extract", apply: func(lib []*sbom.NodeList, cur *sbom.NodeList) (*sbom.NodeList, *engine.Violation, bool) {
				return cur.NodeDescendants(id, d), nil, false
			}})
		}
	}
	for _, pt := range []string{"apk", "deb"} {
		pt := pt
		out = append(out, op{Name: "GetNodesByPurlType(" + pt + ")", Class: "extract", apply: func(lib []*sbom.NodeList, cur *sbom.NodeList) (*sbom.NodeList, *engine.Violation, bool) {
			return cur.GetNodesByPurlType(pt), nil, false
		}})
	}
	return out
}

type state struct {
	init int
	path []int
}

func initials(thorough bool) []gen.ListSpec {
	var out []gen.ListSpec
	abc := []string{"a", "b", "c"}
	t2 := []sbom.Edge_Type{tc, td}
	maxE := 1
	gen.SmallLists(abc, abc, t2, abc, 2, maxE, abc, func(s gen.ListSpec) {
		if gen.SpecWellFormed(s) {
			out = append(out, s)
		}
	})
	// two edge objects for the same (source,type) and for different types
	ab := []string{"a", "b"}
	gen.SmallLists(ab, ab, t2, ab, 2, 2, ab, func(s gen.ListSpec) {
		if len(s.Edges) == 2 && len(s.Nodes) == 2 && gen.SpecWellFormed(s) {
			out = append(out, s)
		}
	})
	out = append(out, wideStar(true))
	// a root element named more than once (as after reading several DESCRIBES relationships of one element, or after
	// merging lists): well-formed, and every entry must go when the node goes
	out = append(out,
		gen.ListSpec{Nodes: []string{"a", "b"}, Edges: []gen.EdgeSpec{{From: "a", Type: tc, To: []string{"b"}}}, Roots: []string{"a", "a"}},
		gen.ListSpec{Nodes: []string{"a", "b", "c"}, Edges: []gen.EdgeSpec{{From: "a", Type: tc, To: []string{"b", "c"}}}, Roots: []string{"a", "b", "a"}},
		gen.ListSpec{Nodes: []string{"a", "b", "c"}, Edges: []gen.EdgeSpec{{From: "b", Type: td, To: []string{"c"}}}, Roots: []string{"b", "a", "a", "b"}},
	)
	// identifiers that coincide under case folding or trimming next to the ones the operations name
	out = append(out,
		gen.ListSpec{Nodes: []string{"a", "A", "a "}, Edges: []gen.EdgeSpec{{From: "a", Type: tc, To: []string{"A", "a "}}, {From: "A", Type: td, To: []string{"a"}}}, Roots: []string{"a", "A"}},
		gen.ListSpec{Nodes: []string{"A", "b", "B", "c "}, Edges: []gen.EdgeSpec{{From: "A", Type: tc, To: []string{"b", "B"}}, {From: "B", Type: tc, To: []string{"c "}}}, Roots: []string{"A"}},
	)
	return out
}

func replayPath(inits []gen.ListSpec, all []op, s state) (*sbom.NodeList, []*sbom.NodeList) {
	lib := make([]*sbom.NodeList, len(library))
	for i := range library {
		lib[i] = build(library[i])
		// the same identifier described as another kind of node in some argument lists (a file here, a package there)
		for _, id := range libraryFileKinds[i] {
			if n := lib[i].GetNodeByID(id); n != nil {
				n.Type = sbom.Node_FILE
			}
		}
	}
	cur := build(inits[s.init])
	for _, oi := range s.path {
		next, _, _ := all[oi].apply(lib, cur)
		if next == nil {
			return nil, lib
		}
		cur = next
	}
	return cur, lib
}

// pair histories ---------------------------------------------------------------
//
// The single-list search above never mutates an argument after it was used. Here the state is a
// tuple of live lists (two slots + two constant lists) and every operation may take either slot as
// receiver and the other as argument, so lists that were combined earlier keep being edited. States
// are NOT de-duplicated: two tuples with the same contents may share memory differently and have
// different futures. After every step every list of the tuple must be well-formed.

var pairLib = []gen.ListSpec{
	{Nodes: []string{"a"}, Roots: []string{"a"}},
	{Nodes: []string{"a", "b"}, Edges: []gen.EdgeSpec{{From: "a", Type: tc, To: []string{"b"}}}, Roots: []string{"a"}},
	{Nodes: []string{"b", "c"}, Edges: []gen.EdgeSpec{{From: "b", Type: td, To: []string{"c"}}}, Roots: []string{"b", "c"}},
	{Nodes: []string{"c", "d"}, Roots: []string{"c", "d"}},
	{Nodes: []string{"a", "b", "c"}, Edges: []gen.EdgeSpec{{From: "a", Type: tc, To: []string{"b", "c"}}}, Roots: []string{"a", "b", "c"}},
	{Nodes: []string{"b", "c", "d"}, Edges: []gen.EdgeSpec{{From: "d", Type: tc, To: []string{"b"}}}, Roots: []string{"b", "c", "d"}},
}

var pairConst = []gen.ListSpec{
	{Nodes: []string{"e"}, Roots: []string{"e"}},
	{Nodes: []string{"d", "e"}, Edges: []gen.EdgeSpec{{From: "d", Type: tc, To: []string{"e"}}}, Roots: []string{"d", "e"}},
}

// grown builds a list whose slices were grown by appends (spare capacity), as lists built through the API are.
func grown(s gen.ListSpec) *sbom.NodeList {
	src := build(s)
	nl := &sbom.NodeList{}
	for _, n := range src.Nodes {
		nl.Nodes = append(nl.Nodes, n)
	}
	for _, e := range src.Edges {
		ne := &sbom.Edge{From: e.From, Type: e.Type}
		for _, t := range e.To {
			ne.To = append(ne.To, t)
		}
		nl.Edges = append(nl.Edges, ne)
	}
	for _, r := range src.RootElements {
		nl.RootElements = append(nl.RootElements, r)
	}
	return nl
}

type tuple struct {
	slot [2]*sbom.NodeList
	cst  []*sbom.NodeList
}

type pairOp struct {
	Name string
	Do   func(tp *tuple)
}

func pairOps() []pairOp {
	var out []pairOp
	add := func(n string, f func(tp *tuple)) { out = append(out, pairOp{n, f}) }
	for r := 0; r < 2; r++ {
		r := r
		o := 1 - r
		R := fmt.Sprintf("L%d", r)
		O := fmt.Sprintf("L%d", o)
		add(R+".Add("+O+")", func(tp *tuple) { tp.slot[r].Add(tp.slot[o]) })
		for k := range pairConst {
			k := k
			add(fmt.Sprintf("%s.Add(K%d)", R, k), func(tp *tuple) { tp.slot[r].Add(tp.cst[k]) })
		}
		for _, at := range []string{"a", "b", "c", "d"} {
			for _, ty := range []sbom.Edge_Type{tc, td} {
				at, ty := at, ty
				add(fmt.Sprintf("%s.RelateNodeListAtID(%s,%s,%s)", R, O, at, ty), func(tp *tuple) { _ = tp.slot[r].RelateNodeListAtID(tp.slot[o], at, ty) })
			}
		}
		for k := range pairConst {
			for _, at := range []string{"a", "c"} {
				k, at := k, at
				add(fmt.Sprintf("%s.RelateNodeListAtID(K%d,%s,contains)", R, k, at), func(tp *tuple) { _ = tp.slot[r].RelateNodeListAtID(tp.cst[k], at, tc) })
			}
		}
		for _, ids := range [][]string{{"a"}, {"b"}, {"c"}, {"d"}, {"e"}, {"b", "c"}, {"a", "d"}} {
			ids := ids
			add(fmt.Sprintf("%s.RemoveNodes(%s)", R, strings.Join(ids, ",")), func(tp *tuple) { tp.slot[r].RemoveNodes(ids) })
		}
		add(R+"="+R+".Union("+R+")", func(tp *tuple) { tp.slot[r] = tp.slot[r].Union(tp.slot[r]) })
		add(R+"="+R+".Intersect("+R+")", func(tp *tuple) { tp.slot[r] = tp.slot[r].Intersect(tp.slot[r]) })
		add(R+"="+R+".Union("+O+")", func(tp *tuple) { tp.slot[r] = tp.slot[r].Union(tp.slot[o]) })
		add(R+"="+R+".Intersect("+O+")", func(tp *tuple) { tp.slot[r] = tp.slot[r].Intersect(tp.slot[o]) })
		for _, at := range []string{"a", "b"} {
			at := at
			add(fmt.Sprintf("%s=%s.NodeGraph(%s)", R, R, at), func(tp *tuple) {
				if g := tp.slot[r].NodeGraph(at); g != nil {
					tp.slot[r] = g
				}
			})
			add(fmt.Sprintf("%s.RelateNodeAtID(f,%s,contains)", R, at), func(tp *tuple) {
				_ = tp.slot[r].RelateNodeAtID(&sbom.Node{Id: "f", Name: "n-f"}, at, tc)
			})
		}
	}
	return out
}

func pairHistories(c *engine.Ctx) {
	c.Group("pair-histories")
	if !c.Thorough() {
		c.SetOrderSweep(false) // quick tier: ascending map order only for the 8.6 million pair histories
		defer c.SetOrderSweep(true)
	}
	all := pairOps()
	depth := 3
	if c.Thorough() {
		depth = 4
	}
	c.Bound("pair-histories", fmt.Sprintf("every ordered pair of %d lists (append-grown slices) as two live slots + %d constant lists; every history of <=%d operations over %d (either slot as receiver, the other or a constant as argument); no de-duplication; every list of the tuple well-formed after every step", len(pairLib), len(pairConst), depth, len(all)))
	mk := func(i, j int) *tuple {
		tp := &tuple{}
		tp.slot[0], tp.slot[1] = grown(pairLib[i]), grown(pairLib[j])
		for _, k := range pairConst {
			tp.cst = append(tp.cst, grown(k))
		}
		return tp
	}
	check := func(tp *tuple) string {
		for i, l := range []*sbom.NodeList{tp.slot[0], tp.slot[1], tp.cst[0], tp.cst[1]} {
			if l == nil {
				continue
			}
			for _, n := range l.Nodes {
				if n == nil {
					return fmt.Sprintf("list %d holds a nil node", i)
				}
			}
			if w := gen.WellFormed(l); w != "" {
				return fmt.Sprintf("%s %s is not well-formed: %s", []string{"L0", "L1", "K0", "K1"}[i], gen.CanonKey(l), w)
			}
		}
		return ""
	}
	for i := range pairLib {
		for j := range pairLib {
			var rec func(path []int)
			rec = func(path []int) {
				if c.Expired() {
					c.Cap("deadline in pair-histories")
					return
				}
				if len(path) > 0 {
					p := append([]int{}, path...)
					i, j := i, j
					c.Case(func() any {
						var names []string
						for _, oi := range p {
							names = append(names, all[oi].Name)
						}
						return map[string]any{"L0": pairLib[i].String(), "L1": pairLib[j].String(), "history": names}
					}, func(t *engine.T) *engine.Violation {
						tp := mk(i, j)
						for k, oi := range p {
							if k == len(p)-1 {
								// the prefix is a case of its own: if it already broke a list it is reported there
								if check(tp) != "" {
									t.Outcome("prefix-already-reported")
									return nil
								}
							}
							all[oi].Do(tp)
						}
						t.Transitions(len(p))
						t.Validated(1)
						if w := check(tp); w != "" {
							return engine.Violate("wellformed", "history", "after %s: %s", all[p[len(p)-1]].Name, w)
						}
						t.State(fmt.Sprint("pair", i, j, p))
						t.Outcome(fmt.Sprintf("pair-history-%d", len(p)))
						return nil
					})
				}
				if len(path) == depth {
					return
				}
				for oi := range all {
					rec(append(path, oi))
				}
			}
			rec(nil)
		}
	}
}

// edgeTypeSweep: merging, removal and extraction over every edge type number (declared and undeclared) and every
// pair of them on one source: several edge objects per (source, type), repeated targets.
func edgeTypeSweep(c *engine.Ctx) {
	c.Group("edge-type-sweep")
	var ts []int
	for t := range sbom.Edge_Type_name {
		ts = append(ts, int(t))
	}
	ts = append(ts, -1, 45, 46, 64, 99, 1000, 1001)
	sort.Ints(ts)
	type mop struct {
		Name  string
		Exact bool // the set of triples must be unchanged
		Do    func(nl *sbom.NodeList) *sbom.NodeList
	}
	mk := func(t1, t2 int) *sbom.NodeList {
		e := func(ty int, to ...string) *sbom.Edge { return &sbom.Edge{From: "a", Type: sbom.Edge_Type(ty), To: to} }
		return &sbom.NodeList{Nodes: []*sbom.Node{{Id: "a"}, {Id: "b"}, {Id: "c"}}, RootElements: []string{"a"},
			Edges: []*sbom.Edge{e(t1, "b"), e(t2, "c"), e(t1, "c", "b"), e(t2, "c")}}
	}
	ops := []mop{
		{"Union(copy)", true, func(nl *sbom.NodeList) *sbom.NodeList { return nl.Union(proto.Clone(nl).(*sbom.NodeList)) }},
		{"Intersect(copy)", true, func(nl *sbom.NodeList) *sbom.NodeList { return nl.Intersect(proto.Clone(nl).(*sbom.NodeList)) }},
		{"Add(copy)", true, func(nl *sbom.NodeList) *sbom.NodeList { nl.Add(proto.Clone(nl).(*sbom.NodeList)); return nl }},
		{"RemoveNodes(absent)", true, func(nl *sbom.NodeList) *sbom.NodeList { nl.RemoveNodes([]string{"zz"}); return nl }},
		{"NodeGraph(a)", true, func(nl *sbom.NodeList) *sbom.NodeList { return nl.NodeGraph("a") }},
		{"NodeDescendants(a,3)", true, func(nl *sbom.NodeList) *sbom.NodeList { return nl.NodeDescendants("a", 3) }},
		{"NodeSiblings(b)", false, func(nl *sbom.NodeList) *sbom.NodeList { return nl.NodeSiblings("b") }},
	}
	c.Bound("edge-type-sweep", fmt.Sprintf("%d edge type numbers (all declared + undeclared): every unordered pair (incl. twice the same) on one source, two edge objects per type with a repeated target, x %d operations", len(ts), len(ops)))
	for i, t1 := range ts {
		for _, t2 := range ts[i:] {
			for oi := range ops {
				t1, t2, oi := t1, t2, oi
				c.Case(func() any { return map[string]any{"types": []int{t1, t2}, "op": ops[oi].Name} }, func(t *engine.T) *engine.Violation {
					in := mk(t1, t2)
					want := gen.ModelOf(in)
					res := ops[oi].Do(in)
					t.Transitions(1)
					t.Validated(1)
					if res == nil {
						return engine.Violate("wellformed", "edge-type", "%s with edge types %d,%d returned nil", ops[oi].Name, t1, t2)
					}
					if w := gen.WellFormed(res); w != "" {
						return engine.Violate("wellformed", "edge-type", "%s with edge types %d,%d: %s", ops[oi].Name, t1, t2, w)
					}
					if w := gen.Normalised(res); w != "" {
						return engine.Violate("normalised", "edge-type", "%s with edge types %d,%d: result %s is not normalised: %s", ops[oi].Name, t1, t2, gen.CanonKey(res), w)
					}
					if ops[oi].Exact {
						if got := gen.ModelOf(res); got.SetKey() != want.SetKey() {
							return engine.Violate("edges-exact", "edge-type", "%s with edge types %d,%d changed the set of typed edges: got %s want %s", ops[oi].Name, t1, t2, got.SetKey(), want.SetKey())
						}
					}
					t.State(fmt.Sprint("ets", t1, t2, oi))
					t.Outcome("edge-type-ok")
					return nil
				})
			}
		}
	}
}

func Run(c *engine.Ctx) {
	edgeTypeSweep(c)
	pairHistories(c)
	all := ops()
	inits := initials(c.Thorough())
	depth := 2
	if c.Thorough() {
		depth = 4
	}
	c.Bound("search", fmt.Sprintf("%d well-formed initial lists (ids a,b,c; <=1 edge object, plus 2-object lists on a,b) x %d operations, breadth-first to depth %d with canonical-key de-duplication per initial list", len(inits), len(all), depth))
	for ii := range inits {
		group := fmt.Sprintf("init%d", ii)
		if !c.Owns(ii, group) {
			continue
		}
		if c.Expired() {
			c.Cap(fmt.Sprintf("deadline-before-init-%d", ii))
			break
		}
		c.Group(group)
		visited := map[string]bool{}
		nl0 := build(inits[ii])
		visited[gen.CanonKey(nl0)] = true
		c.State(gen.CanonKey(nl0))
		frontier := []state{{init: ii}}
		for d := 0; d < depth; d++ {
			var next []state
			for _, s := range frontier {
				for oi := range all {
					s, oi := s, oi
					var succ *sbom.NodeList
					c.CaseAlways(func() any {
						names := []string{}
						for _, p := range s.path {
							names = append(names, all[p].Name)
						}
						return map[string]any{"initial": inits[s.init].String(), "history": names, "op": all[oi].Name}
					}, func(t *engine.T) *engine.Violation {
						cur, lib := replayPath(inits, all, s)
						if cur == nil {
							return engine.Violate("harness", "", "path replay reached no state")
						}
						if w := gen.WellFormed(cur); w != "" {
							return engine.Violate("harness", "", "replayed state is not well-formed: %s", w)
						}
						nx, v, skipped := all[oi].apply(lib, cur)
						t.Transitions(len(s.path) + 1)
						if all[oi].Class == "remove" {
							t.Validated(1)
						}
						if skipped {
							t.Outcome("skipped-argument-corrupted")
							return nil
						}
						if v != nil {
							return v
						}
						if nx == nil {
							t.Outcome(all[oi].Class + ":nil")
							return nil
						}
						for _, n := range nx.Nodes {
							if n == nil {
								return engine.Violate("wellformed", all[oi].Class, "%s produced a nil node element", all[oi].Name)
							}
						}
						if w := gen.WellFormed(nx); w != "" {
							return engine.Violate("wellformed", all[oi].Class, "%s on %s: result %s is not well-formed: %s", all[oi].Name, gen.CanonKey(cur), gen.CanonKey(nx), w)
						}
						if all[oi].Class != "relate" {
							if w := gen.Normalised(nx); w != "" {
								return engine.Violate("normalised", all[oi].Class, "%s: result %s is not normalised: %s", all[oi].Name, gen.CanonKey(nx), w)
							}
						}
						succ = nx
						t.Outcome(fmt.Sprintf("%s:n%d", all[oi].Class, len(nx.Nodes)))
						return nil
					})
					if succ != nil && !c.IsReplay() {
						k := gen.CanonKey(succ)
						if !visited[k] {
							visited[k] = true
							c.State(k)
							next = append(next, state{init: s.init, path: append(append([]int{}, s.path...), oi)})
						}
					}
					if succ != nil && c.IsReplay() {
						k := gen.CanonKey(succ)
						if !visited[k] {
							visited[k] = true
							next = append(next, state{init: s.init, path: append(append([]int{}, s.path...), oi)})
						}
					}
				}
			}
			frontier = next
			if c.Expired() {
				c.Cap(fmt.Sprintf("deadline-at-depth-%d-of-init-%d", d+1, ii))
				break
			}
		}
	}
}
