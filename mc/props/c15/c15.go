// Package c15: sub-graph extraction computes bounded reachability and terminates.
package c15

import (
	"fmt"
	"sort"
	"strings"
	"time"

	"github.com/protobom/protobom/pkg/sbom"

	"mcverif/engine"
	"mcverif/gen"
)

var Spec = engine.Spec{
	ID: "C15", Run: Run, MapOrders: true, QuickBud: 4 * time.Minute, ThorBud: 45 * time.Minute,
	Technique: "explicit enumeration of all small directed multigraphs x root sets x start nodes x depths, real NodeGraph/NodeSiblings/NodeDescendants against a BFS reference model; all permutations of node and edge lists",
	Rule:      "case = (node ids, ordered edge-object list, root subset, start id); distinct state = canonical graph key + start; every case runs NodeGraph, NodeSiblings and NodeDescendants(1..n+1)",
	Assume:    []string{"edge lower bound read as: every edge leaving an expanded node towards a returned node is kept"},
}

type caseDesc struct {
	List  gen.ListSpec `json:"list"`
	Start string       `json:"start"`
	Perm  string       `json:"perm,omitempty"`
}

// reference model -----------------------------------------------------------

type ref struct {
	adj   map[string][]string // id -> targets (present nodes only)
	nodes map[string]bool
	roots map[string]bool
	// noExpand: identifiers the traversal reaches but does not follow (alternative reference for the known finding
	// about the empty identifier)
	noExpand map[string]bool
}

func newRef(nl *sbom.NodeList) *ref {
	r := &ref{adj: map[string][]string{}, nodes: map[string]bool{}, roots: map[string]bool{}}
	for _, n := range nl.Nodes {
		r.nodes[n.Id] = true
	}
	for _, e := range nl.Edges {
		if !r.nodes[e.From] {
			continue
		}
		for _, t := range e.To {
			if r.nodes[t] {
				r.adj[e.From] = append(r.adj[e.From], t)
			}
		}
	}
	for _, x := range nl.RootElements {
		r.roots[x] = true
	}
	return r
}

// levels returns id -> level (start = 1) where other roots are reached but not expanded.
func (r *ref) levels(start string) map[string]int {
	lv := map[string]int{}
	if !r.nodes[start] {
		return lv
	}
	lv[start] = 1
	q := []string{start}
	for len(q) > 0 {
		u := q[0]
		q = q[1:]
		if u != start && r.roots[u] {
			continue
		}
		if r.noExpand[u] {
			continue
		}
		for _, v := range r.adj[u] {
			if _, ok := lv[v]; !ok {
				lv[v] = lv[u] + 1
				q = append(q, v)
			}
		}
	}
	return lv
}

func setOf(nl *sbom.NodeList) map[string]bool {
	s := map[string]bool{}
	if nl == nil {
		return s
	}
	for _, n := range nl.Nodes {
		s[n.Id] = true
	}
	return s
}

func keysOf(m map[string]bool) string {
	k := []string{}
	for x := range m {
		k = append(k, x)
	}
	sort.Strings(k)
	return strings.Join(k, ",")
}

// checkResult verifies one extraction result against expected node set,
// expanded set (nodes whose outgoing edges were followed) and the input.
func checkResult(op string, in *sbom.NodeList, res *sbom.NodeList, start string, want map[string]bool, expanded map[string]bool) *engine.Violation {
	if len(want) == 0 {
		if res != nil && len(res.Nodes) != 0 {
			return engine.Violate(op+"-missing-start", "", "start %q is not a node but result has nodes %s", start, keysOf(setOf(res)))
		}
		return nil
	}
	if res == nil {
		return engine.Violate(op+"-nodes", "", "nil result for present start %q, want nodes %s", start, keysOf(want))
	}
	got := setOf(res)
	if keysOf(got) != keysOf(want) {
		return engine.Violate(op+"-nodes", "", "start=%s got nodes {%s} want {%s}", start, keysOf(got), keysOf(want))
	}
	if len(res.Nodes) != len(got) && !inputRepeatsIDs {
		return engine.Violate(op+"-nodes", "dup", "result lists a node twice: %s", gen.ListKey(res))
	}
	// node identity: returned nodes are the list's nodes (same attributes)
	for _, n := range res.Nodes {
		o := in.GetNodeByID(n.Id)
		if o == nil || o.Name != n.Name {
			return engine.Violate(op+"-nodes", "identity", "returned node %s does not carry the list's attributes", n.Id)
		}
	}
	if len(res.RootElements) != 1 || res.RootElements[0] != start {
		return engine.Violate(op+"-root", "", "start=%s roots=%v, want sole root = start", start, res.RootElements)
	}
	inM, outM := gen.ModelOf(in), gen.ModelOf(res)
	for t := range outM.Edges {
		if inM.Edges[t] == 0 {
			return engine.Violate(op+"-edges-invented", "", "edge %s not in the original list", t)
		}
		if !want[t.From] || !want[t.To] {
			return engine.Violate(op+"-edges-outside", "", "edge %s has an endpoint outside the returned nodes {%s}", t, keysOf(want))
		}
	}
	for t := range inM.Edges {
		if expanded[t.From] && want[t.To] && outM.Edges[t] == 0 {
			return engine.Violate(op+"-edges-followed", "", "edge %s was followed by the traversal but is missing from the result (%s)", t, gen.CanonKey(res))
		}
	}
	return nil
}

// emptyIDs is set by the cases of the empty-identifiers group.
var emptyIDs bool

// inputRepeatsIDs is set by the cases of the repeated-identifiers group (ill-formed lists that carry one identifier on
// two node objects): the results are judged as sets of identifiers there. Each worker process runs one case at a time.
var inputRepeatsIDs bool

func resultKey(res *sbom.NodeList) string {
	if res == nil {
		return "<nil>"
	}
	return gen.ModelOf(res).SetKey()
}

// runAll executes the three extraction families on one (list,start) and
// returns a combined set-level observation for order-independence comparison.
// depthStride > 1 thins the depth sweep of large graphs: depths 1..8, every depth within 3 of a power of two, every
// depthStride-th depth and the last four are run (monotonicity is then checked between consecutive tested depths).
var depthStride = 1

func depthTested(d, maxDepth int) bool {
	if depthStride <= 1 || d <= 8 || d > maxDepth-4 || d%depthStride == 0 {
		return true
	}
	for p := 16; p <= 1<<20; p <<= 1 {
		if d >= p-3 && d <= p+3 {
			return true
		}
	}
	return false
}

func runAll(t *engine.T, nl *sbom.NodeList, start string, maxDepth int) (string, *engine.Violation) {
	r := newRef(nl)
	lv := r.levels(start)
	var obs strings.Builder

	// full graph: reachable, other roots left out
	wantG := map[string]bool{}
	for id := range lv {
		if id == start || !r.roots[id] {
			wantG[id] = true
		}
	}
	// a non-root node only reachable through another root is not reachable
	// (levels never expands roots, so lv already respects the boundary)
	g := nl.NodeGraph(start)
	t.Transitions(1)
	t.Validated(1)
	if v := checkResult("graph", nl, g, start, wantG, wantG); v != nil {
		if emptyIDs {
			// is it precisely the deviation on record - the node with the empty identifier is reached but its edges are
			// not followed (NodeSiblings refuses the empty identifier) - or something else?
			r2 := newRef(nl)
			r2.noExpand = map[string]bool{"": true}
			lv2 := r2.levels(start)
			alt := map[string]bool{}
			for id := range lv2 {
				if id == start || !r2.roots[id] {
					alt[id] = true
				}
			}
			altExp := map[string]bool{}
			for id := range alt {
				if id != "" {
					altExp[id] = true
				}
			}
			if checkResult("graph", nl, g, start, alt, altExp) == nil {
				return "", engine.Violate("graph-nodes", "empty-identifier-not-traversed", "NodeGraph(%q) reaches the node whose identifier is empty but does not follow its edges: got {%s}, reachable {%s}", start, keysOf(setOf(g)), keysOf(wantG))
			}
		}
		return "", v
	}
	obs.WriteString("G:" + resultKey(g))

	// siblings: one hop, roots included
	wantS := map[string]bool{}
	if r.nodes[start] {
		wantS[start] = true
		for _, v := range r.adj[start] {
			wantS[v] = true
		}
	}
	s := nl.NodeSiblings(start)
	t.Transitions(1)
	t.Validated(1)
	if emptyIDs && start == "" {
		// documented: NodeSiblings returns nil for the empty identifier
		if s != nil {
			return "", engine.Violate("siblings-nodes", "empty-identifier", "NodeSiblings(\"\") returned a list; it is documented to refuse the empty identifier")
		}
	} else if v := checkResult("siblings", nl, s, start, wantS, map[string]bool{start: true}); v != nil {
		return "", v
	}
	obs.WriteString("#S:" + resultKey(s))

	var prev map[string]bool
	prevD := 0
	for d := 1; d <= maxDepth; d++ {
		if !depthTested(d, maxDepth) {
			continue
		}
		wantD, exp := map[string]bool{}, map[string]bool{}
		for id, l := range lv {
			if l <= d {
				wantD[id] = true
				if l < d && (id == start || !r.roots[id]) {
					exp[id] = true
				}
			}
		}
		dd := nl.NodeDescendants(start, d)
		t.Transitions(1)
		t.Validated(1)
		if v := checkResult(fmt.Sprintf("descendants"), nl, dd, start, wantD, exp); v != nil {
			v.Detail = fmt.Sprintf("depth=%d: %s", d, v.Detail)
			return "", v
		}
		got := setOf(dd)
		for id := range prev {
			if !got[id] {
				return "", engine.Violate("descendants-monotone", "", "node %s returned at depth %d but not at depth %d", id, prevD, d)
			}
		}
		prev, prevD = got, d
		fmt.Fprintf(&obs, "#D%d:%s", d, resultKey(dd))
	}
	return obs.String(), nil
}

func Run(c *engine.Ctx) {
	types2 := []sbom.Edge_Type{sbom.Edge_contains, sbom.Edge_dependsOn}
	types1 := []sbom.Edge_Type{sbom.Edge_contains}

	shapes := func(group string, ids []string, froms []string, types []sbom.Edge_Type, targets []string, maxEdges int) {
		c.Group(group)
		objs := gen.EdgeObjects(froms, types, targets)
		c.Bound(group, fmt.Sprintf("nodes=%d edge-objects<=%d over %d candidate objects, all root subsets, starts=nodes+missing, depths 1..%d", len(ids), maxEdges, len(objs), len(ids)+1))
		starts := append(append([]string{}, ids...), "x")
		rootSets := gen.Subsets(ids)
		gen.EdgeLists(objs, maxEdges, func(el []gen.EdgeSpec) {
			if c.Expired() {
				return
			}
			for _, roots := range rootSets {
				for _, st := range starts {
					spec := gen.ListSpec{Nodes: ids, Edges: el, Roots: roots}
					st := st
					c.Case(func() any { return caseDesc{List: spec, Start: st} }, func(t *engine.T) *engine.Violation {
						nl := spec.Build()
						before := gen.ListKey(nl)
						obs, v := runAll(t, nl, st, len(ids)+1)
						if v != nil {
							return v
						}
						t.Observe(obs)
						if gen.ListKey(nl) != before {
							// operand mutation is C11's business; note only
						}
						t.State(gen.CanonKey(nl) + "@" + st)
						t.Outcome(outcomeClass(obs))
						return nil
					})
				}
			}
		})
	}

	abc := []string{"a", "b", "c"}
	abcx := []string{"a", "b", "c", "x"}
	if !c.Thorough() {
		shapes("n2-e3", []string{"a", "b"}, []string{"a", "b"}, types2, []string{"a", "b", "x"}, 3)
		shapes("n3-e2", abc, abc, types2, abcx, 2)
	} else {
		shapes("n2-e3", []string{"a", "b"}, []string{"a", "b", "x"}, types2, []string{"a", "b", "x"}, 3)
		shapes("n3-e2", abc, abcx, types2, abcx, 2)
		shapes("n4-e2", []string{"a", "b", "c", "d"}, []string{"a", "b", "c", "d"}, types1, []string{"a", "b", "c", "d", "x"}, 2)
		shapes("n3-e3", abc, abc, types2, abcx, 3)
	}

	// identifiers that coincide under case folding or trimming (an index that normalises its keys merges them)
	near := []string{"n", "N", "n "}
	shapes("near-ids-n3-e2", near, near, types1, append(append([]string{}, near...), " n"), 2)

	// node kinds: every assignment of package / file to the nodes of a chain, a fan and a diamond (reachability does
	// not depend on what a node describes)
	{
		c.Group("node-kinds")
		ids := []string{"a", "b", "c", "d"}
		shapesK := map[string][]gen.EdgeSpec{
			"chain":   {{From: "a", Type: sbom.Edge_contains, To: []string{"b"}}, {From: "b", Type: sbom.Edge_dependsOn, To: []string{"c"}}, {From: "c", Type: sbom.Edge_other, To: []string{"d"}}},
			"fan":     {{From: "a", Type: sbom.Edge_contains, To: []string{"b", "c"}}, {From: "b", Type: sbom.Edge_contains, To: []string{"d"}}},
			"diamond": {{From: "a", Type: sbom.Edge_dependsOn, To: []string{"b", "c"}}, {From: "b", Type: sbom.Edge_contains, To: []string{"d"}}, {From: "c", Type: sbom.Edge_contains, To: []string{"d", "a"}}},
		}
		c.Bound("node-kinds", "chain, fan and diamond on 4 nodes x all 16 assignments of package / file kinds x roots {none, a} x every start")
		for _, sn := range []string{"chain", "diamond", "fan"} {
			for mask := 0; mask < 16; mask++ {
				for _, roots := range [][]string{nil, {"a"}} {
					for _, st := range ids {
						spec := gen.ListSpec{Nodes: ids, Edges: shapesK[sn], Roots: roots}
						sn, mask, st := sn, mask, st
						c.Case(func() any { return map[string]any{"shape": sn, "file-kind-mask": mask, "roots": roots, "start": st} }, func(t *engine.T) *engine.Violation {
							nl := spec.Build()
							for i, n := range nl.Nodes {
								if mask&(1<<i) != 0 {
									n.Type = sbom.Node_FILE
								}
							}
							obs, v := runAll(t, nl, st, 5)
							if v != nil {
								return v
							}
							t.Observe(obs)
							t.State(fmt.Sprint("kinds", sn, mask, roots, st))
							t.Outcome("kinds " + outcomeClass(obs))
							return nil
						})
					}
				}
			}
		}
	}

	// target lists in every order: dangling targets (names of nodes the list does not hold) before, between and after
	// existing ones, in one edge record and in two
	{
		c.Group("target-order")
		ids := []string{"a", "b", "c", "d"}
		pool := []string{"b", "c", "x", "y"}
		var lists [][]string
		var rec func(cur []string, used int)
		rec = func(cur []string, used int) {
			if len(cur) >= 2 {
				lists = append(lists, append([]string{}, cur...))
			}
			if len(cur) == 3 {
				return
			}
			for i, t := range pool {
				if used&(1<<i) == 0 {
					rec(append(cur, t), used|1<<i)
				}
			}
		}
		rec(nil, 0)
		c.Bound("target-order", fmt.Sprintf("nodes %v; source a with every ordered target list of 2..3 of %v (x, y name no node: %d lists) x a second record {none, b->[x,d], c->[d,y]} x 2 edge types x roots {none, a} x every start", ids, pool, len(lists)))
		for _, to := range lists {
			for second := 0; second < 3; second++ {
				for _, ty := range types2 {
					for _, roots := range [][]string{nil, {"a"}} {
						edges := []gen.EdgeSpec{{From: "a", Type: ty, To: to}}
						switch second {
						case 1:
							edges = append(edges, gen.EdgeSpec{From: "b", Type: ty, To: []string{"x", "d"}})
						case 2:
							edges = append(edges, gen.EdgeSpec{From: "c", Type: sbom.Edge_contains, To: []string{"d", "y"}})
						}
						for _, st := range ids {
							spec := gen.ListSpec{Nodes: ids, Edges: edges, Roots: roots}
							st := st
							c.Case(func() any { return caseDesc{List: spec, Start: st} }, func(t *engine.T) *engine.Violation {
								nl := spec.Build()
								obs, v := runAll(t, nl, st, 5)
								if v != nil {
									return v
								}
								t.Observe(obs)
								t.State(gen.CanonKey(nl) + "@" + st + fmt.Sprint(spec.Edges[0].To))
								t.Outcome("target-order " + outcomeClass(obs))
								return nil
							})
						}
					}
				}
			}
		}
	}

	// identifiers that are decimal-suffix extensions of one another with edge type numbers whose decimal spellings
	// extend one another ("n1"+"15" = "n11"+"5"): any key built by gluing identifier and type number merges them
	{
		idsC := []string{"n", "n1", "n11", "x"}
		typesC := []sbom.Edge_Type{1, 2, 5, 11, 12, 15}
		c.Group("collisions")
		var objs []gen.EdgeSpec
		for _, f := range []string{"n", "n1", "n11"} {
			for _, ty := range typesC {
				for _, to := range [][]string{{"x"}, {"n11"}, {"n1", "x"}} {
					objs = append(objs, gen.EdgeSpec{From: f, Type: ty, To: to})
				}
			}
		}
		c.Bound("collisions", fmt.Sprintf("nodes %v, every ordered list of <=2 of %d edge objects (sources n, n1, n11 x type numbers %v x 3 target lists), roots {none, n}, every start", idsC, len(objs), typesC))
		gen.EdgeLists(objs, 2, func(el []gen.EdgeSpec) {
			for _, roots := range [][]string{nil, {"n"}} {
				for _, st := range idsC[:3] {
					spec := gen.ListSpec{Nodes: idsC, Edges: el, Roots: roots}
					st := st
					c.Case(func() any { return caseDesc{List: spec, Start: st} }, func(t *engine.T) *engine.Violation {
						nl := spec.Build()
						obs, v := runAll(t, nl, st, 4)
						if v != nil {
							return v
						}
						t.Observe(obs)
						t.State(gen.CanonKey(nl) + "@" + st)
						t.Outcome("collisions " + outcomeClass(obs))
						return nil
					})
				}
			}
		})
	}

	// ill-formed lists in which two node objects carry one identifier: every arrangement of the node sequence
	{
		c.Group("repeated-identifiers")
		seqs := [][]string{}
		for _, multi := range [][]string{{"s", "a", "a", "b"}, {"s", "s", "a", "b"}, {"s", "a", "b", "b"}, {"s", "a", "a", "a", "b"}} {
			seen := map[string]bool{}
			gen.Permutations(len(multi), func(p []int) {
				o := make([]string, len(p))
				for i, j := range p {
					o[i] = multi[j]
				}
				if k := strings.Join(o, ","); !seen[k] {
					seen[k] = true
					seqs = append(seqs, o)
				}
			})
		}
		var objs []gen.EdgeSpec
		for _, f := range []string{"s", "a", "b"} {
			for _, to := range [][]string{{"a"}, {"b"}, {"a", "b"}, {"b", "a"}, {"s"}} {
				objs = append(objs, gen.EdgeSpec{From: f, Type: sbom.Edge_contains, To: to})
			}
		}
		c.Bound("repeated-identifiers", fmt.Sprintf("%d node sequences (every arrangement of s,a,a,b / s,s,a,b / s,a,b,b / s,a,a,a,b) x every ordered list of <=2 of %d edge objects x roots {none, s, a} x every start, results judged as identifier sets", len(seqs), len(objs)))
		for _, seq := range seqs {
			seq := seq
			gen.EdgeLists(objs, 2, func(el []gen.EdgeSpec) {
				for _, roots := range [][]string{nil, {"s"}, {"a"}} {
					for _, st := range []string{"s", "a", "b"} {
						spec := gen.ListSpec{Nodes: seq, Edges: el, Roots: roots}
						st := st
						c.Case(func() any { return caseDesc{List: spec, Start: st} }, func(t *engine.T) *engine.Violation {
							inputRepeatsIDs = true
							defer func() { inputRepeatsIDs = false }()
							nl := spec.Build()
							obs, v := runAll(t, nl, st, 4)
							if v != nil {
								return v
							}
							t.Observe(obs)
							t.State("rep|" + strings.Join(seq, ",") + "|" + gen.CanonKey(nl) + "@" + st)
							t.Outcome("repeated-identifiers " + outcomeClass(obs))
							return nil
						})
					}
				}
			})
		}
	}

	// ill-formed lists in which one node has the empty identifier: as start, as an inner node with edges of its own, as
	// a leaf, as a root
	{
		c.Group("empty-identifiers")
		idsE := []string{"s", "", "b"}
		var objs []gen.EdgeSpec
		for _, f := range idsE {
			for _, to := range [][]string{{""}, {"b"}, {"s"}, {"", "b"}, {"b", ""}} {
				objs = append(objs, gen.EdgeSpec{From: f, Type: sbom.Edge_contains, To: to})
			}
		}
		c.Bound("empty-identifiers", fmt.Sprintf("nodes s, \"\", b in every order x every ordered list of <=2 of %d edge objects x roots {none, s, \"\"} x every start (the empty one included); NodeSiblings(\"\") is nil as documented", len(objs)))
		gen.Permutations(3, func(p []int) {
			seq := []string{idsE[p[0]], idsE[p[1]], idsE[p[2]]}
			gen.EdgeLists(objs, 2, func(el []gen.EdgeSpec) {
				for _, roots := range [][]string{nil, {"s"}, {""}} {
					for _, st := range idsE {
						spec := gen.ListSpec{Nodes: seq, Edges: el, Roots: roots}
						st := st
						c.Case(func() any { return caseDesc{List: spec, Start: st} }, func(t *engine.T) *engine.Violation {
							emptyIDs = true
							defer func() { emptyIDs = false }()
							nl := spec.Build()
							obs, v := runAll(t, nl, st, 4)
							if v != nil {
								return v
							}
							t.Observe(obs)
							t.State("emptyid|" + strings.Join(seq, ",") + "|" + gen.CanonKey(nl) + "@" + st)
							t.Outcome("empty-identifiers " + outcomeClass(obs))
							return nil
						})
					}
				}
			})
		})
	}

	// every edge type (and two undeclared numbers): chains and fans that are only connected through that type
	c.Group("edge-types")
	var ets []int
	for t := range sbom.Edge_Type_name {
		ets = append(ets, int(t))
	}
	ets = append(ets, 45, 99, -1)
	sort.Ints(ets)
	c.Bound("edge-types", fmt.Sprintf("%d edge type numbers (all declared + undeclared) x 3 shapes (chain, fan, chain behind a contains edge) x root subsets {none, start, middle} x every start", len(ets)))
	for _, et := range ets {
		ty := sbom.Edge_Type(et)
		for si, edges := range [][]gen.EdgeSpec{
			{{From: "a", Type: ty, To: []string{"b"}}, {From: "b", Type: ty, To: []string{"c"}}},
			{{From: "a", Type: ty, To: []string{"b", "c"}}},
			{{From: "a", Type: sbom.Edge_contains, To: []string{"b"}}, {From: "b", Type: ty, To: []string{"c"}}, {From: "c", Type: ty, To: []string{"a"}}},
		} {
			for _, roots := range [][]string{nil, {"a"}, {"b"}} {
				for _, st := range abc {
					spec := gen.ListSpec{Nodes: abc, Edges: edges, Roots: roots}
					st, si, et := st, si, et
					c.Case(func() any { return caseDesc{List: spec, Start: st} }, func(t *engine.T) *engine.Violation {
						nl := spec.Build()
						obs, v := runAll(t, nl, st, 4)
						if v != nil {
							return v
						}
						t.Observe(obs)
						t.State(fmt.Sprintf("type%d|shape%d|%v|%s", et, si, roots, st))
						t.Outcome(outcomeClass(obs))
						return nil
					})
				}
			}
		}
	}

	// size classes: a 40-leaf star, a 40-node chain, a 40-node cycle, a two-level fan (thresholds, recursion depth)
	c.Group("wide")
	for _, size := range []int{40, 300, 2000} {
		size := size
		var leaves []string
		for i := 0; i < size; i++ {
			leaves = append(leaves, fmt.Sprintf("l%02d", i))
		}
		last, mid := leaves[size-1], leaves[size/2]
		var chain, cycle []gen.EdgeSpec
		for i := 0; i+1 < len(leaves); i++ {
			chain = append(chain, gen.EdgeSpec{From: leaves[i], Type: sbom.Edge_dependsOn, To: []string{leaves[i+1]}})
		}
		cycle = append(append([]gen.EdgeSpec{}, chain...), gen.EdgeSpec{From: last, Type: sbom.Edge_dependsOn, To: []string{leaves[0]}})
		star := []gen.EdgeSpec{{From: "l00", Type: sbom.Edge_contains, To: leaves[1:]}}
		split := []gen.EdgeSpec{{From: "l00", Type: sbom.Edge_contains, To: leaves[1 : size/2]}, {From: "l05", Type: sbom.Edge_other, To: []string{"l06"}}, {From: "l00", Type: sbom.Edge_contains, To: leaves[size/2-5:]}}
		shapes := map[string][]gen.EdgeSpec{"chain": chain, "cycle": cycle, "star": star, "star-split": split}
		names := []string{"chain", "cycle", "star", "star-split"}
		c.Bound("wide", "chain, cycle, star and split star of 40, 300 and 2000 nodes x root sets {none, first, middle, first+last} x starts {first, middle, last} x depths 1..n+1 (n=40: all; larger: 1..8, around every power of two, every 50th / 400th, the last four)")
		for _, sn := range names {
			for _, roots := range [][]string{nil, {"l00"}, {mid}, {"l00", last}} {
				for _, st := range []string{"l00", mid, last} {
					spec := gen.ListSpec{Nodes: leaves, Edges: shapes[sn], Roots: roots}
					sn, st := sn, st
					c.Case(func() any { return map[string]any{"shape": sn, "nodes": size, "roots": roots, "start": st} }, func(t *engine.T) *engine.Violation {
						depthStride = map[int]int{40: 1, 300: 50, 2000: 400}[size]
						defer func() { depthStride = 1 }()
						obs, v := runAll(t, spec.Build(), st, size+1)
						if v != nil {
							return v
						}
						t.Observe(obs)
						t.State(fmt.Sprintf("wide|%s|%d|%v|%s", sn, size, roots, st))
						t.Outcome("wide " + outcomeClass(obs)[:20])
						return nil
					})
				}
			}
		}
	}
	// every recursive tree on up to 7 (thorough 9) nodes: parent[i] < i for every node i > 0, one edge object per parent.
	// Levels of several nodes whose members have several children each - shapes no 3- or 4-node graph has.
	recursiveTrees(c)
	// the list changes between two extractions (no extraction may be served from state derived earlier)
	c.Group("extract-after-mutation")
	{
		base := gen.ListSpec{Nodes: abc, Edges: []gen.EdgeSpec{{From: "a", Type: sbom.Edge_contains, To: []string{"b"}}}, Roots: []string{"a"}}
		muts := map[string]func(nl *sbom.NodeList){
			"add-edge b->c": func(nl *sbom.NodeList) {
				nl.AddEdge(&sbom.Edge{From: "b", Type: sbom.Edge_dependsOn, To: []string{"c"}})
			},
			"extend-target a->c": func(nl *sbom.NodeList) {
				if len(nl.Edges) > 0 {
					nl.Edges[0].To = append(nl.Edges[0].To, "c")
				}
			},
			"remove-node b": func(nl *sbom.NodeList) { nl.RemoveNodes([]string{"b"}) },
			"add-root c":    func(nl *sbom.NodeList) { nl.RootElements = append(nl.RootElements, "c") },
			"retarget": func(nl *sbom.NodeList) {
				if len(nl.Edges) > 0 && len(nl.Edges[0].To) > 0 {
					nl.Edges[0].To[0] = "c"
				}
			},
			"add-node+edge": func(nl *sbom.NodeList) {
				_ = nl.RelateNodeAtID(&sbom.Node{Id: "d", Name: "n-d"}, "b", sbom.Edge_contains)
			},
			// edits that keep the number of nodes: a node replaced by another one that an edge leads to, a node renamed
			// in place, a node object replaced, two identifiers swapped
			"replace c by zz (remove, add), edge b->zz": func(nl *sbom.NodeList) {
				nl.RemoveNodes([]string{"c"})
				nl.AddNode(&sbom.Node{Id: "zz", Name: "n-zz"})
				nl.AddEdge(&sbom.Edge{From: "b", Type: sbom.Edge_contains, To: []string{"zz"}})
			},
			"rename c to zz in place, edge a->zz": func(nl *sbom.NodeList) {
				for _, n := range nl.Nodes {
					if n.Id == "c" {
						n.Id, n.Name = "zz", "n-zz"
					}
				}
				nl.AddEdge(&sbom.Edge{From: "a", Type: sbom.Edge_dependsOn, To: []string{"zz"}})
			},
			"replace the last node object by yy, edge b->yy": func(nl *sbom.NodeList) {
				if n := len(nl.Nodes); n > 0 {
					nl.Nodes[n-1] = &sbom.Node{Id: "yy", Name: "n-yy"}
					nl.AddEdge(&sbom.Edge{From: "b", Type: sbom.Edge_contains, To: []string{"yy"}})
				}
			},
			"swap the identifiers of b and c": func(nl *sbom.NodeList) {
				for _, n := range nl.Nodes {
					switch n.Id {
					case "b":
						n.Id, n.Name = "c", "n-c"
					case "c":
						n.Id, n.Name = "b", "n-b"
					}
				}
			},
		}
		var mn []string
		for k := range muts {
			mn = append(mn, k)
		}
		sort.Strings(mn)
		c.Bound("extract-after-mutation", fmt.Sprintf("%d in-place mutations between two rounds of all extractions from every start; the second round is judged against the mutated list", len(mn)))
		for _, m1 := range mn {
			for _, m2 := range append([]string{""}, mn...) {
				for _, st := range abc {
					m1, m2, st := m1, m2, st
					c.Case(func() any { return map[string]any{"mutations": []string{m1, m2}, "start": st} }, func(t *engine.T) *engine.Violation {
						nl := base.Build()
						if _, v := runAll(t, nl, st, 4); v != nil {
							return v
						}
						muts[m1](nl)
						if _, v := runAll(t, nl, st, 4); v != nil {
							v.Detail = "after " + m1 + ": " + v.Detail
							return v
						}
						if m2 != "" {
							muts[m2](nl)
							if _, v := runAll(t, nl, st, 5); v != nil {
								v.Detail = "after " + m1 + " and " + m2 + ": " + v.Detail
								return v
							}
						}
						t.State("mut|" + m1 + "|" + m2 + "|" + st)
						t.Outcome("after-mutation-ok")
						return nil
					})
				}
			}
		}
	}

	// order independence: every permutation of node list and edge list
	permGroup := func(group string, ids []string, types []sbom.Edge_Type, nEdges int) {
		c.Group(group)
		objs := gen.EdgeObjects(ids, types, ids)
		c.Bound(group, fmt.Sprintf("nodes=%d, exactly %d edge objects of %d candidates, all root subsets, all starts, all node-list x edge-list permutations", len(ids), nEdges, len(objs)))
		rootSets := gen.Subsets(ids)
		gen.EdgeLists(objs, nEdges, func(el []gen.EdgeSpec) {
			if len(el) != nEdges || c.Expired() {
				return
			}
			for _, roots := range rootSets {
				for _, st := range ids {
					spec := gen.ListSpec{Nodes: ids, Edges: el, Roots: roots}
					st := st
					c.Case(func() any { return caseDesc{List: spec, Start: st, Perm: "all"} }, func(t *engine.T) *engine.Violation {
						base := ""
						var viol *engine.Violation
						gen.Permutations(len(ids), func(pn []int) {
							gen.Permutations(len(el), func(pe []int) {
								if viol != nil {
									return
								}
								ps := gen.ListSpec{Roots: roots}
								for _, i := range pn {
									ps.Nodes = append(ps.Nodes, ids[i])
								}
								for _, i := range pe {
									ps.Edges = append(ps.Edges, el[i])
								}
								obs, v := runAll(t, ps.Build(), st, len(ids)+1)
								if v != nil {
									viol = v
									return
								}
								if base == "" {
									base = obs
								} else if obs != base {
									viol = engine.Violate("order-dependence", "", "permutation nodes=%v edges=%v gives\n%s\nidentity order gives\n%s", pn, pe, obs, base)
								}
							})
						})
						if viol != nil {
							return viol
						}
						t.State("perm:" + gen.CanonKey(spec.Build()) + "@" + st)
						t.Outcome(outcomeClass(base))
						return nil
					})
				}
			}
		})
	}
	if !c.Thorough() {
		permGroup("perm-n3-e2", abc, types1, 2)
	} else {
		permGroup("perm-n3-e2", abc, types2, 2)
		permGroup("perm-n3-e3", abc, types1, 3)
	}
}

// outcomeClass coarsens an observation into "sizes of the returned node sets".
func recursiveTrees(c *engine.Ctx) {
	c.Group("recursive-trees")
	maxN := 7
	if c.Thorough() {
		maxN = 9
	}
	c.Bound("recursive-trees", fmt.Sprintf("every parent function p(i) < i on 4..%d nodes (all (n-1)! of them) x targets stored ascending / descending x edge objects stored in parent order / reversed x a back edge from the last node to the root {no, yes} x root set {none, node 0} x every start x depths 1..n+1", maxN))
	for n := 4; n <= maxN; n++ {
		ids := make([]string, n)
		for i := range ids {
			ids[i] = fmt.Sprintf("t%d", i)
		}
		parent := make([]int, n)
		var rec func(i int)
		rec = func(i int) {
			if c.Expired() {
				return
			}
			if i < n {
				for p := 0; p < i; p++ {
					parent[i] = p
					rec(i + 1)
				}
				return
			}
			for variant := 0; variant < 8; variant++ {
				desc, rev, back := variant&1 != 0, variant&2 != 0, variant&4 != 0
				kids := make([][]string, n)
				for ch := 1; ch < n; ch++ {
					kids[parent[ch]] = append(kids[parent[ch]], ids[ch])
				}
				var edges []gen.EdgeSpec
				for p := 0; p < n; p++ {
					if len(kids[p]) == 0 {
						continue
					}
					to := append([]string{}, kids[p]...)
					if desc {
						for a, b := 0, len(to)-1; a < b; a, b = a+1, b-1 {
							to[a], to[b] = to[b], to[a]
						}
					}
					ty := sbom.Edge_contains
					if p%2 == 1 {
						ty = sbom.Edge_dependsOn
					}
					edges = append(edges, gen.EdgeSpec{From: ids[p], Type: ty, To: to})
				}
				if back {
					edges = append(edges, gen.EdgeSpec{From: ids[n-1], Type: sbom.Edge_other, To: []string{ids[0]}})
				}
				if rev {
					for a, b := 0, len(edges)-1; a < b; a, b = a+1, b-1 {
						edges[a], edges[b] = edges[b], edges[a]
					}
				}
				for _, roots := range [][]string{nil, {ids[0]}} {
					for _, st := range ids {
						spec := gen.ListSpec{Nodes: ids, Edges: edges, Roots: roots}
						st := st
						c.Case(func() any { return caseDesc{List: spec, Start: st} }, func(t *engine.T) *engine.Violation {
							nl := spec.Build()
							obs, v := runAll(t, nl, st, n+1)
							if v != nil {
								return v
							}
							t.Observe(obs)
							t.State(gen.CanonKey(nl) + "@" + st)
							t.Outcome("tree " + outcomeClass(obs))
							return nil
						})
					}
				}
			}
		}
		rec(1)
	}
}

func outcomeClass(obs string) string {
	parts := strings.Split(obs, "#")
	var sb strings.Builder
	for _, p := range parts {
		i := strings.Index(p, ":N")
		if i < 0 {
			sb.WriteString("nil ")
			continue
		}
		rest := p[i+2:]
		j := strings.Index(rest, "|")
		if j >= 0 {
			rest = rest[:j]
		}
		n := 0
		if rest != "" {
			n = strings.Count(rest, ",") + 1
		}
		fmt.Fprintf(&sb, "%s=%d ", p[:i], n)
	}
	return sb.String()
}
