package c09

import (
	"fmt"

	"github.com/protobom/protobom/pkg/sbom"
	"google.golang.org/protobuf/proto"

	"mcverif/engine"
	"mcverif/gen"
)

// AfterEdit: the operands are live values that are edited in place between two calls. The second call must see the
// operands as they are now: its result equals the result of the same call on freshly built copies of the edited
// operands (a differential oracle - no expected value is written down). Anything remembered about an operand from
// an earlier call (an index, a digest, a sorted copy) and validated too weakly shows here; so do edits that keep
// the number of nodes, the encoded size or the set of identifiers.
type ListEdit struct {
	Name string
	Do   func(nl *sbom.NodeList)
}

func ListEdits() []ListEdit {
	return []ListEdit{
		{"replace the last node by a new one (same count)", func(nl *sbom.NodeList) {
			if n := len(nl.Nodes); n > 0 {
				nl.RemoveNodes([]string{nl.Nodes[n-1].Id})
				nl.AddNode(&sbom.Node{Id: "zz", Name: "n-zz"})
			}
		}},
		{"replace the first node object by a node with another identifier", func(nl *sbom.NodeList) {
			if len(nl.Nodes) > 0 {
				nl.Nodes[0] = &sbom.Node{Id: "yy", Name: "n-yy"}
			}
		}},
		{"rewrite the identifier of the first node", func(nl *sbom.NodeList) {
			if len(nl.Nodes) > 0 {
				nl.Nodes[0].Id = "b"
			}
		}},
		{"swap the identifiers of the first two nodes", func(nl *sbom.NodeList) {
			if len(nl.Nodes) > 1 {
				nl.Nodes[0].Id, nl.Nodes[1].Id = nl.Nodes[1].Id, nl.Nodes[0].Id
			}
		}},
		{"rename the first node (same length)", func(nl *sbom.NodeList) {
			if len(nl.Nodes) > 0 {
				nl.Nodes[0].Name = "N-" + nl.Nodes[0].Id
			}
		}},
		{"retarget the first edge (same length)", func(nl *sbom.NodeList) {
			if len(nl.Edges) > 0 && len(nl.Edges[0].To) > 0 {
				nl.Edges[0].To[0] = "c"
			}
		}},
		{"change the type of the first edge", func(nl *sbom.NodeList) {
			if len(nl.Edges) > 0 {
				nl.Edges[0].Type = sbom.Edge_other
			}
		}},
		{"change the source of the first edge", func(nl *sbom.NodeList) {
			if len(nl.Edges) > 0 {
				nl.Edges[0].From = "c"
			}
		}},
		{"replace the root elements (same count)", func(nl *sbom.NodeList) {
			for i := range nl.RootElements {
				nl.RootElements[i] = "c"
			}
		}},
		{"add a node and an edge to it", func(nl *sbom.NodeList) {
			nl.AddNode(&sbom.Node{Id: "zz", Name: "n-zz"})
			if len(nl.Nodes) > 1 {
				nl.AddEdge(&sbom.Edge{From: nl.Nodes[0].Id, Type: sbom.Edge_contains, To: []string{"zz"}})
			}
		}},
	}
}

// AfterEditGroup explores op(A,B); edit(A or B); op(A,B) for all ordered pairs of lists x edits x edited side.
func AfterEditGroup(c *engine.Ctx, opName string, lists []gen.ListSpec, op func(a, b *sbom.NodeList) *sbom.NodeList) {
	c.Group(opName + "-after-edit")
	edits := ListEdits()
	c.Bound(opName+"-after-edit", fmt.Sprintf("all %d x %d ordered pairs of small lists x %d in-place edits of either operand between two %s calls on the same list values; the second result must equal the result on freshly built copies of the edited operands", len(lists), len(lists), len(edits), opName))
	snap := func(nl *sbom.NodeList) string {
		if nl == nil {
			return "<nil>"
		}
		return gen.ModelOf(nl).SetKey() + "|" + gen.Canon(nl, nil)
	}
	for i := range lists {
		for j := range lists {
			for ei := range edits {
				for side := 0; side < 2; side++ {
					A, B, ei, side := lists[i], lists[j], ei, side
					c.Case(func() any {
						return map[string]any{"A": A, "B": B, "edit": edits[ei].Name, "edited": []string{"A", "B"}[side]}
					}, func(t *engine.T) *engine.Violation {
						a, b := A.Build(), B.Build()
						_ = op(a, b) // first call: whatever it remembers about its operands, it remembers now
						if side == 0 {
							edits[ei].Do(a)
						} else {
							edits[ei].Do(b)
						}
						got := snap(op(a, b))
						fa, fb := proto.Clone(a).(*sbom.NodeList), proto.Clone(b).(*sbom.NodeList)
						want := snap(op(fa, fb))
						t.Transitions(3)
						t.Validated(1)
						if got != want {
							return engine.Violate(opName+"-after-edit", "", "%s(A,B) after %q on %s differs from the same call on fresh copies of the edited operands:\n on the live values: %s\n on fresh copies:    %s", opName, edits[ei].Name, []string{"A", "B"}[side], got, want)
						}
						t.State(fmt.Sprint(opName, "|ae|", A.String(), "|", B.String(), "|", ei, side))
						t.Outcome(opName + "-after-edit-ok")
						return nil
					})
				}
			}
		}
	}
}

// AfterEditLists: a small family for the after-edit histories.
func AfterEditLists() []gen.ListSpec {
	tc, td := sbom.Edge_contains, sbom.Edge_dependsOn
	return []gen.ListSpec{
		{},
		{Nodes: []string{"a"}, Roots: []string{"a"}},
		{Nodes: []string{"a", "b"}, Edges: []gen.EdgeSpec{{From: "a", Type: tc, To: []string{"b"}}}, Roots: []string{"a"}},
		{Nodes: []string{"b", "c"}, Edges: []gen.EdgeSpec{{From: "b", Type: td, To: []string{"c"}}}, Roots: []string{"b"}},
		{Nodes: []string{"a", "b", "c"}, Edges: []gen.EdgeSpec{{From: "a", Type: tc, To: []string{"b", "c"}}, {From: "b", Type: td, To: []string{"c"}}}, Roots: []string{"a", "b"}},
		{Nodes: []string{"c", "zz", "a"}, Edges: []gen.EdgeSpec{{From: "c", Type: tc, To: []string{"zz", "a"}}}, Roots: []string{"c"}},
		{Nodes: []string{"a", "b", "c", "yy"}, Edges: []gen.EdgeSpec{{From: "yy", Type: tc, To: []string{"a"}}, {From: "a", Type: tc, To: []string{"b"}}}, Roots: []string{"yy"}},
	}
}

// SameObjectGroup: the receiver is also the argument. op(a, a) must give what op(a, copy of a) gives.
func SameObjectGroup(c *engine.Ctx, opName string, lists []gen.ListSpec, op func(a, b *sbom.NodeList) *sbom.NodeList) {
	c.Group(opName + "-same-object")
	c.Bound(opName+"-same-object", fmt.Sprintf("%s(a, a) for %d small lists (ill-formed included): equal to %s(a, fresh copy of a), operand unchanged", opName, len(lists), opName))
	for i := range lists {
		A := lists[i]
		c.Case(func() any { return map[string]any{"a": A} }, func(t *engine.T) *engine.Violation {
			a := A.Build()
			before := gen.Snap(a)
			got := op(a, a)
			want := op(A.Build(), proto.Clone(A.Build()).(*sbom.NodeList))
			t.Transitions(2)
			t.Validated(1)
			if got == nil || want == nil {
				if got != want {
					return engine.Violate(opName+"-same-object", "", "%s(a,a) nil=%v, %s(a,copy) nil=%v", opName, got == nil, opName, want == nil)
				}
				return nil
			}
			if g, w := gen.ModelOf(got).SetKey()+"|"+gen.Canon(got, nil), gen.ModelOf(want).SetKey()+"|"+gen.Canon(want, nil); g != w {
				return engine.Violate(opName+"-same-object", "", "%s(a,a) differs from %s(a, fresh copy of a):\n same object: %s\n fresh copy:  %s", opName, opName, g, w)
			}
			if after := gen.Snap(a); after != before {
				return engine.Violate(opName+"-same-object", "operand", "%s(a,a) changed a: %s", opName, gen.SnapDiff(before, after))
			}
			t.State(opName + "|same|" + A.String())
			t.Outcome(opName + "-same-object-ok")
			return nil
		})
	}
}
