// Package c09: union and in-place add obey set-union and precedence laws.
package c09

import (
	"fmt"
	"google.golang.org/protobuf/proto"
	"sort"
	"time"

	"github.com/protobom/protobom/pkg/sbom"
	"google.golang.org/protobuf/reflect/protoreflect"

	"mcverif/engine"
	"mcverif/gen"
	"mcverif/vmap"
)

var Spec = engine.Spec{
	ID: "C09", Run: Run, MapOrders: true, MapOrdersQuick: []int{vmap.Alternating}, QuickBud: 5 * time.Minute, ThorBud: 45 * time.Minute,
	Technique: "explicit enumeration of all ordered pairs (and triples) of small node lists, ill-formed ones included; real Union/Add against a set-of-triples model; attribute cube by reflection over every Node field",
	Rule:      "case = ordered pair/triple of list specs (node subset, ordered edge-object list, root subset) or one attribute-cube point (field pair x 16 emptiness combinations x background); distinct state = pair of canonical list keys",
	Assume:    []string{"attribute rule excludes id (the key) and type (enum whose zero value is a legitimate value)"},
}

type pairDesc struct {
	A gen.ListSpec  `json:"a"`
	B gen.ListSpec  `json:"b"`
	C *gen.ListSpec `json:"c,omitempty"`
}

func restrict(m gen.Model) gen.Model {
	out := gen.Model{Nodes: m.Nodes, Roots: m.Roots, Edges: map[gen.Triple]int{}}
	for t, k := range m.Edges {
		if m.Nodes[t.From] > 0 && m.Nodes[t.To] > 0 {
			out.Edges[t] = k
		}
	}
	return out
}

// UnionModel is the reference: nodes, roots united; edges united then restricted to present nodes.
func UnionModel(a, b gen.Model) gen.Model {
	u := gen.Model{Nodes: map[string]int{}, Edges: map[gen.Triple]int{}, Roots: map[string]int{}}
	for k := range a.Nodes {
		u.Nodes[k] = 1
	}
	for k := range b.Nodes {
		u.Nodes[k] = 1
	}
	for k := range a.Roots {
		u.Roots[k] = 1
	}
	for k := range b.Roots {
		u.Roots[k] = 1
	}
	for k := range a.Edges {
		u.Edges[k] = 1
	}
	for k := range b.Edges {
		u.Edges[k] = 1
	}
	return restrict(u)
}

// Families: the special-purpose list families whose ordered pairs are explored besides the small-list matrix.
var Families = []string{"collisions", "near-ids", "edge-types", "empty-targets", "wide", "wide-edges"}

func Lists(thorough bool, variant string) []gen.ListSpec {
	var out []gen.ListSpec
	abc := []string{"a", "b", "c"}
	t2 := []sbom.Edge_Type{sbom.Edge_contains, sbom.Edge_dependsOn}
	t1 := []sbom.Edge_Type{sbom.Edge_contains}
	switch variant {
	case "pairs":
		// <=1 edge object with <=2 targets over a,b,c
		rootIDs, tg2 := []string{"a", "b"}, []string{"a", "b"}
		if thorough {
			rootIDs, tg2 = abc, abc
		}
		gen.SmallLists(abc, abc, t2, abc, 2, 1, rootIDs, func(s gen.ListSpec) { out = append(out, s) })
		// several edge objects per (source,type): nodes subset of {a,b}, exactly 2 objects
		gen.SmallLists([]string{"a", "b"}, []string{"a", "b"}, t1, tg2, 2, 2, []string{"a", "b"}, func(s gen.ListSpec) {
			if len(s.Edges) == 2 {
				out = append(out, s)
			}
		})
	case "collisions":
		// identifiers that are decimal-suffix extensions of one another with edge type numbers whose decimal spellings
		// extend one another ("a1"+"0" = "a"+"10", "a1"+"2" = "a"+"12", "a"+"1" + ... ): any index keyed by an
		// undelimited concatenation of identifier and type merges them
		idsC := []string{"a", "a1", "b"}
		typesC := []sbom.Edge_Type{0, 1, 2, 10, 11, 12}
		var objs []gen.EdgeSpec
		for _, f := range []string{"a", "a1"} {
			for _, t := range typesC {
				objs = append(objs, gen.EdgeSpec{From: f, Type: t, To: []string{"b"}})
			}
		}
		gen.EdgeLists(objs, 2, func(el []gen.EdgeSpec) {
			out = append(out, gen.ListSpec{Nodes: idsC, Edges: el, Roots: []string{"a"}})
		})
	case "edge-types":
		// one list per edge type number (declared and undeclared): the pair matrix unites every two types on one source
		var ts []int
		for t := range sbom.Edge_Type_name {
			ts = append(ts, int(t))
		}
		ts = append(ts, -1, 45, 46, 64, 99, 1000, 1001)
		sort.Ints(ts)
		for _, t := range ts {
			out = append(out, gen.ListSpec{Nodes: abc, Edges: []gen.EdgeSpec{{From: "a", Type: sbom.Edge_Type(t), To: []string{"b"}}, {From: "a", Type: sbom.Edge_Type(t), To: []string{"c", "b"}}}, Roots: []string{"a"}})
		}
	case "empty-targets":
		// edge objects that are declared but have no destinations (an empty To list), alone and next to populated ones
		ab := []string{"a", "b", "c"}
		var objs []gen.EdgeSpec
		for _, f := range ab {
			for _, ty := range t2 {
				objs = append(objs, gen.EdgeSpec{From: f, Type: ty, To: []string{}})
			}
		}
		objs = append(objs, gen.EdgeSpec{From: "a", Type: sbom.Edge_contains, To: []string{"b"}}, gen.EdgeSpec{From: "c", Type: sbom.Edge_dependsOn, To: []string{"b"}}, gen.EdgeSpec{From: "c", Type: sbom.Edge_dependsOn, To: []string{"a", "b"}}, gen.EdgeSpec{From: "a", Type: sbom.Edge_contains, To: []string{"c"}})
		gen.EdgeLists(objs, 2, func(el []gen.EdgeSpec) {
			out = append(out, gen.ListSpec{Nodes: ab, Edges: el, Roots: []string{"a"}})
		})
	case "near-ids":
		// identifiers that coincide under case folding or trimming: any index that normalises its keys merges them
		ids := []string{"n", "N", "n "}
		gen.SmallLists(ids, ids, t1, ids, 2, 1, ids[:2], func(s gen.ListSpec) { out = append(out, s) })
	case "wide":
		// size classes: a star with 40 leaves, the same star with the leaves in another order and split over two edge
		// objects, a chain of 40 nodes (thresholds and capacity effects are invisible to 3-node lists)
		var leaves, rev []string
		for i := 0; i < 40; i++ {
			leaves = append(leaves, fmt.Sprintf("l%02d", i))
		}
		for i := len(leaves) - 1; i >= 0; i-- {
			rev = append(rev, leaves[i])
		}
		all := append([]string{"hub"}, leaves...)
		out = append(out,
			gen.ListSpec{Nodes: all, Edges: []gen.EdgeSpec{{From: "hub", Type: sbom.Edge_contains, To: leaves}}, Roots: []string{"hub"}},
			gen.ListSpec{Nodes: all, Edges: []gen.EdgeSpec{{From: "hub", Type: sbom.Edge_contains, To: rev[:25]}, {From: "hub", Type: sbom.Edge_contains, To: rev[20:]}}, Roots: []string{"hub"}},
			gen.ListSpec{Nodes: all[:21], Edges: []gen.EdgeSpec{{From: "hub", Type: sbom.Edge_contains, To: leaves[:20]}, {From: "hub", Type: sbom.Edge_dependsOn, To: leaves[:20]}}, Roots: []string{"hub", "l00"}},
			gen.ListSpec{},
		)
		var chain []gen.EdgeSpec
		for i := 0; i+1 < len(leaves); i++ {
			chain = append(chain, gen.EdgeSpec{From: leaves[i], Type: sbom.Edge_dependsOn, To: []string{leaves[i+1]}})
		}
		out = append(out, gen.ListSpec{Nodes: leaves, Edges: chain, Roots: []string{"l00"}})
	case "wide-edges":
		// edge objects with 17, 33 and 65 destinations (either side of 16, 32, 64), two of them per list, and small lists
		// that bring one destination for either source: one the large edge already has, one of the other large edge, new
		// ones that sort before, among and after the existing ones. Every node is present in every list.
		var nodes []string
		F := func(n int) []string {
			var l []string
			for i := 0; i < n; i++ {
				l = append(l, fmt.Sprintf("f%02d", i))
			}
			return l
		}
		G := func(n int) []string {
			var l []string
			for i := 0; i < n; i++ {
				l = append(l, fmt.Sprintf("g%02d", i))
			}
			return l
		}
		extra := []string{"a0", "f05x", "zz"}
		nodes = append(append(append([]string{"p1", "p2"}, F(65)...), G(65)...), extra...)
		for _, n := range []int{17, 33, 65} {
			out = append(out,
				gen.ListSpec{Nodes: nodes, Edges: []gen.EdgeSpec{{From: "p1", Type: sbom.Edge_contains, To: F(n)}, {From: "p2", Type: sbom.Edge_contains, To: G(n)}}, Roots: []string{"p1"}},
				gen.ListSpec{Nodes: nodes, Edges: []gen.EdgeSpec{{From: "p2", Type: sbom.Edge_contains, To: G(n)[1:]}, {From: "p1", Type: sbom.Edge_contains, To: F(n)[1:]}}, Roots: []string{"p2"}},
			)
		}
		for _, t := range append([]string{"f00", "g00", "f16", "g40"}, extra...) {
			out = append(out,
				gen.ListSpec{Nodes: nodes, Edges: []gen.EdgeSpec{{From: "p1", Type: sbom.Edge_contains, To: []string{t}}}, Roots: []string{"p1"}},
				gen.ListSpec{Nodes: nodes, Edges: []gen.EdgeSpec{{From: "p2", Type: sbom.Edge_contains, To: []string{t}}}},
				gen.ListSpec{Nodes: nodes, Edges: []gen.EdgeSpec{{From: "p1", Type: sbom.Edge_contains, To: []string{t}}, {From: "p2", Type: sbom.Edge_contains, To: []string{t}}}, Roots: []string{"p1", "p2"}},
			)
		}
	case "triples":
		ab := []string{"a", "b"}
		gen.SmallLists(ab, ab, t1, ab, 2, 1, ab, func(s gen.ListSpec) { out = append(out, s) })
		if thorough {
			out = out[:0]
			gen.SmallLists(abc, []string{"a", "b"}, t1, abc, 1, 1, []string{"a", "c"}, func(s gen.ListSpec) { out = append(out, s) })
		}
	}
	return out
}

func Run(c *engine.Ctx) {
	// first, because it is small: a later group that exhausts the memory cap must not keep it from running
	AfterEditGroup(c, "Union", AfterEditLists(), func(a, b *sbom.NodeList) *sbom.NodeList { return a.Union(b) })
	AfterEditGroup(c, "Add", AfterEditLists(), func(a, b *sbom.NodeList) *sbom.NodeList {
		r := proto.Clone(a).(*sbom.NodeList)
		_ = a.Copy() // a copy is also a call that may remember things about the receiver
		r.Add(b)
		return r
	})
	L := Lists(c.Thorough(), "pairs")
	SameObjectGroup(c, "Union", L, func(a, b *sbom.NodeList) *sbom.NodeList { return a.Union(b) })
	c.Group("pairs")
	c.Bound("pairs", fmt.Sprintf("all %d x %d ordered pairs of list specs (ids a,b,c; <=1 edge object of <=2 targets over 2 types, plus 2-object lists per (source,type); all root subsets; ill-formed included)", len(L), len(L)))
	empty := gen.ListSpec{}
	for i := range L {
		if c.Expired() {
			break
		}
		for j := range L {
			A, B := L[i], L[j]
			c.Case(func() any { return pairDesc{A: A, B: B} }, func(t *engine.T) *engine.Violation {
				return pairCase(t, A, B, empty)
			})
		}
	}

	for _, fam := range Families {
		F := Lists(c.Thorough(), fam)
		c.Group(fam)
		c.Bound(fam, fmt.Sprintf("all %d x %d ordered pairs of the %s family", len(F), len(F), fam))
		for i := range F {
			for j := range F {
				A, B := F[i], F[j]
				c.Case(func() any { return pairDesc{A: A, B: B} }, func(t *engine.T) *engine.Violation {
					return pairCase(t, A, B, empty)
				})
			}
		}
	}

	T := Lists(c.Thorough(), "triples")
	c.Group("triples")
	c.Bound("triples", fmt.Sprintf("all %d^3 ordered triples for associativity", len(T)))
	for i := range T {
		if c.Expired() {
			break
		}
		for j := range T {
			for k := range T {
				A, B, C := T[i], T[j], T[k]
				c.Case(func() any { return pairDesc{A: A, B: B, C: &C} }, func(t *engine.T) *engine.Violation {
					l := A.Build().Union(B.Build()).Union(C.Build())
					r := A.Build().Union(B.Build().Union(C.Build()))
					t.Transitions(4)
					lk, rk := gen.ModelOf(l).SetKey(), gen.ModelOf(r).SetKey()
					ma, mb, mc := gen.ModelOf(A.Build()), gen.ModelOf(B.Build()), gen.ModelOf(C.Build())
					wl := UnionModel(UnionModel(ma, mb), mc).SetKey()
					wr := UnionModel(ma, UnionModel(mb, mc)).SetKey()
					t.Validated(2)
					if lk != wl {
						return engine.Violate("union-model", "nested", "(A∪B)∪C = %s\nmodel    = %s", lk, wl)
					}
					if rk != wr {
						return engine.Violate("union-model", "nested", "A∪(B∪C) = %s\nmodel    = %s", rk, wr)
					}
					// Restriction of edges to present nodes makes the set model itself
					// non-associative on ill-formed operands (a dangling edge of B is dropped
					// by A∪B but kept by B∪C when C brings the node); associativity is
					// asserted wherever the statement's own model is associative, which
					// includes every well-formed triple.
					if wl == wr {
						t.NonTrivial()
						if lk != rk {
							return engine.Violate("union-associative", "", "(A∪B)∪C = %s\nA∪(B∪C) = %s", lk, rk)
						}
					} else if gen.SpecWellFormed(A) && gen.SpecWellFormed(B) && gen.SpecWellFormed(C) {
						return engine.Violate("union-associative", "model", "harness: model not associative on a well-formed triple")
					}
					t.State("T:" + A.String() + "|" + B.String() + "|" + C.String())
					t.Outcome(fmt.Sprintf("assoc nodes=%d", len(gen.ModelOf(l).Nodes)))
					return nil
				})
			}
		}
	}

	attrCube(c)
	nearVersions(c)
	attrWide(c)
}

// WideAttrOperands builds two node lists of n nodes each that share every identifier, stored in different,
// unsorted orders, where every shared node has different non-empty attribute values on the two sides (size classes
// for the attribute rule: thresholds of sorting and indexing code are invisible to two-node lists).
func WideAttrOperands(n int) (*sbom.NodeList, *sbom.NodeList) {
	mk := func(tag string, order func(i int) int) *sbom.NodeList {
		nl := &sbom.NodeList{}
		for i := 0; i < n; i++ {
			k := order(i)
			id := fmt.Sprintf("lib-%03d", k)
			nl.Nodes = append(nl.Nodes, &sbom.Node{Id: id, Name: tag + "-name-" + id, Version: tag + "-1." + fmt.Sprint(k), Licenses: []string{tag + "-lic"}, Hashes: map[int32]string{1: tag + id}})
		}
		nl.RootElements = []string{nl.Nodes[0].Id}
		return nl
	}
	a := mk("A", func(i int) int { return (i*7 + 3) % n }) // a permutation when gcd(7,n)=1; sizes below are chosen so
	b := mk("B", func(i int) int { return n - 1 - i })
	return a, b
}

func attrWide(c *engine.Ctx) {
	c.Group("attr-wide")
	sizes := []int{3, 6, 13, 20, 100, 515}
	c.Bound("attr-wide", fmt.Sprintf("operands of %v nodes each sharing every identifier in different unsorted orders, every shared node with different non-empty name, version, licences and hashes: Union takes the second operand's values, Add keeps the receiver's", sizes))
	for _, n := range sizes {
		n := n
		c.Case(func() any { return map[string]int{"nodes-per-operand": n} }, func(t *engine.T) *engine.Violation {
			A, B := WideAttrOperands(n)
			u := A.Union(B)
			t.Transitions(1)
			t.Validated(1)
			if len(u.Nodes) != n {
				return engine.Violate("union-model", "wide", "union of two %d-node lists over the same identifiers has %d nodes", n, len(u.Nodes))
			}
			for _, bn := range B.Nodes {
				un := u.GetNodeByID(bn.Id)
				if un == nil {
					return engine.Violate("union-model", "wide", "node %s missing from the union", bn.Id)
				}
				if un.Name != bn.Name || un.Version != bn.Version || fmt.Sprint(un.Licenses) != fmt.Sprint(bn.Licenses) || un.Hashes[1] != bn.Hashes[1] {
					return engine.Violate("union-precedence", "wide", "%d nodes per operand: node %s has name %q version %q in the union, the second operand has %q %q (second operand wins when non-empty)", n, bn.Id, un.Name, un.Version, bn.Name, bn.Version)
				}
			}
			A2, B2 := WideAttrOperands(n)
			want := map[string]string{}
			for _, an := range A2.Nodes {
				want[an.Id] = an.Name
			}
			A2.Add(B2)
			t.Transitions(1)
			t.Validated(1)
			for id, w := range want {
				if got := A2.GetNodeByID(id); got == nil || got.Name != w {
					return engine.Violate("add-precedence", "wide", "%d nodes per operand: node %s does not keep the receiver's name after Add", n, id)
				}
			}
			t.State(fmt.Sprint("attr-wide", n))
			t.Outcome("attr-wide-ok")
			return nil
		})
	}
}

// nearVersions: the two operands hold versions of the shared node that are one single-field deviation
// apart - reorderings of set-valued lists and sub-second date changes (which the library's own
// equality cannot see) included. The precedence rule is judged field by field on exact snapshots.
func nearVersions(c *engine.Ctx) {
	c.Group("attr-near-versions")
	fds := gen.FieldsExcept(&sbom.Node{}, "id", "type")
	base := func() *sbom.Node {
		n := &sbom.Node{}
		gen.Full(n, "S", 3)
		n.Id = "shared"
		return n
	}
	devs := gen.Deviations(base(), 2)
	c.Bound("attr-near-versions", fmt.Sprintf("shared node with every field set (3-element lists); %d single-field deviations (nested to depth 2; content changes, reorderings, sub-second) applied to the first or to the second operand's version", len(devs)))
	for di := range devs {
		for side := 0; side < 2; side++ {
			di, side := di, side
			c.Case(func() any {
				return map[string]any{"deviation": devs[di].Label, "kind": devs[di].Kind, "deviated-operand": []string{"first", "second"}[side]}
			}, func(t *engine.T) *engine.Violation {
				mk := func() (*sbom.NodeList, *sbom.NodeList) {
					na, nb := base(), base()
					if side == 0 {
						devs[di].Mutate(na.ProtoReflect())
					} else {
						devs[di].Mutate(nb.ProtoReflect())
					}
					na.Id, nb.Id = "shared", "shared"
					return &sbom.NodeList{Nodes: []*sbom.Node{{Id: "other-a"}, na}, RootElements: []string{"shared"}}, &sbom.NodeList{Nodes: []*sbom.Node{nb, {Id: "other-b"}}}
				}
				A, B := mk()
				na, nb := A.Nodes[1], B.Nodes[0]
				if na.Id != "shared" || nb.Id != "shared" {
					t.Outcome("near:key-deviation-skipped")
					return nil
				}
				pick := func(first, second string) string {
					if second != "" {
						return second
					}
					return first
				}
				wantU, wantA := map[string]string{}, map[string]string{}
				for _, fd := range fds {
					av, bv := gen.FieldSnap(na, fd), gen.FieldSnap(nb, fd)
					wantU[string(fd.Name())] = pick(av, bv)
					wantA[string(fd.Name())] = pick(bv, av)
				}
				u := A.Union(B)
				t.Transitions(1)
				t.Validated(1)
				un := u.GetNodeByID("shared")
				if un == nil {
					return engine.Violate("union-precedence", "", "shared node missing from union")
				}
				for _, fd := range fds {
					if got := gen.FieldSnap(un, fd); got != wantU[string(fd.Name())] {
						return engine.Violate("union-precedence", string(fd.Name()), "field %s: union has %q, want %q (second operand wins when non-empty)", fd.Name(), got, wantU[string(fd.Name())])
					}
				}
				A2, B2 := mk()
				A2.Add(B2)
				t.Transitions(1)
				t.Validated(1)
				an := A2.GetNodeByID("shared")
				if an == nil {
					return engine.Violate("add-precedence", "", "shared node missing after Add")
				}
				for _, fd := range fds {
					if got := gen.FieldSnap(an, fd); got != wantA[string(fd.Name())] {
						return engine.Violate("add-precedence", "", "field %s: receiver has %q after Add, want %q (receiver keeps non-empty, fills empty from argument)", fd.Name(), got, wantA[string(fd.Name())])
					}
				}
				t.State(fmt.Sprintf("near:%s:%d", devs[di].Label, side))
				t.Outcome("near:" + devs[di].Kind)
				return nil
			})
		}
	}
}

// UseResult edits a result the way its owner may: a node, an edge and a root element are added.
func UseResult(x *sbom.NodeList) {
	if x == nil {
		return
	}
	x.Nodes = append(x.Nodes, &sbom.Node{Id: "used-by-owner"})
	x.Edges = append(x.Edges, &sbom.Edge{From: "used-by-owner", Type: sbom.Edge_contains, To: []string{"used-by-owner"}})
	x.RootElements = append(x.RootElements, "used-by-owner")
}

func pairCase(t *engine.T, A, B, empty gen.ListSpec) *engine.Violation {
	// operands with spare capacity in every slice (lists grown by appends, or decoded)
	a, b := gen.SpareList(A.Build()), gen.SpareList(B.Build())
	ma, mb := gen.ModelOf(a), gen.ModelOf(b)
	want := UnionModel(ma, mb)
	u := a.Union(b)
	t.Transitions(1)
	t.Validated(1)
	if u == nil {
		return engine.Violate("union-model", "", "nil result")
	}
	mu := gen.ModelOf(u)
	if mu.SetKey() != want.SetKey() {
		return engine.Violate("union-model", "", "A∪B = %s\nmodel  = %s", mu.SetKey(), want.SetKey())
	}
	for id, k := range mu.Nodes {
		if k != 1 {
			return engine.Violate("union-model", "dup-node", "node %s appears %d times in the union", id, k)
		}
	}
	// the result is held while the receiver is united with something else (a list that brings a node, an edge and a
	// root of its own), then used by its owner; neither changes what A∪B is, nor what the next A∪B returns
	{
		other := &sbom.NodeList{Nodes: []*sbom.Node{{Id: "held-x"}}, Edges: []*sbom.Edge{{From: "held-x", Type: sbom.Edge_contains, To: []string{"held-x"}}}, RootElements: []string{"held-x"}}
		_ = a.Union(other)
		t.Transitions(1)
		if k := gen.ModelOf(u).SetKey(); k != want.SetKey() {
			return engine.Violate("union-model", "held-result", "A∪B, held while A∪X was computed, became %s\nmodel  = %s", k, want.SetKey())
		}
		UseResult(u)
		again := a.Union(b)
		t.Transitions(1)
		if k := gen.ModelOf(again).SetKey(); k != want.SetKey() {
			return engine.Violate("union-model", "after-result-used", "A∪B computed again after the first result was edited by its owner = %s\nmodel  = %s", k, want.SetKey())
		}
	}
	// commutative
	u2 := B.Build().Union(A.Build())
	t.Transitions(1)
	if k2 := gen.ModelOf(u2).SetKey(); k2 != mu.SetKey() {
		return engine.Violate("union-commutative", "", "A∪B = %s\nB∪A = %s", mu.SetKey(), k2)
	}
	// in-place add has the same set-level result
	a2 := A.Build()
	a2.Add(B.Build())
	t.Transitions(1)
	t.Validated(1)
	if k2 := gen.ModelOf(a2).SetKey(); k2 != want.SetKey() {
		return engine.Violate("add-model", "", "A.Add(B) = %s\nmodel    = %s", k2, want.SetKey())
	}
	if A.String() == B.String() {
		// idempotent; identity
		if mu.SetKey() != restrict(ma).SetKey() {
			return engine.Violate("union-idempotent", "", "A∪A = %s, A = %s", mu.SetKey(), restrict(ma).SetKey())
		}
		e1 := A.Build().Union(empty.Build())
		e2 := empty.Build().Union(A.Build())
		e3 := A.Build().Union(sbom.NewNodeList())
		t.Transitions(3)
		for i, e := range []*sbom.NodeList{e1, e2, e3} {
			if k := gen.ModelOf(e).SetKey(); k != restrict(ma).SetKey() {
				return engine.Violate("union-identity", "", "identity form %d: got %s want %s", i, k, restrict(ma).SetKey())
			}
		}
	}
	t.Observe(mu.SetKey())
	t.State(gen.CanonKey(a) + " U " + gen.CanonKey(b))
	t.Outcome(fmt.Sprintf("n=%d e=%d r=%d", len(mu.Nodes), len(mu.Edges), len(mu.Roots)))
	if len(ma.Nodes) > 0 && len(mb.Nodes) > 0 {
		t.NonTrivial()
	}
	return nil
}

// attrCube: precedence of every attribute of a shared node.
func attrCube(c *engine.Ctx) {
	c.Group("attr-cube")
	fds := gen.FieldsExcept(&sbom.Node{}, "id", "type")
	c.Bound("attr-cube", fmt.Sprintf("%d attributes by reflection: every unordered pair (incl. f=g) x 16 emptiness combinations x 2 backgrounds x empty collections {nil, allocated with length 0}, Union and Add", len(fds)))
	for fi := range fds {
		for gi := fi; gi < len(fds); gi++ {
			for combo := 0; combo < 16; combo++ {
				for bg := 0; bg < 4; bg++ {
					f, g, combo, bg := fds[fi], fds[gi], combo, bg
					c.Case(func() any {
						return map[string]any{"f": f.Name(), "g": g.Name(), "A.f,B.f,A.g,B.g set": fmt.Sprintf("%04b", combo), "background-populated": bg&1 == 1, "empty-collections-allocated": bg&2 != 0}
					}, func(t *engine.T) *engine.Violation {
						AllocatedEmpty = bg&2 != 0
						defer func() { AllocatedEmpty = false }()
						return cubeCase(t, fds, f, g, combo, bg&1 == 1)
					})
				}
			}
		}
	}
}

// AllocatedEmpty: empty lists and maps of the cube's nodes are allocated (non-nil, length 0) instead of nil - the form
// NewNode(), Copy() and the results of earlier operations produce.
var AllocatedEmpty bool

func mkNode(fds []protoreflect.FieldDescriptor, f, g protoreflect.FieldDescriptor, setF, setG bool, k int, tag string, bg bool) *sbom.Node {
	n := &sbom.Node{Id: "shared"}
	r := n.ProtoReflect()
	for _, fd := range fds {
		switch {
		case fd == f:
			if setF {
				gen.SetField(r, fd, k, tag)
			}
		case fd == g:
			if setG {
				gen.SetField(r, fd, k, tag)
			}
		default:
			if bg {
				gen.SetField(r, fd, k, tag)
			}
		}
	}
	if AllocatedEmpty {
		gen.AllocateEmpty(n)
	}
	return n
}

func cubeCase(t *engine.T, fds []protoreflect.FieldDescriptor, f, g protoreflect.FieldDescriptor, combo int, bg bool) *engine.Violation {
	af, bf, ag, bgSet := combo&8 != 0, combo&4 != 0, combo&2 != 0, combo&1 != 0
	build := func() (*sbom.NodeList, *sbom.NodeList) {
		na := mkNode(fds, f, g, af, ag, 1, "A", bg)
		nb := mkNode(fds, f, g, bf, bgSet, 2, "B", bg)
		A := &sbom.NodeList{Nodes: []*sbom.Node{{Id: "other-a"}, na}, RootElements: []string{"shared"}}
		B := &sbom.NodeList{Nodes: []*sbom.Node{nb, {Id: "other-b"}}}
		return A, B
	}
	A, B := build()
	na, nb := A.Nodes[1], B.Nodes[0]
	expect := func(secondWins bool, fd protoreflect.FieldDescriptor) string {
		av, bv := gen.FieldSnap(na, fd), gen.FieldSnap(nb, fd)
		if secondWins {
			if bv != "" {
				return bv
			}
			return av
		}
		if av != "" {
			return av
		}
		return bv
	}
	wantU, wantA := map[string]string{}, map[string]string{}
	for _, fd := range fds {
		wantU[string(fd.Name())] = expect(true, fd)
		wantA[string(fd.Name())] = expect(false, fd)
	}
	u := A.Union(B)
	t.Transitions(1)
	t.Validated(1)
	un := u.GetNodeByID("shared")
	if un == nil {
		return engine.Violate("union-precedence", "", "shared node missing from union")
	}
	for _, fd := range fds {
		if got := gen.FieldSnap(un, fd); got != wantU[string(fd.Name())] {
			return engine.Violate("union-precedence", string(fd.Name()), "field %s: union has %q, want %q (second operand wins when non-empty)", fd.Name(), got, wantU[string(fd.Name())])
		}
	}
	if un.Id != "shared" {
		return engine.Violate("union-precedence", "id", "id changed")
	}
	A2, B2 := build()
	A2.Add(B2)
	t.Transitions(1)
	t.Validated(1)
	an := A2.GetNodeByID("shared")
	if an == nil {
		return engine.Violate("add-precedence", "", "shared node missing after Add")
	}
	for _, fd := range fds {
		if got := gen.FieldSnap(an, fd); got != wantA[string(fd.Name())] {
			return engine.Violate("add-precedence", "", "field %s: receiver has %q after Add, want %q (receiver keeps non-empty, fills empty from argument)", fd.Name(), got, wantA[string(fd.Name())])
		}
	}
	t.State(fmt.Sprintf("cube:%s:%s:%d:%v", f.Name(), g.Name(), combo, bg))
	t.Outcome(fmt.Sprintf("cube combo=%04b", combo))
	return nil
}
