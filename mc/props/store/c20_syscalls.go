package store

import (
	"bufio"
	"fmt"
	"os"
	"os/exec"
	"path/filepath"
	"regexp"
	"strconv"
	"strings"

	"mcverif/engine"
	"mcverif/vfs"
)

// Binding of the file-system seam to the real system calls.
//
// The crash points of C20 are the steps the vfs seam sees. This group checks, for every crash history, that those
// steps are what the UNINSTRUMENTED library really asks the kernel to do: the same store is run by the plain binary
// under strace and the sequence of mutating system calls on the store directory is compared with the seam's log
// (mkdir / create / write(n bytes) / fsync / chmod / rename / unlink / link / truncate). A change that reaches the
// file system around the `os` package (or an `os` function the seam does not model) shows up as a mismatch; the
// evidence then says that the enumerated crash points may not be the real ones (reduced coverage, not an alarm).

const markBegin, markEnd = "/MCVERIF-SYSCALL-MARK-BEGIN", "/MCVERIF-SYSCALL-MARK-END"

// AuxSyscalls (plain binary): pre-stores, marker, the last store, marker.
func AuxSyscalls(args []string) int {
	name, dir := args[0], args[1]
	for _, h := range crashHistories(true) {
		if h.Name != name {
			continue
		}
		if !h.Missing {
			_ = os.MkdirAll(dir, 0o755)
		}
		for _, o := range h.Pre {
			if r := doStore(dir, docVariant(o.Doc, o.ID), o.NoClobber); r.class() != "ok" {
				fmt.Fprintln(os.Stderr, "pre-store failed:", r.Err)
				return 2
			}
		}
		if err := applyShape(h, filepath.Dir(dir), dir); err != nil {
			fmt.Fprintln(os.Stderr, "pre-state shape failed:", err)
			return 2
		}
		_, _ = os.Stat(markBegin)
		r := doStore(dir, docVariant(h.Last.Doc, h.Last.ID), h.Last.NoClobber)
		_, _ = os.Stat(markEnd)
		fmt.Fprintln(os.Stderr, "store:", r.class())
		return 0
	}
	return 2
}

var straceLine = regexp.MustCompile(`^(?:\d+\s+)?([a-z0-9_]+)\((.*)\)\s+=\s+(-?\d+)`)

// observedSyscalls runs the plain binary under strace and returns the abstract mutating steps on dir.
func observedSyscalls(plain, name, dir, scratch string) ([]string, error) {
	out := filepath.Join(scratch, fmt.Sprintf("strace-%d-%s.txt", os.Getpid(), name))
	defer os.Remove(out)
	cmd := exec.Command("strace", "-f", "-qq", "-s", "0", "-o", out,
		"-e", "trace=openat,open,creat,write,pwrite64,writev,fsync,fdatasync,close,rename,renameat,renameat2,link,linkat,symlinkat,unlink,unlinkat,rmdir,chmod,fchmod,fchmodat,truncate,ftruncate,mkdir,mkdirat,newfstatat,stat",
		plain, "--aux", "c20syscalls", name, dir)
	cmd.Env = append(os.Environ(), "GOMAXPROCS=1")
	if b, err := cmd.CombinedOutput(); err != nil {
		return nil, fmt.Errorf("strace run failed: %v: %s", err, firstN(string(b), 300))
	}
	f, err := os.Open(out)
	if err != nil {
		return nil, err
	}
	defer f.Close()
	var steps []string
	fds := map[string]string{} // fd -> path (under dir)
	in := false
	sc := bufio.NewScanner(f)
	sc.Buffer(make([]byte, 1<<20), 1<<20)
	add := func(s string) {
		// consecutive mkdir calls are one MkdirAll; unlink + rmdir attempts on one path are one Remove
		if n := len(steps); n > 0 && steps[n-1] == s && (s == "mkdir" || strings.HasPrefix(s, "unlink")) {
			return
		}
		steps = append(steps, s)
	}
	for sc.Scan() {
		line := sc.Text()
		if strings.Contains(line, markBegin) {
			in = true
			continue
		}
		if strings.Contains(line, markEnd) {
			in = false
			continue
		}
		m := straceLine.FindStringSubmatch(line)
		if m == nil {
			continue
		}
		call, args, ret := m[1], m[2], m[3]
		under := strings.Contains(args, `"`+dir) // paths are printed in full (-s 0 only cuts data buffers... see below)
		switch call {
		case "openat", "open", "creat":
			if under && !strings.HasPrefix(ret, "-") {
				fds[ret] = "x"
				if in && (strings.Contains(args, "O_CREAT") || call == "creat") {
					add("create")
				}
			}
		case "close":
			fd := strings.TrimSpace(strings.SplitN(args, ",", 2)[0])
			delete(fds, fd)
		case "write", "pwrite64", "writev":
			fd := strings.TrimSpace(strings.SplitN(args, ",", 2)[0])
			if _, ok := fds[fd]; ok && in {
				add("write:" + ret)
			}
		case "fsync", "fdatasync":
			fd := strings.TrimSpace(args)
			if _, ok := fds[fd]; ok && in {
				add("fsync")
			}
		case "fchmod", "ftruncate":
			fd := strings.TrimSpace(strings.SplitN(args, ",", 2)[0])
			if _, ok := fds[fd]; ok && in {
				add(map[string]string{"fchmod": "chmod", "ftruncate": "truncate"}[call])
			}
		case "rename", "renameat", "renameat2":
			if under && in {
				add("rename")
			}
		case "link", "linkat", "symlinkat":
			if under && in {
				add("link")
			}
		case "unlink", "unlinkat", "rmdir":
			if under && in {
				add("unlink")
			}
		case "chmod", "fchmodat":
			if under && in {
				add("chmod")
			}
		case "truncate":
			if under && in {
				add("truncate")
			}
		case "mkdir", "mkdirat":
			if under && in && !strings.HasPrefix(ret, "-") {
				add("mkdir")
			}
		}
	}
	return steps, nil
}

func seamSteps(log []vfs.Step) []string {
	var out []string
	for _, s := range log {
		if !s.Mutating || s.Kind == "close" {
			continue // closing a descriptor changes nothing on disk; it is a crash point of the seam but not compared
		}
		k := s.Kind
		switch k {
		case "write":
			k = "write:" + strconv.Itoa(s.Bytes)
		case "sync":
			k = "fsync"
		case "remove":
			k = "unlink"
		}
		if n := len(out); n > 0 && out[n-1] == k && (k == "mkdir" || k == "unlink") {
			continue
		}
		out = append(out, k)
	}
	return out
}

// syscallBinding compares, per crash history, the seam's step list with the observed system calls. Returns false
// (and explains in a note) when they differ; "unavailable" when strace cannot be used here.
func syscallBinding(c *engine.Ctx) {
	plain := filepath.Join(os.Getenv("VERIF_DIR"), ".bin", "check-plain")
	if _, err := exec.LookPath("strace"); err != nil {
		c.Selftest("syscall_binding", "unavailable (no strace)")
		return
	}
	if _, err := os.Stat(plain); err != nil {
		c.Selftest("syscall_binding", "unavailable (no uninstrumented binary)")
		return
	}
	if c.Shard != 0 || c.IsReplay() {
		return // one worker decides; the verdict is a self-test of the seam, not a case of the enumeration
	}
	checked, bad := 0, 0
	for _, h := range crashHistories(c.Thorough()) {
		if h.CrossDevice {
			continue
		}
		sandbox, dir, err := setup(h)
		if err != nil {
			os.RemoveAll(sandbox)
			continue
		}
		vfs.Reset(vfs.Record)
		_ = doStore(dir, docVariant(h.Last.Doc, h.Last.ID), h.Last.NoClobber)
		want := seamSteps(vfs.Log())
		vfs.Reset(vfs.Passthrough)
		os.RemoveAll(sandbox)
		sb2, err := os.MkdirTemp(scratchRoot(), "c20s-")
		if err != nil {
			continue
		}
		got, err := observedSyscalls(plain, h.Name, filepath.Join(sb2, "store"), sb2)
		os.RemoveAll(sb2)
		if err != nil {
			c.Note("syscall binding: " + err.Error())
			c.Selftest("syscall_binding", "unavailable (strace failed)")
			return
		}
		checked++
		if strings.Join(got, " ") != strings.Join(want, " ") {
			bad++
			c.Note(fmt.Sprintf("syscall binding: history %s: the seam logs [%s] but the uninstrumented library issues [%s]", h.Name, strings.Join(want, " "), strings.Join(got, " ")))
		}
	}
	if bad > 0 {
		c.Selftest("syscall_binding", fmt.Sprintf("MISMATCH in %d of %d histories", bad, checked))
		c.Cap("the file-system seam does not match the system calls of the uninstrumented library on this tree: the enumerated crash points may not be the real ones")
		return
	}
	c.Selftest("syscall_binding", fmt.Sprintf("ok (%d histories: mutating system calls of the uninstrumented library under strace == mutating steps of the seam, byte counts included)", checked))
}

func firstN(s string, n int) string {
	if len(s) > n {
		return s[:n]
	}
	return s
}
