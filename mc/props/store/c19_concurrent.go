package store

import (
	"fmt"
	"os"
	"path/filepath"

	"github.com/protobom/protobom/pkg/sbom"
	"github.com/protobom/protobom/pkg/storage"

	"mcverif/engine"
	"mcverif/sched"
	"mcverif/vfs"
	"mcverif/vpoint"
	"mcverif/vsync"
)

// Two store / retrieve calls run concurrently in one process (documents with different identifiers never affect
// each other - also when they are stored at the same time). Every file-system step and every synchronisation
// operation of pkg/storage (sync.Pool, locks, atomics: the sync seam is compiled into this binary as well, with
// its deterministic pool) is a scheduling point; every schedule with a bounded number of preemptions is run. After
// each: a store that reported success is retrievable and returns exactly its own document.
func concurrentStores(c *engine.Ctx) {
	c.Group("concurrent-stores")
	bound := 2
	if c.Thorough() {
		bound = 3
	}
	type call struct {
		Kind    string // store | retrieve
		Doc, ID string
	}
	type scen struct {
		Pre    []call
		T      [2]call
		Shared bool // one FileSystem value for both threads
	}
	var scens []scen
	for _, shared := range []bool{false, true} {
		scens = append(scens,
			scen{T: [2]call{{"store", "d1", "a"}, {"store", "d2", "b"}}, Shared: shared},
			scen{T: [2]call{{"store", "d3", "a"}, {"store", "meta", "b"}}, Shared: shared},
			scen{T: [2]call{{"store", "e1", "a"}, {"store", "e2", "b"}}, Shared: shared},
			scen{Pre: []call{{"store", "d1", "a"}, {"store", "d2", "b"}}, T: [2]call{{"store", "d3", "a"}, {"store", "d1", "b"}}, Shared: shared},
			scen{Pre: []call{{"store", "d1", "a"}}, T: [2]call{{"retrieve", "", "a"}, {"store", "d3", "b"}}, Shared: shared},
			scen{Pre: []call{{"store", "d1", "a"}, {"store", "d2", "b"}}, T: [2]call{{"retrieve", "", "a"}, {"retrieve", "", "b"}}, Shared: shared},
			scen{T: [2]call{{"store", "d1", "a"}, {"store", "d3", "a"}}, Shared: shared},
		)
	}
	c.Bound("concurrent-stores", fmt.Sprintf("%d two-thread scenarios (stores of different identifiers with documents of different / equal length, over existing entries, store next to retrieve, two retrieves, two stores of one identifier; separate backend values or one shared) x every schedule of the file-system steps and synchronisation operations with <=%d preemptions; and again with every function entry and loop iteration of pkg/storage as a scheduling point (code-point seam), <=1 preemption", len(scens), bound))
	var fo fsObj
	vsync.Baseline()
	type pass struct {
		points bool
		bound  int
	}
	passes := []pass{{false, bound}}
	if vpoint.Sites > 0 {
		// second pass: every function entry and loop iteration of pkg/storage is a scheduling point too, one preemption
		passes = append(passes, pass{true, 1})
		c.Selftest("seam_points", fmt.Sprintf("true (sites=%d)", vpoint.Sites))
	} else {
		c.Selftest("seam_points", "false")
	}
	for _, ps := range passes {
		for si, sc := range scens {
			si, sc, ps := si, sc, ps
			bound := ps.bound
			c.Case(func() any {
				return map[string]any{"previous": sc.Pre, "T0": sc.T[0], "T1": sc.T[1], "one-backend-value": sc.Shared, "points-inside-calls": ps.points}
			}, func(t *engine.T) *engine.Violation {
				vpoint.On = false
				defer func() { vpoint.On = false }()
				var viol *engine.Violation
				var sandbox, dir string
				var res [2]result
				run := func(b *storage.FileSystem, k call) result {
					if k.Kind == "retrieve" {
						return guard(func() (*sbom.Document, error) { return b.Retrieve(k.ID, &storage.RetrieveOptions{}) })
					}
					return guard(func() (*sbom.Document, error) { return nil, b.Store(docVariant(k.Doc, k.ID), &storage.StoreOptions{}) })
				}
				n := sched.Explore(bound, func() []func() {
					sandbox, _ = os.MkdirTemp(scratchRoot(), "c19c-")
					dir = filepath.Join(sandbox, "store")
					_ = os.MkdirAll(dir, 0o755)
					vfs.Reset(vfs.Passthrough)
					vfs.Hook = nil
					vsync.ResetAll()
					for _, k := range sc.Pre {
						doStore(dir, docVariant(k.Doc, k.ID), false)
					}
					mk := func() *storage.FileSystem {
						b := storage.NewFileSystem()
						b.Options.Path = dir
						return b
					}
					b0 := mk()
					b1 := b0
					if !sc.Shared {
						b1 = mk()
					}
					vfs.Hook = func(vfs.Step) { sched.Point("fs", fo) }
					vpoint.On = ps.points
					return []func(){
						func() { res[0] = run(b0, sc.T[0]) },
						func() { res[1] = run(b1, sc.T[1]) },
					}
				}, func(x *sched.Exec) bool {
					t.Alive()
					vpoint.On = false
					vfs.Hook = nil
					vfs.Reset(vfs.Passthrough)
					defer os.RemoveAll(sandbox)
					t.Transitions(len(x.Points))
					where := fmt.Sprintf("schedule %v; directory: %v", x.Choices, listTree(sandbox))
					if x.Deadlock {
						viol = engine.Violate("deadlock", "concurrent-stores", "%s: no thread can run", where)
						return false
					}
					if x.Diverged != "" {
						viol = engine.Violate("harness", "", "scheduler: %s", x.Diverged)
						return false
					}
					// what each identifier must hold now
					want := map[string][]string{}
					for _, k := range sc.Pre {
						want[k.ID] = []string{k.Doc}
					}
					for i, k := range sc.T {
						if res[i].Exit || res[i].Panic != "" {
							viol = engine.Violate("process-exit", "concurrent-stores", "%s: T%d %v: %s %s", where, i, k, res[i].class(), res[i].Panic)
							return false
						}
						if k.Kind == "store" {
							if res[i].Err != nil {
								viol = engine.Violate("store-should-succeed", "concurrent-stores", "%s: T%d %v failed: %v", where, i, k, res[i].Err)
								return false
							}
							if o := sc.T[1-i]; o.Kind == "store" && o.ID == k.ID {
								want[k.ID] = []string{k.Doc, o.Doc}
							} else {
								want[k.ID] = []string{k.Doc}
							}
						}
					}
					for i, k := range sc.T {
						if k.Kind != "retrieve" {
							continue
						}
						// the entry is not being written by the other thread in these scenarios: the retrieve sees it
						if res[i].Err != nil || !equalDocs(res[i].Doc, docVariant(sc.Pre[i].Doc, k.ID)) {
							viol = engine.Violate("retrieve-after-store", "concurrent-stores", "%s: T%d %v next to %v gives %s %v instead of the stored document", where, i, k, sc.T[1-i], res[i].class(), res[i].Err)
							return false
						}
					}
					for id, docs := range want {
						got := doRetrieve(dir, id)
						t.Validated(1)
						ok := false
						for _, dn := range docs {
							if got.class() == "ok" && equalDocs(got.Doc, docVariant(dn, id)) {
								ok = true
							}
						}
						if !ok {
							viol = engine.Violate("retrieve-after-store", "concurrent-stores", "%s: after T0 %v and T1 %v both returned, Retrieve(%q) gives %s %v instead of %v", where, sc.T[0], sc.T[1], id, got.class(), got.Err, docs)
							return false
						}
					}
					t.State(fmt.Sprint("c19c", si, ps.points, x.Choices))
					return true
				})
				vfs.Hook = nil
				if viol != nil {
					return viol
				}
				t.Outcome(fmt.Sprintf("concurrent-stores-ok schedules=%d", n))
				return nil
			})
		}
	}
}
