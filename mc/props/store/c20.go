package store

import (
	"fmt"
	"os"
	"path/filepath"
	"strings"
	"time"

	"mcverif/engine"
	"mcverif/vfs"
)

var SpecC20 = engine.Spec{
	ID: "C20", Run: RunC20, QuickBud: 6 * time.Minute, ThorBud: 30 * time.Minute,
	Technique: "exhaustive crash-point enumeration through the vfs seam: the real Store is executed on a real directory and killed (process-death model: completed calls persist, everything after the crash point is a no-op) before every file-system step and after every byte prefix of every write, for first-time stores, overwrites, overwrites next to other entries and stores into a missing directory; a fresh Retrieve then must yield the complete old document, the complete new document or an error, and other entries must be intact",
	Rule:      "case = (history, crash step k, byte prefix p of step k if it is a write); distinct state = the directory content after the crash; oracle on Retrieve in a fresh backend value",
	Assume:    []string{"process-death crash model: completed system calls persist (power-loss reordering of unsynced blocks is not what the statement asks)", "step granularity is that of the os-level calls the store issues; MkdirAll is one step"},
}

type crashHistory struct {
	// CrossDevice: the system temporary directory is on another file system than the store (renames between
	// directories fail with EXDEV)
	CrossDevice bool
	Name        string
	Pre         []op // executed normally
	Last        op   // executed with the crash
	Missing     bool // configured directory does not exist at the start
	// Shape: what the entry of Last.ID looks like at the start, apart from a regular file: "symlink" (the entry was
	// moved out of the directory and linked back), "hardlink" (a second name for the entry exists outside),
	// "dangling-symlink" (a link to nothing is in the entry's place)
	Shape string
	// Fault: one file-system step of the crashing store fails with an error (and the process dies later, on whatever
	// path the store takes after the error)
	Fault *faultSpec
	// Thin: the document is large (MiB); of the byte prefixes of a write only 0..256, the neighbours of every power of
	// two and the last three are enumerated (a decodable torn prefix ends at a field boundary of the encoding, and the
	// first boundary after the metadata lies within the first few hundred bytes); no recovery / fault sub-groups
	Thin bool
}

func prefixTested(p, n int) bool {
	if p <= 256 || p >= n-2 {
		return true
	}
	for q := 512; q <= n+1; q *= 2 {
		if p >= q-1 && p <= q+1 {
			return true
		}
	}
	return false
}

type faultSpec struct {
	At   int
	Err  error
	Name string
}

var entryNames = map[string]string{}

// entryName finds the file name the store uses for an identifier (by storing into a throw-away directory).
func entryName(id string) string {
	if n, ok := entryNames[id]; ok {
		return n
	}
	d, err := os.MkdirTemp(scratchRoot(), "c20n-")
	if err != nil {
		return ""
	}
	defer os.RemoveAll(d)
	vfs.Reset(vfs.Passthrough)
	if r := doStore(d, docVariant("d1", id), false); r.class() != "ok" {
		return ""
	}
	es, _ := os.ReadDir(d)
	if len(es) != 1 {
		return ""
	}
	entryNames[id] = es[0].Name()
	return es[0].Name()
}

func applyShape(h crashHistory, sandbox, dir string) error {
	if h.Shape == "" {
		return nil
	}
	name := entryName(h.Last.ID)
	if name == "" {
		return fmt.Errorf("cannot determine the entry name of %q", h.Last.ID)
	}
	entry := filepath.Join(dir, name)
	out := filepath.Join(sandbox, "relocated")
	if err := os.MkdirAll(out, 0o755); err != nil {
		return err
	}
	switch h.Shape {
	case "symlink":
		if err := os.Rename(entry, filepath.Join(out, name)); err != nil {
			return err
		}
		return os.Symlink(filepath.Join(out, name), entry)
	case "hardlink":
		return os.Link(entry, filepath.Join(out, name))
	case "dangling-symlink":
		return os.Symlink(filepath.Join(out, "nothing-here"), entry)
	case "mode-0600", "mode-0664", "mode-0444", "mode-0755":
		// the entry carries other permission bits than the store gives a new one (an operator restricted or opened it,
		// another umask was in force when it was written)
		var m uint32
		fmt.Sscanf(strings.TrimPrefix(h.Shape, "mode-"), "%o", &m)
		return os.Chmod(entry, os.FileMode(m))
	}
	return fmt.Errorf("unknown shape %s", h.Shape)
}

func crashHistories(thorough bool) []crashHistory {
	hs := []crashHistory{
		{Name: "first-store", Last: op{Kind: "store", Doc: "d1", ID: "a"}},
		{Name: "overwrite", Pre: []op{{Kind: "store", Doc: "d1", ID: "a"}}, Last: op{Kind: "store", Doc: "d3", ID: "a"}},
		{Name: "overwrite-smaller", Pre: []op{{Kind: "store", Doc: "d3", ID: "a"}}, Last: op{Kind: "store", Doc: "d2", ID: "a"}},
		{Name: "overwrite-with-neighbour", Pre: []op{{Kind: "store", Doc: "d2", ID: "b"}, {Kind: "store", Doc: "d1", ID: "a"}}, Last: op{Kind: "store", Doc: "d3", ID: "a"}},
		{Name: "missing-directory", Last: op{Kind: "store", Doc: "d1", ID: "a"}, Missing: true},
		{Name: "noclobber-first-store", Last: op{Kind: "store", Doc: "d1", ID: "a", NoClobber: true}},
		// entries that are not plain regular files when the store starts
		{Name: "overwrite-of-symlinked-entry", Pre: []op{{Kind: "store", Doc: "d1", ID: "a"}}, Last: op{Kind: "store", Doc: "d3", ID: "a"}, Shape: "symlink"},
		{Name: "overwrite-of-hard-linked-entry", Pre: []op{{Kind: "store", Doc: "d1", ID: "a"}}, Last: op{Kind: "store", Doc: "d3", ID: "a"}, Shape: "hardlink"},
		{Name: "first-store-over-dangling-symlink", Last: op{Kind: "store", Doc: "d1", ID: "a"}, Shape: "dangling-symlink"},
		{Name: "overwrite-of-entry-with-mode-0600", Pre: []op{{Kind: "store", Doc: "d1", ID: "a"}}, Last: op{Kind: "store", Doc: "d3", ID: "a"}, Shape: "mode-0600"},
		{Name: "overwrite-of-entry-with-mode-0664", Pre: []op{{Kind: "store", Doc: "d1", ID: "a"}}, Last: op{Kind: "store", Doc: "d3", ID: "a"}, Shape: "mode-0664"},
		{Name: "overwrite-of-entry-with-mode-0444", Pre: []op{{Kind: "store", Doc: "d1", ID: "a"}}, Last: op{Kind: "store", Doc: "d3", ID: "a"}, Shape: "mode-0444"},
		{Name: "overwrite-of-entry-with-mode-0755", Pre: []op{{Kind: "store", Doc: "d1", ID: "a"}}, Last: op{Kind: "store", Doc: "d3", ID: "a"}, Shape: "mode-0755"},
		// size classes: documents of 1.5 MiB and 9 MiB, first store and over a small entry
		{Name: "first-store-of-1.5MiB", Last: op{Kind: "store", Doc: "big-1.5MiB", ID: "a"}, Thin: true},
		{Name: "first-store-of-9MiB", Last: op{Kind: "store", Doc: "big-9MiB", ID: "a"}, Thin: true},
		{Name: "overwrite-by-9MiB", Pre: []op{{Kind: "store", Doc: "d1", ID: "a"}}, Last: op{Kind: "store", Doc: "big-9MiB", ID: "a"}, Thin: true},
	}
	// the same histories in the environment where the temporary directory is on another file system
	n := len(hs)
	for i := 0; i < n; i++ {
		h := hs[i]
		if h.Name == "first-store" || h.Name == "overwrite" || h.Name == "overwrite-with-neighbour" {
			h.Name += "+tmpdir-on-other-filesystem"
			h.CrossDevice = true
			hs = append(hs, h)
		}
	}
	if thorough {
		hs = append(hs,
			crashHistory{Name: "overwrite-twice", Pre: []op{{Kind: "store", Doc: "d1", ID: "a"}, {Kind: "store", Doc: "d2", ID: "a"}}, Last: op{Kind: "store", Doc: "d3", ID: "a"}},
			crashHistory{Name: "missing-nested-with-unicode-id", Last: op{Kind: "store", Doc: "d3", ID: "é✓"}, Missing: true},
			crashHistory{Name: "metadata-only-overwrite", Pre: []op{{Kind: "store", Doc: "d3", ID: "a"}}, Last: op{Kind: "store", Doc: "meta", ID: "a"}},
		)
	}
	return hs
}

func setup(h crashHistory) (sandbox, dir string, err error) {
	sandbox, err = os.MkdirTemp(scratchRoot(), "c20-")
	if err != nil {
		return "", "", err
	}
	dir = filepath.Join(sandbox, "store")
	if !h.Missing {
		if err := os.MkdirAll(dir, 0o755); err != nil {
			return sandbox, dir, err
		}
	}
	vfs.Reset(vfs.Passthrough)
	for _, o := range h.Pre {
		if r := doStore(dir, docVariant(o.Doc, o.ID), o.NoClobber); r.class() != "ok" {
			return sandbox, dir, fmt.Errorf("pre-state %s: %s %v", o, r.class(), r.Err)
		}
	}
	if err := applyShape(h, sandbox, dir); err != nil {
		return sandbox, dir, fmt.Errorf("pre-state shape %s: %v", h.Shape, err)
	}
	return sandbox, dir, nil
}

func RunC20(c *engine.Ctx) {
	if !SeamOn() {
		c.Note("vfs seam unavailable on this tree: crash points cannot be enumerated (seam_vfs:false)")
		c.Selftest("seam_vfs", "false")
		c.Cap("vfs-seam-unavailable")
		c.Group("seam-unavailable")
		c.Case(func() any { return "seam unavailable" }, func(t *engine.T) *engine.Violation { t.Outcome("seam-unavailable"); return nil })
		return
	}
	c.Selftest("seam_vfs", "true")
	syscallBinding(c)
	concurrentStoresCrash(c)
	for _, h := range crashHistories(c.Thorough()) {
		h := h
		c.Group(h.Name)
		// recording run: the step list of the last store
		sandbox, dir, err := setup(h)
		if err != nil {
			c.Note("harness: " + err.Error())
			os.RemoveAll(sandbox)
			continue
		}
		vfs.Reset(vfs.Record)
		vfs.CrossDevice = h.CrossDevice
		r := doStore(dir, docVariant(h.Last.Doc, h.Last.ID), h.Last.NoClobber)
		vfs.CrossDevice = false
		log := vfs.Log()
		vfs.Reset(vfs.Passthrough)
		os.RemoveAll(sandbox)
		if r.class() != "ok" && !h.CrossDevice {
			c.Note(fmt.Sprintf("harness: history %s: recording run of the last store did not succeed: %s %v", h.Name, r.class(), r.Err))
			continue
		}
		points := 0
		for _, s := range log {
			points++
			if s.Kind == "write" {
				points += s.Bytes
			}
		}
		if h.Thin {
			c.Bound(h.Name, fmt.Sprintf("steps of the crashing store: [%s]; every step boundary + the byte prefixes 0..256, around every power of two and the last three of every write + the completed store", stepsString(log)))
		} else {
			c.Bound(h.Name, fmt.Sprintf("steps of the crashing store: [%s]; %d crash states (every step boundary + every byte prefix of every write) + the completed store", stepsString(log), points))
		}
		for k, s := range log {
			maxP := 0
			if s.Kind == "write" {
				maxP = s.Bytes
			}
			for p := 0; p <= maxP; p++ {
				if h.Thin && !prefixTested(p, maxP) {
					continue
				}
				k, p, s := k, p, s
				c.Case(func() any {
					return map[string]any{"history": h.Name, "crash-before-step": k, "step": s.Kind, "bytes-of-write-performed": p}
				}, func(t *engine.T) *engine.Violation {
					return crashCase(t, h, k, p, nil)
				})
			}
		}
		// recovery: the directory a crash leaves behind is the start state of the next process, which stores again
		// (a shorter, a longer, an equally long document under the same identifier; another identifier)
		if !h.CrossDevice && !h.Thin {
			c.Group(h.Name + "+recovery")
			posts := recoveryOps(h)
			c.Bound(h.Name+"+recovery", fmt.Sprintf("the same %d crash states, each followed in a new process by one of %d stores %v and a retrieve", points, len(posts), posts))
			for k, s := range log {
				maxP := 0
				if s.Kind == "write" {
					maxP = s.Bytes
				}
				for p := 0; p <= maxP; p++ {
					for pi := range posts {
						k, p, s, pi := k, p, s, pi
						c.Case(func() any {
							return map[string]any{"history": h.Name, "crash-before-step": k, "step": s.Kind, "bytes-of-write-performed": p, "then": posts[pi].String()}
						}, func(t *engine.T) *engine.Violation {
							return crashCase(t, h, k, p, &posts[pi])
						})
					}
				}
			}
			c.Group(h.Name)
		}
		// one injected error, then a crash: a store that meets a failing step may take another path (a fallback, a
		// clean-up); the process can die anywhere on that path too. For every step of the fault-free store and every
		// error of the menu the continuation is recorded; where it still touches the file system after the failed step,
		// every crash point of the continuation is enumerated.
		if !h.CrossDevice && h.Shape == "" && !h.Thin {
			faultCrash(c, h, log)
			c.Group(h.Name)
		}
		// crash after the last step = completed store
		c.Case(func() any {
			return map[string]any{"history": h.Name, "crash-before-step": len(log), "step": "none (store completed)"}
		}, func(t *engine.T) *engine.Violation {
			return crashCase(t, h, len(log), 0, nil)
		})
	}
}

var faultMenu = []struct {
	Name string
	Err  error
}{{"EACCES", vfs.EACCES}, {"ENOSPC", vfs.ENOSPC}, {"EIO", vfs.EIO}, {"EROFS", vfs.EROFS}, {"EEXIST", vfs.EEXIST}, {"EMFILE", vfs.EMFILE}}

func faultCrash(c *engine.Ctx, h crashHistory, cleanLog []vfs.Step) {
	c.Group(h.Name + "+fault+crash")
	total, paths := 0, 0
	for fk := range cleanLog {
		for _, fm := range faultMenu {
			// recording run with the fault alone
			sandbox, dir, err := setup(h)
			if err != nil {
				os.RemoveAll(sandbox)
				continue
			}
			vfs.SetFaultCrash(fk, fm.Err, -1, 0)
			_ = doStore(dir, docVariant(h.Last.Doc, h.Last.ID), h.Last.NoClobber)
			flog := vfs.Log()
			vfs.Reset(vfs.Passthrough)
			os.RemoveAll(sandbox)
			// does the store still change the file system after the failed step?
			mutatesAfter := false
			for i := fk + 1; i < len(flog); i++ {
				if flog[i].Mutating && flog[i].Kind != "close" {
					mutatesAfter = true
				}
			}
			if !mutatesAfter {
				continue
			}
			paths++
			hf := h
			hf.Fault = &faultSpec{At: fk, Err: fm.Err, Name: fm.Name}
			hf.Name = fmt.Sprintf("%s+%s-at-step-%d", h.Name, fm.Name, fk)
			for k := fk + 1; k <= len(flog); k++ {
				maxP := 0
				if k < len(flog) && flog[k].Kind == "write" {
					maxP = flog[k].Bytes
				}
				for p := 0; p <= maxP; p++ {
					k, p := k, p
					total++
					c.Case(func() any {
						return map[string]any{"history": h.Name, "failing-step": fk, "error": fm.Name, "steps-after-the-error": stepsString(flog[fk+1:]), "crash-before-step": k, "bytes-of-write-performed": p}
					}, func(t *engine.T) *engine.Violation {
						return crashCase(t, hf, k, p, nil)
					})
				}
			}
		}
	}
	c.Bound(h.Name+"+fault+crash", fmt.Sprintf("every step of the store x %d errors: %d (step, error) pairs after which the store still changes the file system; every crash point of those continuations (%d crash states)", len(faultMenu), paths, total))
}

// recoveryOps: what the next process stores into the directory the crash left behind.
func recoveryOps(h crashHistory) []op {
	id := h.Last.ID
	return []op{
		{Kind: "store", Doc: "meta", ID: id}, // shorter than every other document
		{Kind: "store", Doc: "d2", ID: id},
		{Kind: "store", Doc: "d3", ID: id},         // the longest
		{Kind: "store", Doc: h.Last.Doc, ID: id},   // the very document whose store was interrupted
		{Kind: "store", Doc: "d1", ID: "other-id"}, // another entry
	}
}

func crashCase(t *engine.T, h crashHistory, k, p int, post *op) *engine.Violation {
	sandbox, dir, err := setup(h)
	defer os.RemoveAll(sandbox)
	if err != nil {
		return engine.Violate("harness", "", "%v", err)
	}
	newDoc := docVariant(h.Last.Doc, h.Last.ID)
	if h.Fault != nil {
		vfs.SetFaultCrash(h.Fault.At, h.Fault.Err, k, p)
	} else {
		vfs.SetCrash(k, p)
	}
	vfs.CrossDevice = h.CrossDevice
	res := doStore(dir, newDoc, h.Last.NoClobber)
	vfs.CrossDevice = false
	reached := vfs.Frozen()
	vfs.Reset(vfs.Passthrough)
	storeFailed := res.Err != nil
	t.Transitions(1)
	_ = res
	// the process is dead; a new process retrieves
	var old *op
	for i := range h.Pre {
		if h.Pre[i].ID == h.Last.ID {
			old = &h.Pre[i]
		}
	}
	if post != nil {
		// a new process stores again; when that store succeeds its document is what a retrieve must return
		pd := docVariant(post.Doc, post.ID)
		pr := doStore(dir, pd, post.NoClobber)
		t.Transitions(1)
		if pr.Panic != "" {
			return engine.Violate("retrieve-panic", "recovery-store", "history %s, killed before step %d (%d bytes): the next process' %s panicked: %s", h.Name, k, p, *post, pr.Panic)
		}
		if pr.class() == "ok" {
			gr := doRetrieve(dir, post.ID)
			t.Transitions(1)
			t.Validated(1)
			if gr.class() != "ok" || !equalDocs(gr.Doc, pd) {
				kind := "error"
				if gr.class() == "ok" {
					kind = fmt.Sprintf("a different document (id %q, name %q, %d nodes)", gr.Doc.GetMetadata().GetId(), gr.Doc.GetMetadata().GetName(), len(gr.Doc.GetNodeList().GetNodes()))
				}
				return engine.Violate("torn-entry", "after-recovery-store", "history %s, killed before step %d with %d bytes of it performed; the next process' %s succeeded, but Retrieve then gives %s %v; directory: %v", h.Name, k, p, *post, kind, gr.Err, listTree(sandbox))
			}
			t.Outcome("recovery:stored-and-retrieved")
			if post.ID == h.Last.ID {
				t.State(fmt.Sprint("recovery", h.Name, k, p, post.Doc))
				return nil
			}
		} else {
			t.Outcome("recovery:store-" + pr.class())
		}
	}
	got := doRetrieve(dir, h.Last.ID)
	t.Transitions(1)
	t.Validated(1)
	tree := listTree(sandbox)
	where := fmt.Sprintf("history %s, killed before step %d with %d bytes of it performed (crash point reached=%v); directory: %v", h.Name, k, p, reached, tree)
	switch {
	case got.Exit:
		// a process exit is not an error return, but it is C19's clause; for atomicity it counts as "no document delivered"
		t.Outcome("retrieve:process-exit")
	case got.Panic != "":
		return engine.Violate("retrieve-panic", "", "%s: Retrieve panicked: %s", where, got.Panic)
	case got.Err != nil:
		t.Outcome("retrieve:error")
	default:
		isNew := equalDocs(got.Doc, newDoc)
		isOld := old != nil && equalDocs(got.Doc, docVariant(old.Doc, old.ID))
		switch {
		case isNew:
			t.Outcome("retrieve:new")
		case isOld:
			t.Outcome("retrieve:old")
		default:
			kind := "mixed-or-truncated"
			if got.Doc == nil || got.Doc.GetMetadata().GetId() == "" {
				kind = "empty"
			}
			return engine.Violate("torn-entry", kind, "%s: Retrieve returned a %s document (id %q, name %q, %d nodes) that is neither the complete previous nor the complete new one", where, kind, got.Doc.GetMetadata().GetId(), got.Doc.GetMetadata().GetName(), len(got.Doc.GetNodeList().GetNodes()))
		}
		if !reached && !isNew && !storeFailed {
			return engine.Violate("completed-store-lost", "", "%s: the store completed but the new document is not retrievable", where)
		}
	}
	if !reached && !storeFailed && (got.Err != nil || got.Exit) {
		return engine.Violate("completed-store-lost", "", "%s: the store completed but Retrieve gives %s", where, got.class())
	}
	// other entries are unaffected
	for _, o := range h.Pre {
		if o.ID == h.Last.ID {
			continue
		}
		// the last pre-store of that id
		var last op
		for _, x := range h.Pre {
			if x.ID == o.ID {
				last = x
			}
		}
		r := doRetrieve(dir, o.ID)
		if r.class() != "ok" || !equalDocs(r.Doc, docVariant(last.Doc, last.ID)) {
			return engine.Violate("neighbour-damaged", "", "%s: entry %q stored earlier now reads %s", where, o.ID, r.class())
		}
	}
	t.State(fmt.Sprint(tree))
	return nil
}
