package store

import (
	"fmt"
	"os"
	"path/filepath"

	"mcverif/engine"
	"mcverif/sched"
	"mcverif/vfs"
)

// Two stores of one identifier run concurrently in one process and the process dies.
//
// The crash enumeration above has one thread. Here the file-system seam is combined with the controlled
// scheduler: every file-system step of the two storing goroutines is a scheduling point, every schedule with a
// bounded number of preemptions is run, and for every schedule the process is killed before every step (and
// inside every write). A later retrieve must then yield the complete previous document, one of the two complete
// new documents, or an error - never a mixture of them.

type fsObj struct{}

func (fsObj) EnabledFor(string) bool { return true }

func concurrentStoresCrash(c *engine.Ctx) {
	c.Group("concurrent-stores+crash")
	bound := 2
	if c.Thorough() {
		bound = 4
	}
	type scen struct {
		Pre    string // "" = no previous entry
		D0, D1 string
	}
	scens := []scen{{"d1", "d3", "d2"}, {"d1", "d2", "d3"}, {"", "d3", "d2"}, {"d3", "e1", "e2"}, {"", "e1", "e2"}, {"d2", "d1", "meta"}}
	c.Bound("concurrent-stores+crash", fmt.Sprintf("%d scenarios (previous entry, two concurrent stores of the same identifier with documents of different / equal length) x every schedule of the file-system steps with <=%d preemptions x a kill before every step and after 0 / 5 / 20 / 36 bytes of every write", len(scens), bound))
	var fo fsObj
	for si, sc := range scens {
		// number of steps of the two stores together (recording run, default schedule)
		maxSteps := 0
		{
			sandbox, _ := os.MkdirTemp(scratchRoot(), "c20c-")
			dir := filepath.Join(sandbox, "store")
			_ = os.MkdirAll(dir, 0o755)
			vfs.Reset(vfs.Record)
			doStore(dir, docVariant(sc.D0, "a"), false)
			doStore(dir, docVariant(sc.D1, "a"), false)
			maxSteps = len(vfs.Log())
			vfs.Reset(vfs.Passthrough)
			os.RemoveAll(sandbox)
		}
		for k := 0; k <= maxSteps; k++ {
			for _, p := range []int{0, 5, 20, 36} {
				if k == maxSteps && p > 0 {
					continue
				}
				si, sc, k, p := si, sc, k, p
				c.Case(func() any {
					return map[string]any{"previous": sc.Pre, "T0": "Store(" + sc.D0 + ",a)", "T1": "Store(" + sc.D1 + ",a)", "killed-before-step": k, "bytes-of-a-write-performed": p}
				}, func(t *engine.T) *engine.Violation {
					var viol *engine.Violation
					var sandbox, dir string
					var res [2]result
					n := sched.Explore(bound, func() []func() {
						sandbox, _ = os.MkdirTemp(scratchRoot(), "c20c-")
						dir = filepath.Join(sandbox, "store")
						_ = os.MkdirAll(dir, 0o755)
						vfs.Reset(vfs.Passthrough)
						vfs.Hook = nil
						if sc.Pre != "" {
							doStore(dir, docVariant(sc.Pre, "a"), false)
						}
						vfs.SetCrash(k, p)
						vfs.Hook = func(vfs.Step) { sched.Point("fs", fo) }
						return []func(){
							func() { res[0] = doStore(dir, docVariant(sc.D0, "a"), false) },
							func() { res[1] = doStore(dir, docVariant(sc.D1, "a"), false) },
						}
					}, func(x *sched.Exec) bool {
						t.Alive()
						vfs.Hook = nil
						reached := vfs.Frozen()
						steps := len(vfs.Log())
						vfs.Reset(vfs.Passthrough)
						defer os.RemoveAll(sandbox)
						t.Transitions(len(x.Points))
						if x.Deadlock || x.Diverged != "" {
							viol = engine.Violate("harness", "", "scheduler: deadlock=%v %s", x.Deadlock, x.Diverged)
							return false
						}
						got := doRetrieve(dir, "a")
						t.Validated(1)
						where := fmt.Sprintf("schedule %v, killed before global step %d of %d with %d bytes (reached=%v); directory: %v", x.Choices, k, steps, p, reached, listTree(sandbox))
						if got.Panic != "" {
							viol = engine.Violate("retrieve-panic", "concurrent", "%s: Retrieve panicked: %s", where, got.Panic)
							return false
						}
						allowed := []string{sc.D0, sc.D1}
						if sc.Pre != "" {
							allowed = append(allowed, sc.Pre)
						}
						if got.Err == nil && !got.Exit {
							ok := false
							for _, a := range allowed {
								if equalDocs(got.Doc, docVariant(a, "a")) {
									ok = true
								}
							}
							if !ok {
								viol = engine.Violate("torn-entry", "concurrent-stores", "%s: Retrieve returned a document (name %q, %d nodes) that is none of %v", where, got.Doc.GetMetadata().GetName(), len(got.Doc.GetNodeList().GetNodes()), allowed)
								return false
							}
							if !reached && res[0].Err == nil && res[1].Err == nil && sc.Pre != "" && equalDocs(got.Doc, docVariant(sc.Pre, "a")) && sc.Pre != sc.D0 && sc.Pre != sc.D1 {
								viol = engine.Violate("completed-store-lost", "concurrent-stores", "%s: both stores completed but the previous document is still what Retrieve returns", where)
								return false
							}
						} else if !reached && res[0].Err == nil && res[1].Err == nil {
							viol = engine.Violate("completed-store-lost", "concurrent-stores", "%s: both stores completed but Retrieve gives %s %v", where, got.class(), got.Err)
							return false
						}
						t.State(fmt.Sprint("cc", si, k, p, x.Choices))
						return true
					})
					vfs.Hook = nil
					if viol != nil {
						return viol
					}
					t.Outcome(fmt.Sprintf("concurrent-crash-ok schedules=%d", n))
					return nil
				})
			}
		}
	}
}
