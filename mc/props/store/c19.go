package store

import (
	"fmt"
	"os"
	"path/filepath"
	"strings"
	"syscall"
	"time"

	"github.com/protobom/protobom/pkg/sbom"

	"mcverif/engine"
	"mcverif/vfs"
)

var SpecC19 = engine.Spec{
	ID: "C19", Run: RunC19, QuickBud: 6 * time.Minute, ThorBud: 30 * time.Minute,
	Technique: "explicit-state search over store/retrieve histories on the real FileSystem backend in a sandbox directory (8 identifier strings incl. path separators, dot-dot, absolute, unicode, 300 chars, empty; 4 documents; both no-clobber settings; 4 start states of the configured directory) against a map[id]doc reference model, with <=1 injected I/O fault (EIO/EACCES/ENOSPC) at every step of the last operation through the vfs seam, and externally corrupted entries (empty, every truncation, garbage); confinement by scanning the sandbox",
	Rule:      "case = (start state, history of store/retrieve operations[, fault step, errno]) or (corruption of a stored entry); distinct state = start state + history (+ fault); oracle after every step: model agreement, confinement, error-not-exit",
	Assume:    []string{"the 'usable directory' clause is judged on mode bits (the sandbox runs as root)", "process exit is observed through logrus' ExitFunc hook; a direct os.Exit would kill the worker and be attributed by the supervisor"},
}

type op struct {
	Kind      string // store | retrieve
	Doc       string
	ID        string
	NoClobber bool
}

func (o op) String() string {
	if o.Kind == "retrieve" {
		return "Retrieve(" + idLabel(o.ID) + ")"
	}
	return fmt.Sprintf("Store(%s,id=%s,noClobber=%v)", o.Doc, idLabel(o.ID), o.NoClobber)
}

type startState struct {
	Name string
	// Prepare creates the sandbox content and returns the configured directory.
	Prepare func(sandbox string) string
	IsFile  bool
	Missing bool
	Symlink bool
	// Relative: the configured path is relative and the process' working directory is the sandbox
	Relative bool
	// Umask >= 0: the process' file-mode creation mask during the history (an environment answer)
	Umask int
}

var startStates = []startState{
	{Name: "directory-exists", Prepare: func(s string) string { d := filepath.Join(s, "store"); _ = os.MkdirAll(d, 0o755); return d }},
	{Name: "directory-missing", Prepare: func(s string) string { return filepath.Join(s, "store") }, Missing: true},
	{Name: "nested-directory-missing", Prepare: func(s string) string { return filepath.Join(s, "n1", "n2", "store") }, Missing: true},
	{Name: "path-is-a-file", Prepare: func(s string) string {
		f := filepath.Join(s, "store")
		_ = os.WriteFile(f, []byte("i am a file"), 0o644)
		return f
	}, IsFile: true},
	// configured paths that can never become a directory: below a regular file (ENOTDIR), with a component longer than
	// the file system allows (ENAMETOOLONG), through a symbolic-link loop (ELOOP): every store is an error return
	{Name: "path-below-a-file", Prepare: func(s string) string {
		_ = os.WriteFile(filepath.Join(s, "plain"), []byte("i am a file"), 0o644)
		return filepath.Join(s, "plain", "store")
	}, IsFile: true, Missing: true},
	{Name: "path-component-too-long", Prepare: func(s string) string { return filepath.Join(s, strings.Repeat("n", 300), "store") }, IsFile: true, Missing: true},
	{Name: "path-through-symlink-loop", Prepare: func(s string) string {
		_ = os.Symlink(filepath.Join(s, "loop-b"), filepath.Join(s, "loop-a"))
		_ = os.Symlink(filepath.Join(s, "loop-a"), filepath.Join(s, "loop-b"))
		return filepath.Join(s, "loop-a", "store")
	}, IsFile: true, Missing: true},
	{Name: "directory-name-with-spaces-and-unicode", Prepare: func(s string) string { d := filepath.Join(s, "st ore é✓"); _ = os.MkdirAll(d, 0o755); return d }},
	{Name: "symlink-to-directory", Prepare: func(s string) string {
		real := filepath.Join(s, "real")
		_ = os.MkdirAll(real, 0o755)
		l := filepath.Join(s, "store")
		_ = os.Symlink(real, l)
		return l
	}, Symlink: true},
	{Name: "path-with-dot-segments", Prepare: func(s string) string {
		d := filepath.Join(s, "store")
		_ = os.MkdirAll(d, 0o755)
		return s + "/store/../store/."
	}},
	// other spellings of a directory: a trailing separator, a doubled separator, a ./ prefix
	{Name: "path-with-trailing-separator-missing", Prepare: func(s string) string { return s + "/store/" }, Missing: true},
	{Name: "path-with-trailing-separator-existing", Prepare: func(s string) string { _ = os.MkdirAll(filepath.Join(s, "store"), 0o755); return s + "/store/" }},
	{Name: "path-with-doubled-separator", Prepare: func(s string) string { _ = os.MkdirAll(filepath.Join(s, "n1", "store"), 0o755); return s + "/n1//store" }},
	{Name: "relative-path-with-dot-prefix-missing", Prepare: func(s string) string { return "./n1/store" }, Relative: true, Missing: true},
	// environment answers: working directory (relative configured path) and file-mode creation mask
	{Name: "relative-path-existing", Prepare: func(s string) string { _ = os.MkdirAll(filepath.Join(s, "store"), 0o755); return "store" }, Relative: true},
	{Name: "relative-path-missing", Prepare: func(s string) string { return filepath.Join("n1", "store") }, Relative: true, Missing: true},
	{Name: "umask-077-missing", Prepare: func(s string) string { return filepath.Join(s, "n1", "store") }, Missing: true, Umask: 0o077},
	{Name: "umask-000-missing", Prepare: func(s string) string { return filepath.Join(s, "store") }, Missing: true, Umask: 0o1000},
	{Name: "umask-027-existing", Prepare: func(s string) string { d := filepath.Join(s, "store"); _ = os.MkdirAll(d, 0o755); return d }, Umask: 0o027},
}

// world is the reference model.
type world struct {
	docs        map[string]*sbom.Document
	lastStoreOK bool // the last store operation returned no error
}

// applyOp runs one operation on the real backend and checks it against the model. Returns violation text.
func applyOp(t *engine.T, st startState, sandbox, dir string, w *world, o op, faulted bool) (clause, detail string) {
	before := listTree(sandbox)
	var res result
	var d *sbom.Document
	recording := SeamOn() && !faulted
	if recording {
		vfs.Reset(vfs.Record)
	}
	if o.Kind == "store" {
		d = docVariant(o.Doc, o.ID)
		res = doStore(dir, d, o.NoClobber)
	} else {
		res = doRetrieve(dir, o.ID)
	}
	if recording {
		// every path a mutating step touched lies under the configured directory (or is the directory / one of its
		// missing parents being created)
		log := vfs.Log()
		vfs.Reset(vfs.Passthrough)
		for _, s := range log {
			if !s.Mutating {
				continue
			}
			for _, p := range []string{s.Path, s.Path2} {
				if p == "" {
					continue
				}
				cp := filepath.Clean(p)
				dir := filepath.Clean(dir)
				if cp == dir || strings.HasPrefix(cp, dir+string(os.PathSeparator)) || strings.HasPrefix(dir, cp+string(os.PathSeparator)) && s.Kind == "mkdir" {
					continue
				}
				return "confinement", fmt.Sprintf("%s touched %q (%s) outside the configured directory %q", o, p, s.Kind, dir)
			}
		}
	}
	t.Transitions(1)
	t.Validated(1)
	if res.Exit {
		return "process-exit", fmt.Sprintf("%s terminated the process instead of returning an error", o)
	}
	if res.Panic != "" {
		return "panic", fmt.Sprintf("%s panicked: %s", o, res.Panic)
	}
	// confinement: everything new lies under the configured directory
	after := listTree(sandbox)
	rel, _ := filepath.Rel(sandbox, filepath.Clean(dir))
	if st.Relative {
		rel = filepath.Clean(dir)
	}
	if st.Symlink {
		rel = "real"
	}
	old := map[string]bool{}
	for _, p := range before {
		old[p] = true
	}
	for _, p := range after {
		if old[p] {
			continue
		}
		name := strings.TrimSuffix(strings.SplitN(p, " (", 2)[0], "/")
		if name == rel || strings.HasPrefix(name, rel+"/") || strings.HasPrefix(rel, name+"/") {
			continue
		}
		return "confinement", fmt.Sprintf("%s created or changed %q outside the configured directory %q", o, p, rel)
	}
	if o.Kind == "store" {
		wantErr := ""
		switch {
		case o.ID == "":
			wantErr = "a document without identifier"
		case st.IsFile:
			wantErr = "a configured path that is a file or cannot become a directory"
		case o.NoClobber && w.docs[o.ID] != nil:
			wantErr = "an existing entry with no-clobber set"
		}
		if wantErr != "" {
			if res.Err == nil {
				return "store-should-fail", fmt.Sprintf("%s succeeded although it stores %s", o, wantErr)
			}
		} else if res.Err != nil && !faulted {
			return "store-should-succeed", fmt.Sprintf("%s failed: %v", o, res.Err)
		}
		w.lastStoreOK = res.Err == nil
		if res.Err == nil {
			w.docs[o.ID] = d
			if fi, err := os.Stat(dir); err != nil || !fi.IsDir() {
				return "directory", fmt.Sprintf("after a successful %s the configured directory does not exist", o)
			} else if fi.Mode().Perm()&0o700 != 0o700 {
				return "directory", fmt.Sprintf("the created directory has mode %v: its owner cannot read, write and search it", fi.Mode().Perm())
			}
		}
		return "", ""
	}
	// retrieve
	want := w.docs[o.ID]
	if want == nil {
		if res.Err == nil {
			if res.Doc == nil {
				return "retrieve-neither", fmt.Sprintf("%s of an unknown entry returned neither document nor error", o)
			}
			return "retrieve-unknown", fmt.Sprintf("%s of an unknown entry returned a document (id %q) without error", o, res.Doc.GetMetadata().GetId())
		}
		return "", ""
	}
	if res.Err != nil {
		if faulted {
			return "", ""
		}
		return "retrieve-after-store", fmt.Sprintf("%s failed although the entry was stored: %v", o, res.Err)
	}
	if !equalDocs(res.Doc, want) {
		return "retrieve-after-store", fmt.Sprintf("%s returned a document that differs from the stored one (got id %q name %q)", o, res.Doc.GetMetadata().GetId(), res.Doc.GetMetadata().GetName())
	}
	return "", ""
}

// verifyAll retrieves every id of the model and every other alphabet id.
func verifyAll(t *engine.T, st startState, sandbox, dir string, w *world) (string, string) {
	for _, id := range idAlphabet {
		if id == "" {
			continue
		}
		if c, d := applyOp(t, st, sandbox, dir, w, op{Kind: "retrieve", ID: id}, false); c != "" {
			return c, "final sweep: " + d
		}
	}
	return "", ""
}

func opsAlphabet(docs []string, ids []string) []op {
	var out []op
	for _, id := range ids {
		out = append(out, op{Kind: "retrieve", ID: id})
		for _, d := range docs {
			for _, nc := range []bool{false, true} {
				out = append(out, op{Kind: "store", Doc: d, ID: id, NoClobber: nc})
			}
		}
	}
	return out
}

func runHistory(t *engine.T, st startState, h []op, faultStep int, faultErr error) *engine.Violation {
	sandbox, err := os.MkdirTemp(scratchRoot(), "c19-")
	if err != nil {
		return engine.Violate("harness", "", "mkdtemp: %v", err)
	}
	defer os.RemoveAll(sandbox)
	dir := st.Prepare(sandbox)
	if st.Relative {
		if cwd, err := os.Getwd(); err == nil {
			defer os.Chdir(cwd) //nolint:errcheck
		}
		if err := os.Chdir(sandbox); err != nil {
			return engine.Violate("harness", "", "chdir: %v", err)
		}
	}
	if st.Umask != 0 {
		old := syscall.Umask(st.Umask & 0o777) // 0o1000 encodes mask 000
		defer syscall.Umask(old)
	}
	w := &world{docs: map[string]*sbom.Document{}}
	vfs.Reset(vfs.Passthrough)
	for i, o := range h {
		faulted := false
		if faultErr != nil && i == len(h)-1 {
			vfs.SetFault(faultStep, faultErr)
			faulted = true
		}
		snapshot := map[string]*sbom.Document{}
		for k, v := range w.docs {
			snapshot[k] = v
		}
		c, d := applyOp(t, st, sandbox, dir, w, o, faulted)
		vfs.Reset(vfs.Passthrough)
		if c != "" {
			return engine.Violate(c, "", "start=%s history=%v: %s", st.Name, h, d)
		}
		if faulted && o.Kind == "store" {
			// after a faulted store the entry is old, new or unreadable-with-error; every other id is untouched
			res := doRetrieve(dir, o.ID)
			if res.Exit || res.Panic != "" {
				return engine.Violate("process-exit", "after-fault", "start=%s history=%v fault at step %d (%v): retrieving the entry afterwards %s", st.Name, h, faultStep, faultErr, res.class())
			}
			if w.lastStoreOK && o.ID != "" && (res.Err != nil || !equalDocs(res.Doc, docVariant(o.Doc, o.ID))) {
				// the store claimed success although an operation inside it failed: it must then really have stored the document
				return engine.Violate("retrieve-after-store", "after-fault", "start=%s history=%v fault at step %d (%v): Store returned no error, but retrieving the entry afterwards gives %s (error %v) instead of the stored document", st.Name, h, faultStep, faultErr, res.class(), res.Err)
			}
			if res.Err == nil && o.ID != "" {
				isOld := snapshot[o.ID] != nil && equalDocs(res.Doc, snapshot[o.ID])
				isNew := equalDocs(res.Doc, docVariant(o.Doc, o.ID))
				if !isOld && !isNew {
					return engine.Violate("fault-damaged-entry", "", "start=%s history=%v fault at step %d (%v): the entry now reads as a document that is neither the previous nor the new one", st.Name, h, faultStep, faultErr)
				}
				if isNew {
					w.docs[o.ID] = docVariant(o.Doc, o.ID)
				} else {
					w.docs[o.ID] = snapshot[o.ID]
				}
			} else if res.Err != nil {
				delete(w.docs, o.ID)
			}
		}
	}
	if c, d := verifyAll(t, st, sandbox, dir, w); c != "" {
		return engine.Violate(c, "", "start=%s history=%v: %s", st.Name, h, d)
	}
	return nil
}

func RunC19(c *engine.Ctx) {
	if !SeamOn() {
		c.Note("vfs seam unavailable on this tree: fault injection skipped (seam_vfs:false)")
		c.Selftest("seam_vfs", "false")
	} else {
		c.Selftest("seam_vfs", "true")
	}
	depth := 3
	docsFull := []string{"d1", "d2", "meta", "d3"}
	// histories without faults
	for si, st := range startStates {
		st := st
		c.Group("histories-" + st.Name)
		var alpha []op
		d := depth
		switch {
		case si == 0 && !c.Thorough():
			alpha = opsAlphabet([]string{"d1", "d2"}, idAlphabet)
		case si == 0:
			alpha = opsAlphabet(docsFull, idAlphabet)
		case si >= 4:
			alpha = opsAlphabet([]string{"d1", "d2"}, []string{"a", "../x", ""})
			d = 2
		default:
			alpha = opsAlphabet([]string{"d1", "meta"}, []string{"a", "../x", "é✓", ""})
			if !c.Thorough() {
				d = 2
			}
		}
		c.Bound("histories-"+st.Name, fmt.Sprintf("all histories of <= %d operations over %d operations", d, len(alpha)))
		var rec func(cur []op)
		rec = func(cur []op) {
			if len(cur) > 0 {
				h := append([]op{}, cur...)
				c.Case(func() any { return map[string]any{"start": st.Name, "history": fmt.Sprint(h)} }, func(t *engine.T) *engine.Violation {
					if v := runHistory(t, st, h, 0, nil); v != nil {
						return v
					}
					t.State(st.Name + fmt.Sprint(h))
					t.Outcome("history-ok")
					return nil
				})
			}
			if len(cur) == d || c.Expired() {
				return
			}
			for _, o := range alpha {
				rec(append(cur, o))
			}
		}
		rec(nil)
	}
	longLived(c)
	concurrentStores(c)
	sizeClasses(c)
	collisions(c)
	overwrites(c)
	if SeamOn() {
		faults(c)
	}
	corrupt(c)
}

// collision alphabet: identifiers that a normalising, truncating or path-cleaning key derivation would map onto one another.
var collisionIDs = []string{
	"a", "A", " a", "a ", "a\n", "\ta", "a\x00", "./a", "a/", "a/.", "a//b", "a/b", "a/../a", "a\\b", "é✓", "e\u0301✓", "É✓",
	strings.Repeat("z", 300), strings.Repeat("z", 300) + "y", strings.Repeat("z", 255), strings.Repeat("z", 256),
	"a.protobom", "a%2Fb", "a?b", "a#b", "0", "00", "-", "--", ".", "..", "*",
}

// collisions: every ordered pair of distinct identifiers of the collision alphabet: store under the first, store another
// document under the second (with and without no-clobber), then both must retrieve their own document.
func collisions(c *engine.Ctx) {
	c.Group("identifier-pairs")
	c.Bound("identifier-pairs", fmt.Sprintf("all %d ordered pairs of %d identifiers that differ only by case, surrounding whitespace, path syntax, unicode normal form, length beyond 255, or a suffix; x both no-clobber settings of the second store", len(collisionIDs)*(len(collisionIDs)-1), len(collisionIDs)))
	st := startStates[0]
	for i := range collisionIDs {
		for j := range collisionIDs {
			if i == j {
				continue
			}
			for _, nc := range []bool{false, true} {
				i, j, nc := i, j, nc
				h := []op{{Kind: "store", Doc: "d1", ID: collisionIDs[i]}, {Kind: "store", Doc: "d2", ID: collisionIDs[j], NoClobber: nc}, {Kind: "retrieve", ID: collisionIDs[i]}, {Kind: "retrieve", ID: collisionIDs[j]}}
				c.Case(func() any {
					return map[string]any{"first": collisionIDs[i], "second": collisionIDs[j], "noClobber": nc}
				}, func(t *engine.T) *engine.Violation {
					if v := runHistory(t, st, h, 0, nil); v != nil {
						return v
					}
					t.State(fmt.Sprintf("pair|%q|%q|%v", collisionIDs[i], collisionIDs[j], nc))
					t.Outcome("pair-ok")
					return nil
				})
			}
		}
	}
}

// overwrites: every ordered pair of documents (including two of equal encoded length) stored under one identifier.
func overwrites(c *engine.Ctx) {
	c.Group("overwrite-pairs")
	kinds := []string{"d1", "d2", "meta", "d3", "e1", "e2", "unk"}
	c.Bound("overwrite-pairs", fmt.Sprintf("all %d ordered pairs of %d documents (two of equal encoded length) stored one after the other under the same identifier x both no-clobber settings x 2 identifiers", len(kinds)*len(kinds), len(kinds)))
	for _, id := range []string{"a", "é✓"} {
		for _, k1 := range kinds {
			for _, k2 := range kinds {
				for _, nc := range []bool{false, true} {
					id, k1, k2, nc := id, k1, k2, nc
					h := []op{{Kind: "store", Doc: k1, ID: id}, {Kind: "store", Doc: k2, ID: id, NoClobber: nc}, {Kind: "retrieve", ID: id}, {Kind: "store", Doc: k1, ID: id}, {Kind: "retrieve", ID: id}}
					c.Case(func() any { return map[string]any{"id": id, "first": k1, "second": k2, "noClobber": nc} }, func(t *engine.T) *engine.Violation {
						if v := runHistory(t, startStates[0], h, 0, nil); v != nil {
							return v
						}
						t.State(fmt.Sprintf("ow|%s|%s|%s|%v", id, k1, k2, nc))
						t.Outcome("overwrite-ok")
						return nil
					})
				}
			}
		}
	}
}

// faults: <=1 injected fault at every step of the last operation of every history of length <=2.
func faults(c *engine.Ctx) {
	c.Group("faults")
	alpha := opsAlphabet([]string{"d1", "d2"}, []string{"a", "b"})
	errs := []error{vfs.EIO, vfs.EACCES, vfs.ENOSPC}
	c.Bound("faults", fmt.Sprintf("histories of <= 2 operations over %d operations x 2 start states x every step of the last operation x {EIO, EACCES, ENOSPC}", len(alpha)))
	for _, st := range startStates[:2] {
		st := st
		var hs [][]op
		for _, a := range alpha {
			hs = append(hs, []op{a})
			for _, b := range alpha {
				hs = append(hs, []op{a, b})
			}
		}
		for _, h := range hs {
			h := h
			// probe the step count of the last operation with a recording run
			nsteps := probeSteps(st, h)
			for k := 0; k < nsteps; k++ {
				for _, fe := range errs {
					k, fe := k, fe
					c.Case(func() any {
						return map[string]any{"start": st.Name, "history": fmt.Sprint(h), "fault-step": k, "errno": fe.Error()}
					}, func(t *engine.T) *engine.Violation {
						if v := runHistory(t, st, h, k, fe); v != nil {
							return v
						}
						t.State(fmt.Sprintf("%s%v@%d:%v", st.Name, h, k, fe))
						t.Outcome("fault-ok")
						return nil
					})
				}
			}
		}
	}
}

func probeSteps(st startState, h []op) int {
	sandbox, err := os.MkdirTemp(scratchRoot(), "c19p-")
	if err != nil {
		return 0
	}
	defer os.RemoveAll(sandbox)
	dir := st.Prepare(sandbox)
	vfs.Reset(vfs.Passthrough)
	for i, o := range h {
		if i == len(h)-1 {
			vfs.Reset(vfs.Record)
		}
		if o.Kind == "store" {
			doStore(dir, docVariant(o.Doc, o.ID), o.NoClobber)
		} else {
			doRetrieve(dir, o.ID)
		}
	}
	n := len(vfs.Log())
	vfs.Reset(vfs.Passthrough)
	return n
}

// corrupt: externally damaged entries must produce an error return (or, for a truncation that
// is itself a valid encoding, a non-empty document), never an exit, a panic or a silently empty document.
func corrupt(c *engine.Ctx) {
	c.Group("corrupt-entries")
	c.Bound("corrupt-entries", "entry of each of 3 documents replaced by: empty file, every proper prefix, garbage bytes, a directory, an unreadable file")
	for _, kind := range []string{"d1", "d2", "d3"} {
		kind := kind
		// find the encoded size
		size := 0
		{
			sandbox, _ := os.MkdirTemp(scratchRoot(), "c19c-")
			dir := filepath.Join(sandbox, "store")
			_ = os.MkdirAll(dir, 0o755)
			doStore(dir, docVariant(kind, "the-id"), false)
			if m, _ := filepath.Glob(filepath.Join(dir, "*")); len(m) == 1 {
				if fi, err := os.Stat(m[0]); err == nil {
					size = int(fi.Size())
				}
			}
			os.RemoveAll(sandbox)
		}
		var damages []string
		for p := 0; p < size; p++ {
			damages = append(damages, fmt.Sprintf("truncate:%d", p))
		}
		damages = append(damages, "garbage", "directory", "garbage-prefix")
		for _, dmg := range damages {
			dmg := dmg
			c.Case(func() any { return map[string]string{"document": kind, "damage": dmg} }, func(t *engine.T) *engine.Violation {
				sandbox, _ := os.MkdirTemp(scratchRoot(), "c19c-")
				defer os.RemoveAll(sandbox)
				dir := filepath.Join(sandbox, "store")
				_ = os.MkdirAll(dir, 0o755)
				if r := doStore(dir, docVariant(kind, "the-id"), false); r.class() != "ok" {
					return engine.Violate("harness", "", "cannot store: %v", r.Err)
				}
				m, _ := filepath.Glob(filepath.Join(dir, "*"))
				if len(m) != 1 {
					return engine.Violate("harness", "", "expected one entry, found %v", m)
				}
				raw, _ := os.ReadFile(m[0])
				switch {
				case strings.HasPrefix(dmg, "truncate:"):
					var p int
					fmt.Sscanf(dmg, "truncate:%d", &p)
					_ = os.WriteFile(m[0], raw[:p], 0o644)
				case dmg == "garbage":
					_ = os.WriteFile(m[0], []byte("\xff\xff\xff not a protobuf \x00\x01"), 0o644)
				case dmg == "garbage-prefix":
					_ = os.WriteFile(m[0], append([]byte{0xff, 0xff}, raw...), 0o644)
				case dmg == "directory":
					_ = os.Remove(m[0])
					_ = os.Mkdir(m[0], 0o755)
				}
				res := doRetrieve(dir, "the-id")
				t.Transitions(1)
				t.Validated(1)
				switch {
				case res.Exit:
					return engine.Violate("process-exit", "corrupt-entry", "retrieving a damaged entry (%s) terminated the process", dmg)
				case res.Panic != "":
					return engine.Violate("panic", "corrupt-entry", "retrieving a damaged entry (%s) panicked: %s", dmg, res.Panic)
				case res.Err == nil && res.Doc == nil:
					return engine.Violate("retrieve-neither", "corrupt-entry", "neither document nor error for a damaged entry (%s)", dmg)
				case res.Err == nil && res.Doc.GetMetadata().GetId() == "":
					return engine.Violate("silently-empty", "corrupt-entry", "a damaged entry (%s) was returned as a document without identifier and without error", dmg)
				}
				t.State("corrupt:" + kind + ":" + dmg)
				t.Outcome("corrupt:" + res.class())
				return nil
			})
		}
	}
}

// sizeClasses: documents of 1.5 MiB, 9 MiB and 20000 nodes, stored first, over a small entry and under one.
func sizeClasses(c *engine.Ctx) {
	c.Group("size-classes")
	bigs := []string{"big-1.5MiB", "big-9MiB", "many-20000-nodes"}
	c.Bound("size-classes", fmt.Sprintf("documents %v: first store, over a small entry, a small one over it, no-clobber over it; retrieve after every step", bigs))
	st := startStates[0]
	for _, b := range bigs {
		for hi, h := range [][]op{
			{{Kind: "store", Doc: b, ID: "a"}, {Kind: "retrieve", ID: "a"}},
			{{Kind: "store", Doc: "d1", ID: "a"}, {Kind: "store", Doc: b, ID: "a"}, {Kind: "retrieve", ID: "a"}, {Kind: "store", Doc: "d2", ID: "a"}, {Kind: "retrieve", ID: "a"}},
			{{Kind: "store", Doc: b, ID: "a"}, {Kind: "store", Doc: "d1", ID: "a", NoClobber: true}, {Kind: "retrieve", ID: "a"}, {Kind: "store", Doc: b, ID: "b"}, {Kind: "retrieve", ID: "b"}},
		} {
			b, h, hi := b, h, hi
			c.Case(func() any { return map[string]any{"document": b, "history": fmt.Sprint(h)} }, func(t *engine.T) *engine.Violation {
				if v := runHistory(t, st, h, 0, nil); v != nil {
					return v
				}
				t.State(fmt.Sprint("size", b, hi))
				t.Outcome("size-class-ok")
				return nil
			})
		}
	}
}
