package store

import (
	"fmt"
	"os"
	"path/filepath"

	"github.com/protobom/protobom/pkg/sbom"
	"github.com/protobom/protobom/pkg/storage"

	"mcverif/engine"
	"mcverif/vfs"
)

// longLived: one backend value serves a whole history (readers and writers hold their backend for their lifetime),
// and the world changes under it: the configured directory is removed by somebody else, or the backend is pointed
// at another directory. Every store must still find or create its directory; documents stay per directory.
type llOp struct {
	Kind      string // store | retrieve | rmdir | repoint
	Doc, ID   string
	NoClobber bool
	Dir       int
}

func (o llOp) String() string {
	switch o.Kind {
	case "store":
		return fmt.Sprintf("Store(%s,id=%q,noClobber=%v)", o.Doc, o.ID, o.NoClobber)
	case "retrieve":
		return fmt.Sprintf("Retrieve(%q)", o.ID)
	case "rmdir":
		return "<the configured directory is removed>"
	default:
		return fmt.Sprintf("<Options.Path = directory %d>", o.Dir)
	}
}

func longLived(c *engine.Ctx) {
	c.Group("long-lived-instance")
	alpha := []llOp{
		{Kind: "store", Doc: "d1", ID: "a"}, {Kind: "store", Doc: "d2", ID: "a"}, {Kind: "store", Doc: "d1", ID: "b"}, {Kind: "store", Doc: "d3", ID: "a", NoClobber: true},
		{Kind: "retrieve", ID: "a"}, {Kind: "retrieve", ID: "b"},
		{Kind: "rmdir"}, {Kind: "repoint", Dir: 1}, {Kind: "repoint", Dir: 0},
	}
	depth := 4
	if c.Thorough() {
		depth = 5
	}
	c.Bound("long-lived-instance", fmt.Sprintf("one FileSystem value for the whole history; every history of <=%d steps over %d (stores, retrieves, removal of the configured directory from outside, re-pointing Options.Path to a second, missing, nested directory and back) against a per-directory map model", depth, len(alpha)))
	var rec func(cur []llOp)
	rec = func(cur []llOp) {
		if c.Expired() {
			c.Cap("deadline in long-lived-instance")
			return
		}
		if len(cur) > 0 {
			h := append([]llOp{}, cur...)
			c.Case(func() any { return fmt.Sprint(h) }, func(t *engine.T) *engine.Violation {
				sandbox, err := os.MkdirTemp(scratchRoot(), "c19l-")
				if err != nil {
					return engine.Violate("harness", "", "mkdtemp: %v", err)
				}
				defer os.RemoveAll(sandbox)
				dirs := []string{filepath.Join(sandbox, "s0"), filepath.Join(sandbox, "n1", "n2", "s1")}
				_ = os.MkdirAll(dirs[0], 0o755)
				vfs.Reset(vfs.Passthrough)
				fsb := storage.NewFileSystem()
				fsb.Options.Path = dirs[0]
				at := 0
				model := []map[string]*sbom.Document{{}, {}}
				for i, o := range h {
					where := fmt.Sprintf("history %v, step %d (%s)", h, i, o)
					switch o.Kind {
					case "rmdir":
						_ = os.RemoveAll(dirs[at])
						model[at] = map[string]*sbom.Document{}
					case "repoint":
						at = o.Dir
						fsb.Options.Path = dirs[at]
					case "store":
						d := docVariant(o.Doc, o.ID)
						r := guard(func() (*sbom.Document, error) {
							return nil, fsb.Store(d, &storage.StoreOptions{NoClobber: o.NoClobber})
						})
						t.Transitions(1)
						t.Validated(1)
						if r.Exit || r.Panic != "" {
							return engine.Violate("process-exit", "long-lived", "%s: %s %s", where, r.class(), r.Panic)
						}
						exists := model[at][o.ID] != nil
						if o.NoClobber && exists {
							if r.Err == nil {
								return engine.Violate("store-should-fail", "long-lived", "%s succeeded although the entry exists and no-clobber is set", where)
							}
						} else {
							if r.Err != nil {
								return engine.Violate("store-should-succeed", "long-lived", "%s failed: %v", where, r.Err)
							}
							model[at][o.ID] = d
						}
					case "retrieve":
						r := guard(func() (*sbom.Document, error) { return fsb.Retrieve(o.ID, &storage.RetrieveOptions{}) })
						t.Transitions(1)
						t.Validated(1)
						if r.Exit || r.Panic != "" {
							return engine.Violate("process-exit", "long-lived", "%s: %s %s", where, r.class(), r.Panic)
						}
						want := model[at][o.ID]
						switch {
						case want == nil && r.Err == nil:
							return engine.Violate("retrieve-unknown", "long-lived", "%s returned a document for an entry this directory does not hold", where)
						case want != nil && r.Err != nil:
							return engine.Violate("retrieve-after-store", "long-lived", "%s failed although the entry was stored: %v", where, r.Err)
						case want != nil && !equalDocs(r.Doc, want):
							return engine.Violate("retrieve-after-store", "long-lived", "%s returned a document that differs from the stored one", where)
						}
					}
				}
				t.State(fmt.Sprint("ll", h))
				t.Outcome(fmt.Sprintf("long-lived-ok-%d", len(h)))
				return nil
			})
		}
		if len(cur) == depth {
			return
		}
		for _, o := range alpha {
			rec(append(cur, o))
		}
	}
	rec(nil)
}
