// Package store holds the explorers for C19 (file-system store contract) and
// C20 (crash atomicity of Store), both driven through the vfs seam.
package store

import (
	"fmt"
	"os"
	"path/filepath"
	"sort"
	"strings"

	"github.com/protobom/protobom/pkg/sbom"
	"github.com/protobom/protobom/pkg/storage"
	"github.com/sirupsen/logrus"
	"google.golang.org/protobuf/encoding/protowire"
	"google.golang.org/protobuf/proto"

	"mcverif/vfs"
)

// SeamOn tells whether pkg/storage was compiled against the vfs seam.
func SeamOn() bool { return os.Getenv("MCVERIF_SEAM") == "vfs" }

type exitSentinel struct{ code int }

func init() {
	logrus.SetOutput(devNull{})
	// turn "terminated the process" into an observable outcome
	logrus.StandardLogger().ExitFunc = func(code int) { panic(exitSentinel{code}) }
}

type devNull struct{}

func (devNull) Write(p []byte) (int, error) { return len(p), nil }

// outcome of one store/retrieve call
type result struct {
	Doc   *sbom.Document
	Err   error
	Exit  bool
	Panic string
}

func (r result) class() string {
	switch {
	case r.Exit:
		return "process-exit"
	case r.Panic != "":
		return "panic"
	case r.Err != nil:
		return "error"
	default:
		return "ok"
	}
}

func guard(f func() (*sbom.Document, error)) (res result) {
	defer func() {
		if r := recover(); r != nil {
			if _, ok := r.(exitSentinel); ok {
				res = result{Exit: true}
				return
			}
			res = result{Panic: fmt.Sprint(r)}
		}
	}()
	d, err := f()
	return result{Doc: d, Err: err}
}

func doStore(dir string, d *sbom.Document, noClobber bool) result {
	fsb := storage.NewFileSystem()
	fsb.Options.Path = dir
	return guard(func() (*sbom.Document, error) { return nil, fsb.Store(d, &storage.StoreOptions{NoClobber: noClobber}) })
}

func doRetrieve(dir, id string) result {
	fsb := storage.NewFileSystem()
	fsb.Options.Path = dir
	return guard(func() (*sbom.Document, error) { return fsb.Retrieve(id, &storage.RetrieveOptions{}) })
}

// documents -----------------------------------------------------------------

func docVariant(kind, id string) *sbom.Document {
	d := sbom.NewDocument()
	d.Metadata.Id = id
	switch kind {
	case "d1":
		d.Metadata.Name = "first"
		d.NodeList.Nodes = []*sbom.Node{{Id: "a", Name: "na", Version: "1"}, {Id: "b", Name: "nb"}}
		d.NodeList.Edges = []*sbom.Edge{{From: "a", Type: sbom.Edge_contains, To: []string{"b"}}}
		d.NodeList.RootElements = []string{"a"}
	case "d2":
		d.Metadata.Name = "second"
		d.Metadata.Version = "2"
		d.NodeList.Nodes = []*sbom.Node{{Id: "x", Name: "other", Hashes: map[int32]string{3: "aabbcc"}}}
		d.NodeList.RootElements = []string{"x"}
	case "meta":
		d.Metadata.Name = "metadata-only"
		d.NodeList = nil
	case "e1", "e2":
		// two documents whose encodings have exactly the same length
		d.Metadata.Name = map[string]string{"e1": "alpha", "e2": "omega"}[kind]
		d.NodeList.Nodes = []*sbom.Node{{Id: "n", Name: map[string]string{"e1": "abc", "e2": "xyz"}[kind]}}
		d.NodeList.RootElements = []string{"n"}
	case "unk":
		// a document written by a newer schema: unknown fields on the document and on a node
		d.Metadata.Name = "carries-unknown-fields"
		n := &sbom.Node{Id: "n", Name: "node"}
		n.ProtoReflect().SetUnknown(protowire.AppendVarint(protowire.AppendTag(nil, 999, protowire.VarintType), 7))
		d.NodeList.Nodes = []*sbom.Node{n}
		d.ProtoReflect().SetUnknown(protowire.AppendString(protowire.AppendTag(nil, 1000, protowire.BytesType), "future"))
	case "big-1.5MiB", "big-9MiB":
		// size classes: one long text attribute / many nodes (limits and buffers are invisible to documents of 400 bytes)
		d.Metadata.Name = kind
		sz := map[string]int{"big-1.5MiB": 3 << 19, "big-9MiB": 9 << 20}[kind]
		d.NodeList.Nodes = []*sbom.Node{{Id: "a", Description: strings.Repeat("0123456789abcdef", sz/16)}}
		d.NodeList.RootElements = []string{"a"}
	case "many-20000-nodes":
		d.Metadata.Name = kind
		for i := 0; i < 20000; i++ {
			d.NodeList.Nodes = append(d.NodeList.Nodes, &sbom.Node{Id: fmt.Sprintf("n%05d", i), Name: "node with an ordinary name", Version: "1.2.3", Hashes: map[int32]string{3: "aabbccddeeff00112233445566778899"}})
		}
		d.NodeList.RootElements = []string{"n00000"}
	case "d3":
		d.Metadata.Name = "three"
		d.NodeList.Nodes = []*sbom.Node{{Id: "a"}, {Id: "b"}, {Id: "c", Description: strings.Repeat("long description ", 20)}}
		d.NodeList.Edges = []*sbom.Edge{{From: "a", Type: sbom.Edge_dependsOn, To: []string{"b", "c"}}}
		d.NodeList.RootElements = []string{"a"}
	}
	return d
}

var idAlphabet = []string{"a", "b", "../x", "/abs/p", "a/b", "é✓", strings.Repeat("z", 300), ""}

func idLabel(id string) string {
	if len(id) > 20 {
		return fmt.Sprintf("%s…(%d)", id[:5], len(id))
	}
	return fmt.Sprintf("%q", id)
}

// sandbox ---------------------------------------------------------------------

func scratchRoot() string {
	if d := os.Getenv("MCVERIF_SCRATCH"); d != "" {
		return d
	}
	return os.TempDir()
}

// listTree lists every path under root (relative), files with size.
func listTree(root string) []string {
	var out []string
	_ = filepath.Walk(root, func(p string, info os.FileInfo, err error) error {
		if err != nil || p == root {
			return nil
		}
		rel, _ := filepath.Rel(root, p)
		if info.IsDir() {
			out = append(out, rel+"/")
		} else {
			out = append(out, fmt.Sprintf("%s (%d bytes)", rel, info.Size()))
		}
		return nil
	})
	sort.Strings(out)
	return out
}

func equalDocs(a, b *sbom.Document) bool { return a != nil && b != nil && proto.Equal(a, b) }

func stepsString(log []vfs.Step) string {
	var l []string
	for i, s := range log {
		x := fmt.Sprintf("%d:%s", i, s.Kind)
		if s.Kind == "write" {
			x += fmt.Sprintf("(%dB)", s.Bytes)
		}
		l = append(l, x)
	}
	return strings.Join(l, " ")
}
