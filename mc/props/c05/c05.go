// Package c05: parsed graphs are well-formed, deterministic and layout-independent.
package c05

import (
	"bytes"
	"encoding/json"
	"fmt"
	"os"
	"os/exec"
	"regexp"
	"sort"
	"strings"
	"time"

	"github.com/protobom/protobom/pkg/formats"
	"github.com/protobom/protobom/pkg/reader"
	"github.com/protobom/protobom/pkg/sbom"
	"google.golang.org/protobuf/proto"

	"mcverif/engine"
	"mcverif/gen"
	"mcverif/jsonfault"
	"mcverif/rw"
)

var Spec = engine.Spec{
	ID: "C05", Run: Run, MapOrders: true, QuickBud: 6 * time.Minute, ThorBud: 30 * time.Minute,
	Technique: "explicit enumeration of generated schema-valid input JSON (CycloneDX 1.3-1.5 component forests with duplicate, missing and nested references; SPDX 2.3 element/relationship combinations incl. NONE/NOASSERTION/DOCUMENT endpoints) and reduced real SBOMs, each parsed under every layout of a finite re-encoding group (whitespace x member-order permutations x \\uXXXX escapes), twice, auto-detected and with explicit format; closure/uniqueness invariants on every result and snapshot equality across the group; exhaustive seed strings for the identifier generator",
	Rule:      "case = (generated input, layout) group or one seed tuple; distinct state = input text; invariants: ids non-empty and as unique as the input's, closure when the input's references resolve, generated ids identifier-safe and reproducible, equal canonical snapshot across parses/layouts/detection",
	Assume: []string{
		"member-order permutations: all permutations for objects of <=4 members, otherwise identity, reverse, every rotation and every move-to-front / move-to-end",
		"documents without SPDX namespace get a random document id (outside the deterministic clauses); generated inputs always carry a namespace",
	},
}

var idSafe = regexp.MustCompile(`^[A-Za-z0-9.-]+$`)

// snapshot of a parsed document for equality across parses/layouts.
func docKey(d *sbom.Document) string {
	c := proto.Clone(d).(*sbom.Document)
	if c.Metadata != nil {
		c.Metadata.Date = nil
	}
	return gen.Canon(c, nil)
}

// invariants on one parsed document. refsResolve: every reference of the input resolves inside the input.
func invariants(d *sbom.Document, inputIDs map[string]int, refsResolve bool) *engine.Violation {
	seen := map[string]int{}
	for _, n := range d.NodeList.Nodes {
		if n.Id == "" {
			return engine.Violate("empty-id", "", "a parsed node has an empty identifier (name %q)", n.Name)
		}
		seen[n.Id]++
	}
	for id, k := range seen {
		if k > 1 && inputIDs[id] < 2 {
			return engine.Violate("duplicate-id", "", "identifier %q occurs %d times in the parsed graph but %d times in the input", id, k, inputIDs[id])
		}
		if strings.HasPrefix(id, "protobom-") && !idSafe.MatchString(id) {
			return engine.Violate("generated-id-unsafe", "", "generated identifier %q contains characters outside [A-Za-z0-9.-]", id)
		}
	}
	if refsResolve {
		for _, r := range d.NodeList.RootElements {
			if seen[r] == 0 {
				trig := endpointTrigger(r)
				if trig == "" {
					trig = "root"
				}
				return engine.Violate("closure", trig, "root element %q names no parsed node", r)
			}
		}
		for _, e := range d.NodeList.Edges {
			if seen[e.From] == 0 {
				return engine.Violate("closure", endpointTrigger(e.From), "edge source %q (%s) names no parsed node", e.From, e.Type)
			}
			for _, t := range e.To {
				if seen[t] == 0 {
					return engine.Violate("closure", endpointTrigger(t), "edge target %q of %s -%s-> names no parsed node", t, e.From, e.Type)
				}
			}
		}
	}
	return nil
}

func endpointTrigger(id string) string {
	switch id {
	case "":
		return "special-relationship-target"
	case "DOCUMENT":
		return "document-endpoint"
	}
	return ""
}

// layouts ---------------------------------------------------------------------

func orders(n int) [][]int {
	var out [][]int
	if n <= 4 {
		gen.Permutations(n, func(p []int) { out = append(out, append([]int{}, p...)) })
		return out
	}
	id := make([]int, n)
	for i := range id {
		id[i] = i
	}
	add := func(p []int) {
		for _, q := range out {
			same := true
			for i := range q {
				if q[i] != p[i] {
					same = false
				}
			}
			if same {
				return
			}
		}
		out = append(out, p)
	}
	add(append([]int{}, id...))
	rev := make([]int, n)
	for i := range rev {
		rev[i] = n - 1 - i
	}
	add(rev)
	for r := 1; r < n; r++ {
		p := make([]int, n)
		for i := range p {
			p[i] = (i + r) % n
		}
		add(p)
	}
	for k := 0; k < n; k++ {
		front := []int{k}
		end := []int{}
		for i := 0; i < n; i++ {
			if i != k {
				front = append(front, i)
				end = append(end, i)
			}
		}
		add(front)
		add(append(end, k))
	}
	return out
}

func PermuteObj(n *jsonfault.Node, p []int) {
	keys := make([]string, len(p))
	elems := make([]*jsonfault.Node, len(p))
	for i, j := range p {
		keys[i], elems[i] = n.Keys[j], n.Elems[j]
	}
	n.Keys, n.Elems = keys, elems
}

func EscapeAll(n *jsonfault.Node) {
	esc := func(s string) string {
		var sb strings.Builder
		for _, r := range s {
			if r > 0xffff {
				r1, r2 := utf16Surrogates(r)
				fmt.Fprintf(&sb, `\u%04x\u%04x`, r1, r2)
			} else {
				fmt.Fprintf(&sb, `\u%04x`, r)
			}
		}
		return sb.String()
	}
	switch n.Kind {
	case jsonfault.Scalar:
		if strings.HasPrefix(n.Raw, `"`) {
			var s string
			if json.Unmarshal([]byte(n.Raw), &s) == nil {
				n.Raw = `"` + esc(s) + `"`
			}
		}
	default:
		for _, e := range n.Elems {
			EscapeAll(e)
		}
	}
}

func utf16Surrogates(r rune) (rune, rune) {
	r -= 0x10000
	return 0xd800 + (r>>10)&0x3ff, 0xdc00 + r&0x3ff
}

// renderKeysEscaped renders with object keys escaped too.
func Render(n *jsonfault.Node, indent bool, escapeKeys bool) string {
	var sb strings.Builder
	var rec func(n *jsonfault.Node, depth int)
	nl := func(depth int) {
		if indent {
			sb.WriteString("\n" + strings.Repeat("\t", depth))
		}
	}
	rec = func(n *jsonfault.Node, depth int) {
		switch n.Kind {
		case jsonfault.Scalar:
			sb.WriteString(n.Raw)
		case jsonfault.Object:
			sb.WriteString("{")
			for i, k := range n.Keys {
				if i > 0 {
					sb.WriteString(",")
				}
				nl(depth + 1)
				if escapeKeys {
					sb.WriteString(`"`)
					for _, r := range k {
						fmt.Fprintf(&sb, `\u%04x`, r)
					}
					sb.WriteString(`"`)
				} else {
					kb, _ := json.Marshal(k)
					sb.Write(kb)
				}
				sb.WriteString(":")
				if indent {
					sb.WriteString(" ")
				}
				rec(n.Elems[i], depth+1)
			}
			nl(depth)
			sb.WriteString("}")
		case jsonfault.Array:
			sb.WriteString("[")
			for i, e := range n.Elems {
				if i > 0 {
					sb.WriteString(",")
				}
				nl(depth + 1)
				rec(e, depth+1)
			}
			nl(depth)
			sb.WriteString("]")
		}
	}
	rec(n, 0)
	if indent {
		sb.WriteString("\n")
	}
	return sb.String()
}

// spaced renders with a space on both sides of every structural character.
func spaced(n *jsonfault.Node) string {
	var sb strings.Builder
	var rec func(n *jsonfault.Node)
	rec = func(n *jsonfault.Node) {
		switch n.Kind {
		case jsonfault.Scalar:
			sb.WriteString(n.Raw)
		case jsonfault.Object:
			sb.WriteString(" { ")
			for i, k := range n.Keys {
				if i > 0 {
					sb.WriteString(" , ")
				}
				kb, _ := json.Marshal(k)
				sb.Write(kb)
				sb.WriteString(" : ")
				rec(n.Elems[i])
			}
			sb.WriteString(" } ")
		case jsonfault.Array:
			sb.WriteString(" [ ")
			for i, e := range n.Elems {
				if i > 0 {
					sb.WriteString(" , ")
				}
				rec(e)
			}
			sb.WriteString(" ] ")
		}
	}
	rec(n)
	return sb.String()
}

type layout struct {
	Name string
	Text string
}

// layoutsOf enumerates the re-encoding group of a document. firstPath addresses the first component/package (may be nil).
func layoutsOf(root *jsonfault.Node, firstKeyPath []string, full bool) []layout {
	var out []layout
	topOrders := orders(len(root.Keys))
	if !full && len(topOrders) > 6 {
		topOrders = topOrders[:6]
	}
	find := func(r *jsonfault.Node) *jsonfault.Node {
		cur := r
		for _, k := range firstKeyPath {
			var nx *jsonfault.Node
			if cur.Kind == jsonfault.Array {
				if len(cur.Elems) == 0 {
					return nil
				}
				nx = cur.Elems[0]
				if k != "[0]" {
					return nil
				}
			} else {
				for i, kk := range cur.Keys {
					if kk == k {
						nx = cur.Elems[i]
					}
				}
			}
			if nx == nil {
				return nil
			}
			cur = nx
		}
		if cur.Kind != jsonfault.Object {
			return nil
		}
		return cur
	}
	for oi, to := range topOrders {
		c := root.Clone()
		PermuteObj(c, to)
		out = append(out, layout{fmt.Sprintf("top-order-%d compact", oi), Render(c, false, false)})
		if oi == 0 || full {
			out = append(out, layout{fmt.Sprintf("top-order-%d indented", oi), Render(c, true, false)})
		}
		if oi <= 1 {
			e := c.Clone()
			EscapeAll(e)
			out = append(out, layout{fmt.Sprintf("top-order-%d escaped-values", oi), Render(e, false, false)})
			out = append(out, layout{fmt.Sprintf("top-order-%d escaped-values-and-keys", oi), Render(e, true, true)})
		}
	}
	// insignificant whitespace around the value, CR LF line ends
	compact := Render(root, false, false)
	indented := Render(root, true, false)
	out = append(out,
		layout{"leading-whitespace", " \n\t\r" + compact},
		layout{"trailing-whitespace", compact + " \n\n\t "},
		layout{"leading-newline indented", "\n" + indented},
		layout{"crlf indented", strings.ReplaceAll(indented, "\n", "\r\n")},
		layout{"spaces-around-separators", spaced(root)},
	)
	if first := find(root); first != nil {
		fo := orders(len(first.Keys))
		if !full && len(fo) > 6 {
			fo = fo[:6]
		}
		for oi, o := range fo[1:] {
			c := root.Clone()
			PermuteObj(find(c), o)
			out = append(out, layout{fmt.Sprintf("first-element-order-%d", oi+1), Render(c, false, false)})
		}
	}
	return out
}

// judge parses every layout (twice, auto and explicit) and applies all oracles.
func judge(t *engine.T, ls []layout, explicit formats.Format, inputIDs map[string]int, refsResolve bool, hasEscapableIDs bool, wantNodes ...int) *engine.Violation {
	base := ""
	baseErr := false
	for li, l := range ls {
		d1, e1 := rw.Read([]byte(l.Text))
		d2, e2 := rw.Read([]byte(l.Text))
		d3, e3 := rw.ReadAs([]byte(l.Text), explicit)
		t.Transitions(3)
		if (e1 == nil) != (e2 == nil) || (e1 == nil) != (e3 == nil) {
			return engine.Violate("parse-determinism", "", "layout %s: first parse err=%v, second err=%v, explicit-format err=%v", l.Name, e1, e2, e3)
		}
		if li == 0 {
			baseErr = e1 != nil
		} else if baseErr != (e1 != nil) {
			return engine.Violate("layout-dependence", layoutTrigger(l.Name, hasEscapableIDs), "layout %s parses with err=%v but layout %s with err=%v", l.Name, e1, ls[0].Name, baseErr)
		}
		if e1 != nil {
			continue
		}
		if v := invariants(d1, inputIDs, refsResolve); v != nil {
			v.Detail = "layout " + l.Name + ": " + v.Detail
			return v
		}
		if len(wantNodes) == 1 && len(d1.NodeList.Nodes) != wantNodes[0] {
			return engine.Violate("node-count", "", "layout %s: the input has %d distinct elements (distinct references + reference-less components, each of which gets its own generated identifier) but %d nodes were parsed", l.Name, wantNodes[0], len(d1.NodeList.Nodes))
		}
		k1, k2, k3 := docKey(d1), docKey(d2), docKey(d3)
		t.Validated(3)
		t.Observe(k1) // the parsed graph must not depend on the map iteration order
		if k1 != k2 {
			return engine.Violate("parse-determinism", "", "layout %s: two parses of the same bytes differ: %s", l.Name, gen.SnapDiff(k1, k2))
		}
		if k1 != k3 {
			return engine.Violate("detection-vs-explicit", "", "layout %s: auto-detected parse differs from parse with explicit format %s: %s", l.Name, explicit, gen.SnapDiff(k1, k3))
		}
		if base == "" {
			base = k1
		} else if k1 != base {
			return engine.Violate("layout-dependence", layoutTrigger(l.Name, hasEscapableIDs), "layout %s yields a different graph than layout %s: %s", l.Name, ls[0].Name, gen.SnapDiff(base, k1))
		}
	}
	if baseErr {
		t.Outcome("unparsable-in-every-layout")
	} else {
		t.Outcome("parsed")
	}
	return nil
}

func layoutTrigger(name string, spdx bool) string {
	if spdx && strings.Contains(name, "escaped") {
		return "escaped-spdxid"
	}
	return ""
}

func Run(c *engine.Ctx) {
	rw.SilenceStdout()
	cdxInputs(c)
	spdxInputs(c)
	spdxReferenceGraphs(c)
	realInputs(c)
	parseHistory(c)
	identifiers(c)
}

// parseHistory: what a parse returns must not depend on what was parsed before (identifier counters, caches, pooled
// decoders): all ordered pairs (thorough: triples) of representative inputs; the last result is compared with the
// result of the same input parsed first in a fresh process.
func historyInputs() []string {
	var ins []string
	for _, cs := range [][]comp{
		{{Ref: "", Parent: -1}, {Ref: "", Parent: 0}, {Ref: "", Parent: -1}},
		{{Ref: "a", Parent: -1}, {Ref: "", Parent: 0}},
		{{Ref: "a", Parent: -1}, {Ref: "a", Parent: -1}, {Ref: "b", Parent: 0}},
		{{Ref: "", Parent: -1, Purl: "pkg:npm/left-pad@1.3.0"}},
	} {
		for meta := 0; meta < 3; meta += 2 {
			root, _ := cdxDoc("1.5", meta, cs)
			ins = append(ins, Render(root, false, false))
		}
	}
	for _, rl := range [][]spdxRel{nil, {{"a", "CONTAINS", "b"}}, {{"DOCUMENT", "DESCRIBES", "a"}, {"b", "CONTAINS", "NONE"}}} {
		root, _, _ := spdxDoc([]spdxEl{{"a", false}, {"b", true}}, rl, []string{"a"}, false)
		ins = append(ins, Render(root, false, false))
	}
	ins = append(ins, `{"bomFormat":"CycloneDX","specVersion":"1.4","version":1}`, `{"bomFormat":"CycloneDX","specVersion":"1.5","components":[{"type":"library"`, `not json`)
	return ins
}

func parseKey(in string) string {
	d, err := rw.Read([]byte(in))
	if err != nil {
		return "error"
	}
	return docKey(d)
}

// Aux prints the parse result of history input #n as the first call of a fresh process.
func Aux(args []string) int {
	rw.SilenceStdout()
	var n int
	fmt.Sscan(args[0], &n)
	fmt.Fprint(os.Stderr, parseKey(historyInputs()[n]))
	return 0
}

func parseHistory(c *engine.Ctx) {
	c.Group("parse-history")
	ins := historyInputs()
	depth := 2
	if c.Thorough() {
		depth = 3
	}
	c.Bound("parse-history", fmt.Sprintf("all sequences of %d parses over %d representative inputs (reference-less components, duplicate references, purl-described components, SPDX with special endpoints, truncated and empty documents); last result = result as first parse of a fresh process", depth, len(ins)))
	refs := map[int]string{}
	self, _ := os.Executable()
	var rec func(seq []int)
	rec = func(seq []int) {
		if len(seq) == depth {
			s := append([]int{}, seq...)
			c.Case(func() any { return map[string]any{"input-indices": s} }, func(t *engine.T) *engine.Violation {
				last := s[len(s)-1]
				if _, ok := refs[last]; !ok {
					out, err := exec.Command(self, "--aux", "c05ref", fmt.Sprint(last)).CombinedOutput()
					if err != nil {
						return engine.Violate("harness", "", "reference process failed: %v %s", err, out)
					}
					refs[last] = string(out)
				}
				var got string
				for _, i := range s {
					got = parseKey(ins[i])
					t.Transitions(1)
				}
				t.Validated(1)
				if got != refs[last] {
					return engine.Violate("history-dependent", "", "after %d other parse(s) input #%d parses differently than as first parse of a fresh process: %s", len(s)-1, last, gen.SnapDiff(refs[last], got))
				}
				// the same history on ONE reader value through its plain entry point (the reader's own options serve every
				// call): whatever a parse leaves on the reader must not steer the next one
				rd := reader.New()
				for _, i := range s {
					d, err := rd.ParseStream(bytes.NewReader([]byte(ins[i])))
					got = "error"
					if err == nil {
						got = docKey(d)
					}
					t.Transitions(1)
				}
				t.Validated(1)
				if got != refs[last] {
					return engine.Violate("history-dependent", "one-reader", "after %d other parse(s) on the same Reader value, ParseStream of input #%d differs from its first parse in a fresh process: %s", len(s)-1, last, gen.SnapDiff(refs[last], got))
				}
				t.State(fmt.Sprint("phist", s))
				t.Outcome("parse-history-ok")
				return nil
			})
			return
		}
		for i := range ins {
			rec(append(seq, i))
		}
	}
	rec(nil)
}

// generated CycloneDX inputs -------------------------------------------------------

type comp struct {
	Ref    string // "" = absent
	Parent int    // -1 top level, else index of an earlier component
	Purl   string // "" = absent
}

func cdxDoc(version string, meta int, comps []comp) (*jsonfault.Node, map[string]int) {
	ids := map[string]int{}
	obj := func(keys []string, elems []*jsonfault.Node) *jsonfault.Node {
		return &jsonfault.Node{Kind: jsonfault.Object, Keys: keys, Elems: elems}
	}
	str := func(s string) *jsonfault.Node { b, _ := json.Marshal(s); return &jsonfault.Node{Raw: string(b)} }
	mk := func(ref, name string) *jsonfault.Node {
		o := obj([]string{"type", "name", "version"}, []*jsonfault.Node{str("library"), str(name), str("1")})
		if ref != "" {
			o.Keys = append([]string{"bom-ref"}, o.Keys...)
			o.Elems = append([]*jsonfault.Node{str(ref)}, o.Elems...)
			ids[ref]++
		}
		return o
	}
	nodes := make([]*jsonfault.Node, len(comps))
	for i, cdef := range comps {
		nodes[i] = mk(cdef.Ref, fmt.Sprintf("c%d", i))
		if cdef.Purl != "" {
			nodes[i].Keys = append(nodes[i].Keys, "purl")
			nodes[i].Elems = append(nodes[i].Elems, str(cdef.Purl))
		}
	}
	top := &jsonfault.Node{Kind: jsonfault.Array}
	for i, cdef := range comps {
		if cdef.Parent < 0 {
			top.Elems = append(top.Elems, nodes[i])
			continue
		}
		p := nodes[cdef.Parent]
		var sub *jsonfault.Node
		for k, kk := range p.Keys {
			if kk == "components" {
				sub = p.Elems[k]
			}
		}
		if sub == nil {
			sub = &jsonfault.Node{Kind: jsonfault.Array}
			p.Keys = append(p.Keys, "components")
			p.Elems = append(p.Elems, sub)
		}
		sub.Elems = append(sub.Elems, nodes[i])
	}
	root := obj([]string{"bomFormat", "specVersion", "serialNumber", "version"}, []*jsonfault.Node{str("CycloneDX"), str(version), str("urn:uuid:3e671687-395b-41f5-a30f-a58921a69b79"), {Raw: "1"}})
	switch meta {
	case 1:
		root.Keys = append(root.Keys, "metadata")
		root.Elems = append(root.Elems, obj([]string{"component"}, []*jsonfault.Node{mk("a", "main")}))
	case 2:
		root.Keys = append(root.Keys, "metadata")
		root.Elems = append(root.Elems, obj([]string{"component"}, []*jsonfault.Node{mk("", "main")}))
	}
	root.Keys = append(root.Keys, "components")
	root.Elems = append(root.Elems, top)
	return root, ids
}

func depthOf(comps []comp, i int) int {
	d := 1
	for comps[i].Parent >= 0 {
		i = comps[i].Parent
		d++
	}
	return d
}

func cdxInputs(c *engine.Ctx) {
	maxN := 3
	if c.Thorough() {
		maxN = 4
	}
	cdxForests(c, "cdx-generated", []string{"", "a", "b"}, maxN)
	// references that coincide under trimming or case folding are different references
	cdxForests(c, "cdx-near-references", []string{"a", "a ", " a", "A"}, maxN-1)
	cdxReferenceCompositions(c)
}

// cdxReferenceCompositions: component references built from the structural tokens of the library's own sources (the
// separators, prefixes and words it glues into keys or searches identifiers for). Each reference is carried by a
// component that has a nested component of its own, inside the subtree of the first top-level component (the fragment
// the parser merges by a different route than the later ones) and again as a later top-level component.
func cdxReferenceCompositions(c *engine.Ctx) {
	c.Group("cdx-reference-compositions")
	n := 2
	if c.Thorough() {
		n = 3
	}
	// references in the library's own generated-identifier namespace are left out: the invariants treat them as generated
	ids := gen.TokenCompositions(n, func(s string) bool {
		return strings.TrimSpace(s) != "" && s != "root-0" && !strings.HasPrefix(s, "protobom-")
	})
	const per = 60
	c.Bound("cdx-reference-compositions", fmt.Sprintf("%d references = every concatenation of <=%d of the %d structural tokens of the library's sources; %d per document, each on a component with a nested component, under the first top-level component and as later top-level components x {1.4, 1.5}", len(ids), n, len(gen.StructuralTokens()), per))
	if gen.LiteralsUnavailable {
		c.Cap("source-vocabulary-unavailable")
		return
	}
	for lo := 0; lo < len(ids); lo += per {
		hi := lo + per
		if hi > len(ids) {
			hi = len(ids)
		}
		batch := ids[lo:hi]
		for _, ver := range []string{"1.4", "1.5"} {
			for _, nested := range []bool{true, false} {
				ver, nested, lo := ver, nested, lo
				c.Case(func() any {
					return map[string]any{"version": ver, "references": batch, "inside-the-first-top-level-component": nested}
				}, func(t *engine.T) *engine.Violation {
					comps := []comp{{Ref: "root-0", Parent: -1}}
					for _, id := range batch {
						par := -1
						if nested {
							par = 0
						}
						comps = append(comps, comp{Ref: id, Parent: par})
						comps = append(comps, comp{Ref: id + "-part", Parent: len(comps) - 1})
					}
					root, idc := cdxDoc(ver, 0, comps)
					ls := layoutsOf(root, []string{"components", "[0]"}, false)[:1]
					f := map[string]formats.Format{"1.4": formats.CDX14JSON, "1.5": formats.CDX15JSON}[ver]
					if v := judge(t, ls, f, idc, true, false, len(idc)); v != nil {
						return v
					}
					t.State(fmt.Sprint("refc", ver, nested, lo))
					return nil
				})
			}
		}
	}
}

func cdxForests(c *engine.Ctx, group string, refs []string, maxN int) {
	c.Group(group)
	vers := []string{"1.3", "1.4", "1.5"}
	c.Bound(group, fmt.Sprintf("every component forest with <=%d components (nesting <=3), refs over %q (\"\" = absent; duplicates between siblings, parent/child, root/child), metadata component {absent, ref a, no ref} x {1.3,1.4,1.5} x all layouts", maxN, refs))
	var rec func(cur []comp)
	rec = func(cur []comp) {
		if c.Expired() {
			return
		}
		comps := append([]comp{}, cur...)
		for meta := 0; meta < 3; meta++ {
			for _, ver := range vers {
				meta, ver := meta, ver
				c.Case(func() any {
					return map[string]any{"version": ver, "metadata-component": []string{"absent", "ref a", "no ref"}[meta], "components": comps}
				}, func(t *engine.T) *engine.Violation {
					root, ids := cdxDoc(ver, meta, comps)
					ls := layoutsOf(root, []string{"components", "[0]"}, c.Thorough())
					f := map[string]formats.Format{"1.3": formats.CDX13JSON, "1.4": formats.CDX14JSON, "1.5": formats.CDX15JSON}[ver]
					want := len(ids)
					for _, cd := range comps {
						if cd.Ref == "" {
							want++
						}
					}
					if meta == 2 {
						want++
					}
					if v := judge(t, ls, f, ids, true, false, want); v != nil {
						return v
					}
					t.State(ls[0].Text)
					return nil
				})
			}
		}
		if len(cur) == maxN {
			return
		}
		for p := -1; p < len(cur); p++ {
			if p >= 0 && depthOf(cur, p) >= 3 {
				continue
			}
			for _, r := range refs {
				rec(append(append([]comp{}, cur...), comp{Ref: r, Parent: p}))
			}
			// reference-less components described by a purl: the same one twice, near-identical ones
			for _, pu := range []string{"pkg:npm/left-pad@1.3.0", "pkg:npm/left pad@1.3.0"} {
				rec(append(append([]comp{}, cur...), comp{Ref: "", Parent: p, Purl: pu}))
			}
		}
	}
	rec(nil)
}

// generated SPDX inputs -------------------------------------------------------------

type spdxEl struct {
	ID   string
	File bool
}
type spdxRel struct{ A, T, B string }

func spdxDoc(els []spdxEl, rels []spdxRel, describes []string, hasFiles bool) (*jsonfault.Node, map[string]int, bool) {
	ids := map[string]int{}
	str := func(s string) *jsonfault.Node { b, _ := json.Marshal(s); return &jsonfault.Node{Raw: string(b)} }
	obj := func(keys []string, elems []*jsonfault.Node) *jsonfault.Node {
		return &jsonfault.Node{Kind: jsonfault.Object, Keys: keys, Elems: elems}
	}
	ref := func(id string) string {
		if id == "NONE" || id == "NOASSERTION" {
			return id
		}
		return "SPDXRef-" + id
	}
	pk, fl := &jsonfault.Node{Kind: jsonfault.Array}, &jsonfault.Node{Kind: jsonfault.Array}
	firstFile := ""
	for i, e := range els {
		ids[e.ID]++
		if e.File {
			if firstFile == "" {
				firstFile = e.ID
			}
			fl.Elems = append(fl.Elems, obj([]string{"fileName", "SPDXID", "checksums", "copyrightText"}, []*jsonfault.Node{str(fmt.Sprintf("./f%d", i)), str(ref(e.ID)), {Kind: jsonfault.Array, Elems: []*jsonfault.Node{obj([]string{"algorithm", "checksumValue"}, []*jsonfault.Node{str("SHA1"), str("aa")})}}, str("NONE")}))
		} else {
			p := obj([]string{"name", "SPDXID", "downloadLocation", "versionInfo"}, []*jsonfault.Node{str(fmt.Sprintf("p%d", i)), str(ref(e.ID)), str("NOASSERTION"), str("1")})
			pk.Elems = append(pk.Elems, p)
		}
	}
	if hasFiles && firstFile != "" && len(pk.Elems) > 0 {
		p := pk.Elems[0]
		p.Keys = append(p.Keys, "hasFiles")
		p.Elems = append(p.Elems, &jsonfault.Node{Kind: jsonfault.Array, Elems: []*jsonfault.Node{str(ref(firstFile))}})
	}
	resolve := true
	ra := &jsonfault.Node{Kind: jsonfault.Array}
	for _, r := range rels {
		ra.Elems = append(ra.Elems, obj([]string{"spdxElementId", "relationshipType", "relatedSpdxElement"}, []*jsonfault.Node{str(ref(r.A)), str(r.T), str(ref(r.B))}))
		for _, x := range []string{r.A, r.B} {
			if x != "DOCUMENT" && x != "NONE" && x != "NOASSERTION" && ids[x] == 0 {
				resolve = false
			}
		}
	}
	da := &jsonfault.Node{Kind: jsonfault.Array}
	for _, d := range describes {
		da.Elems = append(da.Elems, str(ref(d)))
		if ids[d] == 0 {
			resolve = false
		}
	}
	root := obj([]string{"spdxVersion", "dataLicense", "SPDXID", "name", "documentNamespace", "creationInfo"},
		[]*jsonfault.Node{str("SPDX-2.3"), str("CC0-1.0"), str("SPDXRef-DOCUMENT"), str("gen"), str("https://example.com/ns/gen"),
			obj([]string{"creators", "created"}, []*jsonfault.Node{{Kind: jsonfault.Array, Elems: []*jsonfault.Node{str("Tool: t")}}, str("2023-11-15T20:34:58Z")})})
	add := func(k string, n *jsonfault.Node) {
		if len(n.Elems) > 0 {
			root.Keys = append(root.Keys, k)
			root.Elems = append(root.Elems, n)
		}
	}
	add("documentDescribes", da)
	add("packages", pk)
	add("files", fl)
	add("relationships", ra)
	return root, ids, resolve
}

func spdxInputs(c *engine.Ctx) {
	c.Group("spdx-generated")
	elAlpha := []spdxEl{{"a", false}, {"b", false}, {"a", true}, {"b", true}}
	var relAlpha []spdxRel
	for _, a := range []string{"a", "b", "x", "DOCUMENT"} {
		for _, ty := range []string{"CONTAINS", "DESCRIBES", "DESCRIBED_BY"} {
			for _, b := range []string{"a", "b", "x", "DOCUMENT", "NONE", "NOASSERTION"} {
				relAlpha = append(relAlpha, spdxRel{a, ty, b})
			}
		}
	}
	maxEl, maxRel := 2, 1
	if c.Thorough() {
		maxEl, maxRel = 3, 2
	}
	c.Bound("spdx-generated", fmt.Sprintf("element sequences of <=%d over {package a, package b, file a, file b} (duplicates included) x relationship lists of <=%d over %d candidates (endpoints a,b,dangling x,DOCUMENT,NONE,NOASSERTION; 3 types) x documentDescribes subsets x hasFiles x all layouts", maxEl, maxRel, len(relAlpha)))
	var els [][]spdxEl
	var recE func(cur []spdxEl)
	recE = func(cur []spdxEl) {
		els = append(els, append([]spdxEl{}, cur...))
		if len(cur) == maxEl {
			return
		}
		for _, e := range elAlpha {
			recE(append(cur, e))
		}
	}
	recE(nil)
	var rls [][]spdxRel
	var recR func(cur []spdxRel)
	recR = func(cur []spdxRel) {
		rls = append(rls, append([]spdxRel{}, cur...))
		if len(cur) == maxRel {
			return
		}
		for _, r := range relAlpha {
			recR(append(cur, r))
		}
	}
	recR(nil)
	for _, el := range els {
		if c.Expired() {
			return
		}
		for _, rl := range rls {
			for _, desc := range [][]string{nil, {"a"}, {"a", "b"}} {
				for _, hf := range []bool{false, true} {
					if hf && len(rl) > 0 {
						continue
					}
					el, rl, desc, hf := el, rl, desc, hf
					c.Case(func() any {
						return map[string]any{"elements": el, "relationships": rl, "documentDescribes": desc, "hasFiles": hf}
					}, func(t *engine.T) *engine.Violation {
						root, ids, resolve := spdxDoc(el, rl, desc, hf)
						full := c.Thorough() && len(rl) <= 1
						ls := layoutsOf(root, []string{"packages", "[0]"}, full)
						if v := judge(t, ls, formats.SPDX23JSON, ids, resolve, true); v != nil {
							return v
						}
						t.State(ls[0].Text)
						return nil
					})
				}
			}
		}
	}
}

// reduced real files ------------------------------------------------------------------

func repoDir() string {
	if d := os.Getenv("VERIF_REPO"); d != "" {
		return d
	}
	return "/repo"
}

func realInputs(c *engine.Ctx) {
	c.Group("real-files")
	files := []struct {
		path string
		f    formats.Format
		fam  string
	}{
		{repoDir() + "/test/conformance/testdata/cyclonedx/1.4/json/bom-1.4.json", formats.CDX14JSON, "cdx"},
		{repoDir() + "/test/conformance/testdata/cyclonedx/1.5/json/bom-1.5.json", formats.CDX15JSON, "cdx"},
		{repoDir() + "/test/conformance/testdata/spdx/2.3/json/curl.spdx.json", formats.SPDX23JSON, "spdx"},
		{repoDir() + "/test/conformance/testdata/spdx/2.3/json/bom-v0.4.1_cirros-0.4.0.spdx.json", formats.SPDX23JSON, "spdx"},
		{repoDir() + "/examples/vt.spdx.json", formats.SPDX23JSON, "spdx"},
	}
	for _, rf := range files {
		rf := rf
		c.Case(func() any { return map[string]string{"file": rf.path} }, func(t *engine.T) *engine.Violation {
			raw, err := os.ReadFile(rf.path)
			if err != nil {
				t.Outcome("real-file-missing")
				return nil
			}
			root, err := jsonfault.Parse(raw)
			if err != nil {
				return engine.Violate("harness", "", "cannot parse %s: %v", rf.path, err)
			}
			first := []string{"components", "[0]"}
			if rf.fam == "spdx" {
				first = []string{"packages", "[0]"}
			}
			ls := layoutsOf(root, first, false)
			// uniqueness / closure of real files: ids as unique as the input's is judged with unknown multiplicities -> only layout and determinism clauses
			ids := map[string]int{}
			if v := judgeReal(t, ls, rf.f, ids); v != nil {
				return v
			}
			t.State("real:" + rf.path)
			return nil
		})
	}
}

func judgeReal(t *engine.T, ls []layout, f formats.Format, ids map[string]int) *engine.Violation {
	base := ""
	for _, l := range ls {
		d1, e1 := rw.Read([]byte(l.Text))
		d3, e3 := rw.ReadAs([]byte(l.Text), f)
		t.Transitions(2)
		if e1 != nil || e3 != nil {
			return engine.Violate("layout-dependence", layoutTrigger(l.Name, strings.Contains(string(f), "spdx")), "layout %s of a real file does not parse: %v %v", l.Name, e1, e3)
		}
		for _, n := range d1.NodeList.Nodes {
			if n.Id == "" {
				return engine.Violate("empty-id", "", "a parsed node of a real file has an empty identifier")
			}
		}
		k1, k3 := docKey(d1), docKey(d3)
		t.Validated(2)
		if k1 != k3 {
			return engine.Violate("detection-vs-explicit", "", "layout %s: auto-detected parse differs from explicit-format parse", l.Name)
		}
		if base == "" {
			base = k1
		} else if base != k1 {
			return engine.Violate("layout-dependence", layoutTrigger(l.Name, strings.Contains(string(f), "spdx")), "layout %s of a real file yields a different graph: %s", l.Name, gen.SnapDiff(base, k1))
		}
	}
	t.Outcome("real-parsed")
	return nil
}

// identifier generator -------------------------------------------------------------------

func identifiers(c *engine.Ctx) {
	c.Group("node-identifier")
	alpha := []string{"a", "-", "/", ":", " ", "é", "_", "\x00", ".", "Z9"}
	var seeds []string
	var rec func(cur string, n int)
	rec = func(cur string, n int) {
		seeds = append(seeds, cur)
		if n == 3 {
			return
		}
		for _, a := range alpha {
			rec(cur+a, n+1)
		}
	}
	rec("", 0)
	c.Bound("node-identifier", fmt.Sprintf("every seed string of <=3 symbols over %d symbols (%d seeds) alone, after each known prefix, before each known prefix, and in pairs with a fixed second seed; no seed at all", len(alpha), len(seeds)))
	sort.Strings(seeds)
	forms := []func(s string) []string{
		func(s string) []string { return []string{s} },
		func(s string) []string { return []string{"auto", s} },
		func(s string) []string { return []string{"node", s} },
		func(s string) []string { return []string{s, "auto"} },
		func(s string) []string { return []string{s, "node", "auto"} },
		func(s string) []string { return []string{s, "x y"} },
		func(s string) []string { return []string{"auto", "node", s} },
	}
	for _, s := range seeds {
		for fi, form := range forms {
			s, fi, form := s, fi, form
			c.Case(func() any { return map[string]any{"seeds": form(s)} }, func(t *engine.T) *engine.Violation {
				args := form(s)
				id1 := sbom.NewNodeIdentifier(args...)
				id2 := sbom.NewNodeIdentifier(args...)
				t.Transitions(2)
				if id1 == "" {
					return engine.Violate("identifier-empty", "", "NewNodeIdentifier(%q) is empty", args)
				}
				if !idSafe.MatchString(id1) {
					return engine.Violate("identifier-unsafe", "", "NewNodeIdentifier(%q) = %q contains characters outside [A-Za-z0-9.-]", args, id1)
				}
				usable := false
				for _, a := range args {
					if a != "" && a != "auto" && a != "node" {
						usable = true
					}
				}
				if usable && id1 != id2 {
					return engine.Violate("identifier-nondeterministic", "", "NewNodeIdentifier(%q) gave %q then %q", args, id1, id2)
				}
				t.State(fmt.Sprintf("id:%d:%q", fi, s))
				t.Outcome(fmt.Sprintf("identifier usable=%v", usable))
				return nil
			})
		}
	}
	// every code point of the Basic Multilingual Plane (and the first of each supplementary plane) as a seed of its own
	// and after a letter: characters that fold, normalise or classify like ASCII letters and digits without being them
	// are among them. One case per block of 256 code points.
	c.Bound("node-identifier-code-points", "every code point U+0000..U+FFFF (surrogates excluded) and U+10000, U+1F600, U+E0001, U+10FFFF as a seed alone and after the letter a: non-empty, identifier-safe, reproducible")
	for blk := 0; blk < 0x101; blk++ {
		blk := blk
		c.Case(func() any { return map[string]any{"code-points": fmt.Sprintf("U+%04X..U+%04X", blk*256, blk*256+255)} }, func(t *engine.T) *engine.Violation {
			var rs []rune
			if blk == 0x100 {
				rs = []rune{0x10000, 0x1F600, 0xE0001, 0x10FFFF}
			} else {
				for r := rune(blk * 256); r < rune(blk*256+256); r++ {
					if r >= 0xD800 && r <= 0xDFFF {
						continue
					}
					rs = append(rs, r)
				}
			}
			for _, r := range rs {
				for _, seed := range []string{string(r), "a" + string(r)} {
					id1, id2 := sbom.NewNodeIdentifier(seed), sbom.NewNodeIdentifier(seed)
					t.Transitions(2)
					if id1 == "" || !idSafe.MatchString(id1) {
						return engine.Violate("identifier-unsafe", "code-point", "NewNodeIdentifier(%q) (U+%04X) = %q is empty or contains characters outside [A-Za-z0-9.-]", seed, r, id1)
					}
					if id1 != id2 {
						return engine.Violate("identifier-nondeterministic", "code-point", "NewNodeIdentifier(%q) gave %q then %q", seed, id1, id2)
					}
				}
			}
			t.State(fmt.Sprint("cp", blk))
			t.Outcome("identifier code-points ok")
			return nil
		})
	}
	c.Case(func() any { return "no seed" }, func(t *engine.T) *engine.Violation {
		id := sbom.NewNodeIdentifier()
		if id == "" || !idSafe.MatchString(id) {
			return engine.Violate("identifier-unsafe", "", "NewNodeIdentifier() = %q", id)
		}
		return nil
	})
}

// SPDXReferenceGraphs enumerates SPDX 2.3 documents over three elements (packages a and b, file c) with every
// relationship list of <= maxRel entries over {CONTAINS, CONTAINED_BY, DEPENDS_ON, DESCRIBES} x endpoints
// {a, b, c, DOCUMENT} and documentDescribes in {absent, [a]}: cycles of every length, self loops, mutual containment,
// documents without a declared root. Shared with C04 (totality of the parser on reference structures).
func SPDXReferenceGraphs(maxRel int, yield func(desc map[string]any, text string, ids map[string]int, resolve bool)) {
	els := []spdxEl{{"a", false}, {"b", false}, {"c", true}}
	var alpha []spdxRel
	for _, a := range []string{"a", "b", "c", "DOCUMENT"} {
		for _, ty := range []string{"CONTAINS", "CONTAINED_BY", "DEPENDS_ON", "DESCRIBES"} {
			for _, b := range []string{"a", "b", "c"} {
				if a == "DOCUMENT" && ty != "DESCRIBES" {
					continue
				}
				alpha = append(alpha, spdxRel{a, ty, b})
			}
		}
	}
	var rec func(cur []spdxRel)
	rec = func(cur []spdxRel) {
		for _, desc := range [][]string{nil, {"a"}} {
			for _, hf := range []bool{false, true} {
				root, ids, resolve := spdxDoc(els, cur, desc, hf)
				yield(map[string]any{"relationships": append([]spdxRel{}, cur...), "documentDescribes": desc, "hasFiles": hf}, root.String(), ids, resolve)
			}
		}
		if len(cur) == maxRel {
			return
		}
		for _, r := range alpha {
			rec(append(cur, r))
		}
	}
	rec(nil)
}

func spdxReferenceGraphs(c *engine.Ctx) {
	c.Group("spdx-reference-graphs")
	maxRel := 2
	if c.Thorough() {
		maxRel = 3
	}
	c.Bound("spdx-reference-graphs", fmt.Sprintf("packages a, b and file c; every relationship list of <=%d over {CONTAINS, CONTAINED_BY, DEPENDS_ON, DESCRIBES} x endpoints {a,b,c,DOCUMENT} x documentDescribes {absent,[a]} x hasFiles", maxRel))
	SPDXReferenceGraphs(maxRel, func(desc map[string]any, text string, ids map[string]int, resolve bool) {
		if c.Expired() {
			return
		}
		c.Case(func() any { return desc }, func(t *engine.T) *engine.Violation {
			ls := []layout{{Name: "as generated", Text: text}}
			if v := judge(t, ls, formats.SPDX23JSON, ids, resolve, true); v != nil {
				return v
			}
			t.State(text)
			return nil
		})
	})
}
