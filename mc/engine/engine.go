// Package engine is the shared explorer runtime: deterministic case
// enumeration sharded over single-goroutine worker processes, outcome/state
// accounting, violation capture with re-run confirmation, known-finding
// matching, evidence and replay files.
//
// A property implements Run(*Ctx). Run enumerates its whole bounded space in a
// deterministic order; for each case it calls c.Case(desc, fn). The engine
// decides whether this worker executes the case (index mod shards), journals the
// index, runs fn under recover, re-runs a failing case to confirm it, and
// records outcomes. Nothing is sampled: every case of the enumeration is
// executed by exactly one worker.
package engine

import (
	"mcverif/vmap"

	"crypto/sha256"
	"encoding/binary"
	"encoding/hex"
	"encoding/json"
	"fmt"
	"os"
	"runtime/debug"
	"sort"
	"strings"
	"sync/atomic"
	"time"
)

// Violation describes one failed oracle clause on one case.
type Violation struct {
	Clause  string `json:"clause"`            // which clause of the property failed
	Trigger string `json:"trigger,omitempty"` // predicate over the failing input, computed by the property (known-finding key)
	Detail  string `json:"detail"`            // expected vs observed, human readable
	// PreConfirmed > 0: the property confirmed the violation itself (e.g. by re-running the schedule in
	// fresh processes, because a race detector prints a given report once per process); the engine then
	// does not re-run the case in-process.
	PreConfirmed int `json:"-"`
}

type recordedViolation struct {
	Violation
	Group     string          `json:"group"`
	Index     int64           `json:"index"`
	Desc      json.RawMessage `json:"case"`
	Confirmed int             `json:"confirmed"`
}

// Result is what a worker hands to the supervisor.
type Result struct {
	Shard        int                 `json:"shard"`
	Cases        int64               `json:"cases"`       // cases executed by this worker
	Enumerated   int64               `json:"enumerated"`  // cases seen by the enumeration (all shards see all)
	Transitions  int64               `json:"transitions"` // operations applied / executions
	Validated    int64               `json:"validated"`   // reference-model comparisons against the implementation
	States       map[string]struct{} `json:"-"`
	StateList    []string            `json:"states"`
	Outcomes     map[string]int64    `json:"outcomes"`
	Samples      []json.RawMessage   `json:"samples"`
	Violations   []recordedViolation `json:"violations"`
	ViolationsN  int64               `json:"violations_n"`
	Caps         []string            `json:"caps"`
	Bounds       map[string]string   `json:"bounds"`
	Notes        []string            `json:"notes"`
	Groups       map[string]int64    `json:"groups"`
	Selftests    map[string]string   `json:"selftests"`
	NonTrivial   int64               `json:"nontrivial"`
	OrderRuns    int64               `json:"order_runs"` // additional executions under other map iteration orders
	DeadlineHit  bool                `json:"deadline_hit"`
	Replayed     bool                `json:"replayed"`
	ReplayFailed bool                `json:"replay_failed"`
}

// Ctx is handed to a property's Run.
type Ctx struct {
	Prop    string
	Tier    string // quick | thorough
	Shard   int
	NShards int

	// replay mode: execute only (group,index)
	replay      bool
	replayGroup string
	replayIndex int64

	group        string
	index        int64 // index within the group
	res          *Result
	journal      *os.File
	deadline     time.Time
	maxViol      int
	stateCap     int
	progress     int64
	always       bool
	orders       []int // additional map-iteration orders every case is run under (vmap seam)
	ordersOff    bool  // the current group opted out of the order sweep (SetOrderSweep)
	poisoned     bool
	obs          []string
	orderObsFail int
	replayDone   atomic.Bool
}

// Progress is read by the worker watchdog.
func (c *Ctx) Progress() int64 { return atomic.LoadInt64(&c.progress) }

// Beat tells the watchdog that the running case is alive although it has not completed: a case that waits for a child
// process which runs under resource limits of its own (processor time, address space) calls it while it waits, so
// that the verdict about the child depends on those limits and not on how busy the machine is.
func Beat() { atomic.AddInt64(&beats, 1) }

var beats int64

const stateHashLen = 8

func NewCtx(prop, tier string, shard, nshards int, journalPath string, budget time.Duration) *Ctx {
	c := &Ctx{Prop: prop, Tier: tier, Shard: shard, NShards: nshards, maxViol: 40, stateCap: 4_000_000}
	c.res = &Result{Shard: shard, States: map[string]struct{}{}, Outcomes: map[string]int64{}, Bounds: map[string]string{}, Groups: map[string]int64{}, Selftests: map[string]string{}}
	if journalPath != "" {
		f, err := os.OpenFile(journalPath, os.O_CREATE|os.O_RDWR|os.O_TRUNC, 0o644)
		if err == nil {
			c.journal = f
		}
	}
	c.deadline = time.Now().Add(budget)
	return c
}

// setMapOrders enables the order sweep when the property asks for it and the seam is compiled in.
func (c *Ctx) setMapOrders(want bool, quick []int) {
	c.res.Selftests["seam_maporder"] = fmt.Sprintf("%v (sites=%d)", vmap.On, vmap.Sites)
	if !want {
		return
	}
	if !vmap.On {
		c.Note("map-order seam unavailable on this tree: cases run under the runtime's own map iteration order only (seam_maporder:false)")
		vmap.Mode = vmap.Native
		return
	}
	c.orders = []int{vmap.Descending, vmap.Alternating}
	if quick != nil {
		c.orders = quick
	}
	if c.Tier == "thorough" {
		c.orders = []int{vmap.Descending, vmap.Alternating, vmap.Rotated}
	}
	c.res.Bounds["map-iteration-order"] = fmt.Sprintf("every case is run under %d map iteration orders (ascending + %s) at the %d rewritten range statements of the library", 1+len(c.orders), orderNames(c.orders), vmap.Sites)
}

func orderNames(l []int) string {
	var n []string
	for _, m := range l {
		n = append(n, vmap.ModeName(m))
	}
	return strings.Join(n, ", ")
}

// SetOrderSweep switches the map-order sweep off or on for the cases that follow (a group whose cost does not
// allow it in the quick tier says so in its bound).
func (c *Ctx) SetOrderSweep(on bool) { c.ordersOff = !on }

func (c *Ctx) SetReplay(group string, index int64) {
	c.replay, c.replayGroup, c.replayIndex = true, group, index
}

func (c *Ctx) Thorough() bool { return c.Tier == "thorough" }

// Group starts a named sub-enumeration; case indices restart at 0.
func (c *Ctx) Group(name string) {
	c.group = name
	c.index = 0
}

// Expired reports whether the tier budget is used up. Enumerations should
// stop at a bound boundary when it is; the evidence then says exhaustive:false.
func (c *Ctx) Expired() bool {
	if c.replay {
		return false
	}
	if time.Now().After(c.deadline) {
		c.res.DeadlineHit = true
		return true
	}
	return false
}

func (c *Ctx) Cap(what string)          { c.res.Caps = appendUniq(c.res.Caps, what) }
func (c *Ctx) Bound(k, v string)        { c.res.Bounds[k] = v }
func (c *Ctx) Note(s string)            { c.res.Notes = appendUniq(c.res.Notes, s) }
func (c *Ctx) Selftest(k, v string)     { c.res.Selftests[k] = v }
func (c *Ctx) Transitions(n int)        { c.res.Transitions += int64(n) }
func (c *Ctx) Validated(n int)          { c.res.Validated += int64(n) }
func (c *Ctx) NonTrivial()              { c.res.NonTrivial++ }
func (c *Ctx) Outcome(k string)         { c.res.Outcomes[k]++ }
func (c *Ctx) IsReplay() bool           { return c.replay }
func (c *Ctx) Replayed() bool           { return c.res.Replayed }
func (c *Ctx) ReplayFailed() bool       { return c.res.ReplayFailed }
func (c *Ctx) ResultForOutput() *Result { return c.res }

func appendUniq(l []string, s string) []string {
	for _, x := range l {
		if x == s {
			return l
		}
	}
	return append(l, s)
}

// State records a canonical state key (hashed) for the distinct-state count.
func (c *Ctx) State(key string) {
	if len(c.res.States) >= c.stateCap {
		c.Cap("state-set-cap")
		return
	}
	h := sha256.Sum256([]byte(key))
	c.res.States[string(h[:stateHashLen])] = struct{}{}
}

// Mine advances the case counter and tells whether this worker owns the case.
// Use it directly for very cheap cases; otherwise prefer Case.
func (c *Ctx) mine() (bool, int64) {
	idx := c.index
	c.index++
	c.res.Enumerated++
	c.res.Groups[c.group]++
	if c.replay {
		return c.group == c.replayGroup && idx == c.replayIndex, idx
	}
	if c.always {
		return true, idx
	}
	return int(idx%int64(c.NShards)) == c.Shard, idx
}

// Owns tells whether this worker owns item i of a manually sharded outer
// enumeration (used by searches whose frontier cannot be regenerated cheaply by
// every worker). Combine with CaseAlways.
func (c *Ctx) Owns(i int, group string) bool {
	if c.replay {
		return group == c.replayGroup
	}
	return i%c.NShards == c.Shard
}

// CaseAlways is Case for manually sharded enumerations: the case is executed by
// whoever reaches it.
func (c *Ctx) CaseAlways(descFn func() any, fn Check) {
	c.always = true
	c.Case(descFn, fn)
	c.always = false
}

// Check is the per-case body: it returns nil if every oracle clause held.
type Check func(t *T) *Violation

// T gives the case body access to accounting.
type T struct{ c *Ctx }

func (t *T) Outcome(k string)  { t.c.Outcome(k) }
func (t *T) State(k string)    { t.c.State(k) }
func (t *T) Transitions(n int) { t.c.Transitions(n) }
func (t *T) Validated(n int)   { t.c.Validated(n) }
func (t *T) NonTrivial()       { t.c.NonTrivial() }

// Cap records that this case was decided on less than its whole space (the evidence then says exhaustive:false).
func (t *T) Cap(what string) { t.c.Cap(what) }

// Alive tells the watchdog that a long case is making progress (the hang deadline is for cases that stop).
func (t *T) Alive() { atomic.AddInt64(&t.c.progress, 1) }

// Poison tells the engine that the process state cannot be reset after this case (a deadlock leaves goroutines
// parked inside the library holding its locks): the case is not re-run for confirmation and the worker runs no
// further cases.
func (t *T) Poison() { t.c.poisoned = true }

// Observe records something the case computed that must not depend on the map iteration order; the engine
// compares the observations of the runs of one case under the different orders.
func (t *T) Observe(s string) { t.c.obs = append(t.c.obs, s) }

type quietT struct{}

// Case runs one case if this worker owns it. desc must be JSON-marshalable and
// is what goes into samples and replay files; descFn is only called when needed.
func (c *Ctx) Case(descFn func() any, fn Check) {
	own, idx := c.mine()
	if !own {
		return
	}
	if c.poisoned {
		// an earlier case left this process in a state that cannot be reset (threads parked inside the library holding
		// its locks): the cases this worker owns from here on are not run, and the evidence says so
		c.Cap("worker stopped after a deadlock: the cases it owned after that point were not run")
		return
	}
	if c.journal != nil {
		var b [16 + 96]byte
		binary.LittleEndian.PutUint64(b[:8], uint64(idx))
		gh := sha256.Sum256([]byte(c.group))
		copy(b[8:], gh[:8])
		copy(b[16:], c.group) // group name, NUL padded
		_, _ = c.journal.WriteAt(b[:], 0)
	}
	c.res.Cases++
	atomic.AddInt64(&c.progress, 1)
	if c.replay {
		c.res.Replayed = true
	}
	vmap.Mode = vmap.Ascending
	if !vmap.On {
		vmap.Mode = vmap.Native
	}
	failMode := vmap.Mode
	vmap.ResetSeq()
	c.obs = c.obs[:0]
	v := c.runOnce(fn, false)
	obs0 := strings.Join(c.obs, "\x1e")
	for _, m := range c.orders {
		if v != nil || c.ordersOff {
			break
		}
		vmap.Mode = m
		vmap.ResetSeq()
		c.obs = c.obs[:0]
		if v = c.runOnce(fn, true); v != nil {
			failMode = m
			v.Detail = "under map iteration order '" + vmap.ModeName(m) + "' (the same case holds under 'ascending'): " + v.Detail
		} else if o := strings.Join(c.obs, "\x1e"); o != obs0 {
			failMode = m
			v = &Violation{Clause: "map-order-dependent", Trigger: "", Detail: fmt.Sprintf("what the case observes depends on the map iteration order: under 'ascending' %q, under '%s' %q", clip(obs0), vmap.ModeName(m), clip(o))}
			c.orderObsFail = m
		}
		c.res.OrderRuns++
	}
	vmap.Mode = failMode
	defer func() { vmap.Mode = vmap.Ascending }()
	if len(c.res.Samples) < 3 || (c.res.Cases%100003 == 0 && len(c.res.Samples) < 8) {
		if d, err := json.Marshal(map[string]any{"group": c.group, "index": idx, "case": descFn()}); err == nil {
			c.res.Samples = append(c.res.Samples, d)
		}
	}
	if v == nil {
		return
	}
	if c.replay {
		c.res.ReplayFailed = true
	}
	c.res.ViolationsN++
	if len(c.res.Violations) >= c.maxViol && !c.novelViolation(v) {
		return
	}
	// confirm: the same case must fail the same clause again, 4 more times
	confirmed := 1
	if v.PreConfirmed > 0 {
		confirmed = v.PreConfirmed
	}
	if c.poisoned {
		confirmed = 5 // a deadlock is decided by the scheduler's own bookkeeping (no enabled thread); it cannot be re-run in this process
	}
	for i := 0; i < 4 && v.PreConfirmed == 0 && !c.poisoned; i++ {
		vmap.ResetSeq()
		c.obs = c.obs[:0]
		v2 := c.runOnce(fn, true)
		if v.Clause == "map-order-dependent" {
			if v2 == nil && strings.Join(c.obs, "\x1e") != obs0 {
				confirmed++
			}
			continue
		}
		if v2 != nil && v2.Clause == v.Clause {
			confirmed++
		}
	}
	d, _ := json.Marshal(descFn())
	c.res.Violations = append(c.res.Violations, recordedViolation{Violation: *v, Group: c.group, Index: idx, Desc: d, Confirmed: confirmed})
}

func (c *Ctx) novelViolation(v *Violation) bool {
	n := 0
	for _, x := range c.res.Violations {
		if x.Clause == v.Clause && x.Trigger == v.Trigger {
			n++
		}
	}
	return n < 3 && len(c.res.Violations) < 400
}

func (c *Ctx) runOnce(fn Check, quiet bool) (v *Violation) {
	defer func() {
		if r := recover(); r != nil {
			st := string(debug.Stack())
			v = &Violation{Clause: "panic", Trigger: PanicSite(st), Detail: fmt.Sprintf("panic: %v\n%s", r, trimStack(st))}
		}
	}()
	if quiet {
		// accounting of the re-runs must not inflate the counters
		saved := *c.res
		savedStates := c.res.States
		c.res.States = map[string]struct{}{}
		out := map[string]int64{}
		c.res.Outcomes = out
		defer func() {
			*c.res = saved
			c.res.States = savedStates
		}()
	}
	return fn(&T{c})
}

// PanicSite extracts the innermost protobom frame of a panic stack.
func PanicSite(stack string) string {
	lines := strings.Split(stack, "\n")
	seenPanic := false
	for i := 0; i < len(lines); i++ {
		l := lines[i]
		if strings.HasPrefix(l, "panic(") {
			seenPanic = true
			continue
		}
		if !seenPanic {
			continue
		}
		if strings.HasPrefix(l, "github.com/protobom/protobom/") {
			fn := strings.TrimPrefix(l, "github.com/protobom/protobom/")
			if j := strings.LastIndex(fn, "("); j > 0 {
				fn = fn[:j]
			}
			return fn
		}
	}
	return "outside-protobom"
}

func clip(s string) string {
	if len(s) > 600 {
		return s[:600] + "…"
	}
	return s
}

func trimStack(s string) string {
	lines := strings.Split(s, "\n")
	if len(lines) > 40 {
		lines = lines[:40]
	}
	return strings.Join(lines, "\n")
}

// Finish serialises the worker result.
func (c *Ctx) Finish(outPath string) error {
	c.res.StateList = make([]string, 0, len(c.res.States))
	for k := range c.res.States {
		c.res.StateList = append(c.res.StateList, hex.EncodeToString([]byte(k)))
	}
	sort.Strings(c.res.StateList)
	b, err := json.Marshal(c.res)
	if err != nil {
		return err
	}
	return os.WriteFile(outPath, b, 0o644)
}

// Violate is a helper to build a violation.
func Violate(clause, trigger, format string, args ...any) *Violation {
	return &Violation{Clause: clause, Trigger: trigger, Detail: fmt.Sprintf(format, args...)}
}
