package engine

import (
	"sync/atomic"
	"crypto/sha256"
	"encoding/binary"
	"encoding/hex"
	"encoding/json"
	"fmt"
	"os"
	"os/exec"
	"path/filepath"
	"sort"
	"strconv"
	"strings"
	"sync"
	"time"
)

// Spec describes how a property is run.
type Spec struct {
	ID        string
	Run       func(c *Ctx)
	Shards    int           // worker processes (default 16)
	QuickBud  time.Duration // exploration budget per tier (deadline -> exhaustive:false, exit 0)
	ThorBud   time.Duration
	Technique string
	Rule      string // how cases are enumerated / what makes a state distinct
	Assume    []string
	// Extra lets a property add keys to coverage after the merge.
	Extra func(tier string, merged *Merged) map[string]any
	// WorkerEnv is added to the environment of each worker.
	WorkerEnv []string
	// MapOrders: run every case under every map-iteration order of the vmap seam (quick: ascending and
	// descending; thorough: + rotated). The oracle must hold under each.
	MapOrders bool
	// MapOrdersQuick overrides the additional orders of the quick tier (default: descending, alternating).
	MapOrdersQuick []int
}

type KnownFinding struct {
	Property string `json:"property"`
	Clause   string `json:"clause"`
	Trigger  string `json:"trigger"`
	What     string `json:"what"`
	Example  string `json:"example,omitempty"`
}

type KnownFile struct {
	Findings []KnownFinding `json:"findings"`
	Fixed    []string       `json:"fixed"`
}

type Merged struct {
	Cases, Enumerated, Transitions, Validated, NonTrivial, ViolationsN int64
	States                                                             map[string]struct{}
	Outcomes                                                           map[string]int64
	Samples                                                            []json.RawMessage
	Violations                                                         []recordedViolation
	Caps, Notes                                                        []string
	Bounds, Selftests                                                  map[string]string
	Groups                                                             map[string]int64
	DeadlineHit                                                        bool
	WorkerDeaths                                                       []string
	deaths                                                             []deathInfo
}

type deathInfo struct {
	detail, group string
	index         int64
	hang          bool
}

func verifDir() string {
	if d := os.Getenv("VERIF_DIR"); d != "" {
		return d
	}
	return "/verif"
}

func loadKnown() KnownFile {
	var kf KnownFile
	b, err := os.ReadFile(filepath.Join(verifDir(), "known_findings.json"))
	if err == nil {
		_ = json.Unmarshal(b, &kf)
	}
	return kf
}

// Supervise runs all shards of a property as child processes of the current
// binary, merges their results, writes evidence and replay files, prints the
// verdict lines and returns the process exit code.
func Supervise(spec Spec, tier string) int {
	start := time.Now()
	n := spec.Shards
	if n <= 0 {
		n = 16
	}
	if v := os.Getenv("VERIF_SHARDS"); v != "" {
		if k, err := strconv.Atoi(v); err == nil && k > 0 {
			n = k
		}
	}
	scratch, err := os.MkdirTemp("", "mcverif-"+spec.ID+"-")
	if err != nil {
		fmt.Println("harness error:", err)
		return 2
	}
	defer os.RemoveAll(scratch)

	self, _ := os.Executable()
	type wres struct {
		res         *Result
		death       string
		deathGroup  string
		deathIndex  int64
		deathHang   bool
		deathMemory bool
	}
	results := make([]wres, n)
	var wg sync.WaitGroup
	for i := 0; i < n; i++ {
		wg.Add(1)
		go func(i int) {
			defer wg.Done()
			out := filepath.Join(scratch, fmt.Sprintf("res-%d.json", i))
			jr := filepath.Join(scratch, fmt.Sprintf("journal-%d", i))
			logp := filepath.Join(scratch, fmt.Sprintf("log-%d", i))
			cmd := exec.Command(self, "--worker", spec.ID, tier, strconv.Itoa(i), strconv.Itoa(n), out, jr)
			cmd.Env = append(os.Environ(), "MCVERIF_SCRATCH="+scratch, "GOMAXPROCS=2",
				"GORACE=halt_on_error=0 log_path="+filepath.Join(scratch, fmt.Sprintf("tsan-%d", i)))
			cmd.Env = append(cmd.Env, "MCVERIF_TSAN_LOG="+filepath.Join(scratch, fmt.Sprintf("tsan-%d", i)))
			cmd.Env = append(cmd.Env, spec.WorkerEnv...)
			lf, _ := os.Create(logp)
			cmd.Stdout, cmd.Stderr = lf, lf
			err := cmd.Run()
			lf.Close()
			b, rerr := os.ReadFile(out)
			if rerr == nil {
				var r Result
				if json.Unmarshal(b, &r) == nil {
					results[i].res = &r
					return
				}
			}
			// worker died: attribute to the journalled case
			jb, _ := os.ReadFile(jr)
			idx := int64(-1)
			gh := ""
			if len(jb) >= 16 {
				idx = int64(binary.LittleEndian.Uint64(jb[:8]))
				gh = hex.EncodeToString(jb[8:16])
			}
			if len(jb) > 16 {
				results[i].deathGroup = strings.TrimRight(string(jb[16:]), "\x00")
				results[i].deathIndex = idx
			}
			results[i].deathHang = strings.Contains(string(func() []byte { b, _ := os.ReadFile(logp); return b }()), "HANG: no case completed") || (err != nil && strings.Contains(err.Error(), "exit status 3"))
			lb, _ := os.ReadFile(logp)
			tail := string(lb)
			if len(tail) > 3000 {
				tail = tail[:1500] + "\n...\n" + tail[len(tail)-1500:]
			}
			results[i].death = fmt.Sprintf("worker %d died (%v) at case index %d (group hash %s)\n%s", i, err, idx, gh, tail)
			// stopped for memory (own cap, or the system's out-of-memory killer): an answer of the environment, not a
			// verdict about the property - the cases this worker owned after that point were not run
			if err != nil && (strings.Contains(err.Error(), "exit status 4") || strings.Contains(err.Error(), "signal: killed")) {
				results[i].deathMemory = true
			}
		}(i)
	}
	wg.Wait()

	m := &Merged{States: map[string]struct{}{}, Outcomes: map[string]int64{}, Bounds: map[string]string{}, Selftests: map[string]string{}, Groups: map[string]int64{}}
	for i, w := range results {
		if w.res == nil && w.deathMemory {
			m.Caps = appendUniq(m.Caps, fmt.Sprintf("a worker was stopped for memory (resident set above %d MiB, or killed by the system) in group %q: the cases it owned after that point were not run; this is not a verdict about the property", memCapMiB(), w.deathGroup))
			m.Notes = appendUniq(m.Notes, "memory stop: "+firstLines(w.death, 3))
			m.DeadlineHit = true
			continue
		}
		if w.res == nil {
			m.WorkerDeaths = append(m.WorkerDeaths, w.death)
			m.deaths = append(m.deaths, deathInfo{w.death, w.deathGroup, w.deathIndex, w.deathHang})
			continue
		}
		r := w.res
		m.Cases += r.Cases
		m.Transitions += r.Transitions
		m.Validated += r.Validated
		m.NonTrivial += r.NonTrivial
		m.ViolationsN += r.ViolationsN
		if r.Enumerated > m.Enumerated {
			m.Enumerated = r.Enumerated
		}
		for _, s := range r.StateList {
			m.States[s] = struct{}{}
		}
		for k, v := range r.Outcomes {
			m.Outcomes[k] += v
		}
		if i < 4 {
			for _, s := range r.Samples {
				if len(m.Samples) < 8 {
					m.Samples = append(m.Samples, s)
				}
			}
		}
		m.Violations = append(m.Violations, r.Violations...)
		for _, x := range r.Caps {
			m.Caps = appendUniq(m.Caps, x)
		}
		for _, x := range r.Notes {
			m.Notes = appendUniq(m.Notes, x)
		}
		for k, v := range r.Bounds {
			m.Bounds[k] = v
		}
		for k, v := range r.Selftests {
			if old, ok := m.Selftests[k]; ok && old != v && old != "ok" {
				continue
			}
			m.Selftests[k] = v
		}
		for k, v := range r.Groups {
			if v > m.Groups[k] {
				m.Groups[k] = v
			}
		}
		m.DeadlineHit = m.DeadlineHit || r.DeadlineHit
	}

	// classify violations
	kf := loadKnown()
	known := map[int]int64{}
	var fresh []recordedViolation
	flaky := 0
	sort.SliceStable(m.Violations, func(i, j int) bool {
		a, b := m.Violations[i], m.Violations[j]
		if a.Group != b.Group {
			return a.Group < b.Group
		}
		return a.Index < b.Index
	})
	for _, v := range m.Violations {
		if v.Confirmed < 5 {
			flaky++
			fmt.Printf("HARNESS-FLAKY: property=%s clause=%s confirmed %d/5 (not reported as violation)\n", spec.ID, v.Clause, v.Confirmed)
			if os.Getenv("VERIF_DUMP") != "" {
				fmt.Printf("  case=%s\n  %s\n", v.Desc, firstLines(v.Detail, 40))
			}
			continue
		}
		matched := false
		for i, k := range kf.Findings {
			if k.Property == spec.ID && k.Clause == v.Clause && k.Trigger == v.Trigger {
				known[i]++
				matched = true
				break
			}
		}
		if !matched {
			fresh = append(fresh, v)
		}
	}
	for _, d := range m.deaths {
		clause, trig, grp := "worker-death", "process-abort", d.group
		if d.hang {
			clause, trig = "hang", "no-return-within-case-deadline"
		}
		if grp == "" {
			grp = "?"
		}
		fresh = append(fresh, recordedViolation{Violation: Violation{Clause: clause, Trigger: trig, Detail: d.detail}, Group: grp, Index: d.index, Desc: json.RawMessage(`"the case the worker was executing when it stopped; replay re-executes it under the same watchdog"`), Confirmed: 1})
	}

	exit := 0
	replayDir := filepath.Join(verifDir(), "replays", spec.ID)
	var idxs []int
	for i := range known {
		idxs = append(idxs, i)
	}
	sort.Ints(idxs)
	var knownLines []string
	for _, i := range idxs {
		k := kf.Findings[i]
		line := fmt.Sprintf("KNOWN-FINDING: property=%s %s [clause=%s trigger=%s]", spec.ID, k.What, k.Clause, k.Trigger)
		knownLines = append(knownLines, line)
		fmt.Println(line)
	}
	seenKey := map[string]int{}
	if os.Getenv("VERIF_DUMP") != "" {
		for _, v := range fresh {
			fmt.Printf("DUMP clause=%s trigger=%s case=%s\n", v.Clause, v.Trigger, string(v.Desc))
		}
	}
	for _, v := range fresh {
		key := v.Clause + "|" + v.Trigger
		seenKey[key]++
		if seenKey[key] > 2 {
			continue
		}
		_ = os.MkdirAll(replayDir, 0o755)
		body, _ := json.MarshalIndent(map[string]any{
			"property": spec.ID, "tier": tier, "group": v.Group, "index": v.Index,
			"clause": v.Clause, "trigger": v.Trigger, "detail": v.Detail, "case": v.Desc,
			"replay_cmd": fmt.Sprintf("./run replay replays/%s/<this file>", spec.ID),
		}, "", " ")
		h := sha256.Sum256(body)
		p := filepath.Join(replayDir, hex.EncodeToString(h[:6])+".json")
		_ = os.WriteFile(p, body, 0o644)
		fmt.Printf("VIOLATION property=%s replay=%s\n", spec.ID, p)
		fmt.Printf("  clause=%s trigger=%s\n  %s\n", v.Clause, v.Trigger, firstLines(v.Detail, 12))
		exit = 1
	}
	if flaky > 0 && exit == 0 {
		exit = 2
	}

	// evidence
	exhaustive := !m.DeadlineHit && len(m.Caps) == 0 && len(m.WorkerDeaths) == 0
	outKeys := make([]string, 0, len(m.Outcomes))
	for k := range m.Outcomes {
		outKeys = append(outKeys, k)
	}
	sort.Strings(outKeys)
	outShow := map[string]int64{}
	for i, k := range outKeys {
		if i >= 60 {
			break
		}
		outShow[k] = m.Outcomes[k]
	}
	states := int64(len(m.States))
	if states == 0 {
		states = m.Cases
	}
	trans := m.Transitions
	if trans == 0 {
		trans = m.Cases
	}
	cov := map[string]any{
		"states":                        states,
		"transitions":                   trans,
		"traces_validated_against_impl": m.Validated,
		"samples":                       m.Samples,
		"evaluations":                   m.Cases,
		"distinct_nontrivial":           int64(len(m.States)),
		"rule":                          spec.Rule,
		"exhaustive":                    exhaustive,
		"bound":                         m.Bounds,
		"caps_hit":                      m.Caps,
		"deadline_hit":                  m.DeadlineHit,
		"distinct_outcomes":             len(m.Outcomes),
		"outcomes":                      outShow,
		"cases_per_group":               m.Groups,
		"selftests":                     m.Selftests,
		"notes":                         m.Notes,
		"known_findings_matched":        knownLines,
		"worker_processes":              n,
		"technique":                     spec.Technique,
	}
	if len(m.Samples) == 0 {
		cov["samples"] = []any{"(no case executed)"}
	}
	if spec.Extra != nil {
		for k, v := range spec.Extra(tier, m) {
			cov[k] = v
		}
	}
	seed := 0
	if s, err := strconv.Atoi(os.Getenv("VERIF_SEED")); err == nil {
		seed = s
	}
	ev := map[string]any{
		"property_id": spec.ID,
		"tier":        tier,
		"seed":        seed,
		"level":       "model_checking",
		"coverage":    cov,
		"assumptions": append([]string{"VERIF_SEED is ignored: the check makes no random choice"}, spec.Assume...),
		"wall_s":      time.Since(start).Seconds(),
		"violations":  len(fresh),
	}
	eb, _ := json.MarshalIndent(ev, "", " ")
	_ = os.MkdirAll(filepath.Join(verifDir(), "evidence"), 0o755)
	if err := os.WriteFile(filepath.Join(verifDir(), "evidence", spec.ID+".json"), eb, 0o644); err != nil {
		fmt.Println("harness error: writing evidence:", err)
		return 2
	}
	fmt.Printf("%s %s: cases=%d states=%d transitions=%d validated=%d outcomes=%d exhaustive=%v violations=%d known=%d wall=%.1fs\n",
		spec.ID, tier, m.Cases, states, trans, m.Validated, len(m.Outcomes), exhaustive, len(fresh), len(known), time.Since(start).Seconds())
	return exit
}

func firstLines(s string, n int) string {
	l := strings.Split(s, "\n")
	if len(l) > n {
		l = l[:n]
	}
	for i := range l {
		if len(l[i]) > 700 {
			l[i] = l[i][:700] + " …[truncated]"
		}
	}
	return strings.Join(l, "\n  ")
}

// CaseDeadline is the absolute per-case deadline (cases take milliseconds).
var CaseDeadline = 180 * time.Second

func residentMiB() int64 {
	b, err := os.ReadFile("/proc/self/statm")
	if err != nil {
		return 0
	}
	f := strings.Fields(string(b))
	if len(f) < 2 {
		return 0
	}
	pages, _ := strconv.ParseInt(f[1], 10, 64)
	return pages * int64(os.Getpagesize()) >> 20
}

func memCapMiB() int64 {
	if v, err := strconv.ParseInt(os.Getenv("MCVERIF_MEMCAP_MB"), 10, 64); err == nil && v > 0 {
		return v
	}
	return 3072
}

// Worker runs one shard.
func Worker(spec Spec, tier string, shard, n int, out, journal string) int {
	bud := spec.QuickBud
	if tier == "thorough" {
		bud = spec.ThorBud
	}
	if bud == 0 {
		bud = 10 * time.Minute
	}
	c := NewCtx(spec.ID, tier, shard, n, journal, bud)
	c.setMapOrders(spec.MapOrders, spec.MapOrdersQuick)
	// watchdog: one generous absolute deadline per case (never a relative timing oracle)
	go func() {
		last, since := int64(-1), time.Now()
		for {
			time.Sleep(2 * time.Second)
			p := c.Progress() + atomic.LoadInt64(&beats)<<32
			if p != last {
				last, since = p, time.Now()
				continue
			}
			if time.Since(since) > CaseDeadline {
				fmt.Printf("HANG: no case completed for %s\n", CaseDeadline)
				os.Exit(3)
			}
			// memory: a worker that keeps growing (code under test that retains every input, a harness leak) is stopped
			// here, before the system's out-of-memory killer picks a victim of its own choosing
			if rss := residentMiB(); rss > memCapMiB() {
				fmt.Printf("MEMORY-CAP: resident set %d MiB above the cap of %d MiB\n", rss, memCapMiB())
				os.Exit(4)
			}
		}
	}()
	spec.Run(c)
	if err := c.Finish(out); err != nil {
		fmt.Println("worker: writing result:", err)
		return 2
	}
	return 0
}

// Replay re-executes the single case named by a replay file.
func Replay(spec Spec, file string) int {
	b, err := os.ReadFile(file)
	if err != nil {
		fmt.Println(err)
		return 2
	}
	var rf struct {
		Property, Tier, Group, Clause string
		Index                         int64
	}
	if err := json.Unmarshal(b, &rf); err != nil {
		fmt.Println(err)
		return 2
	}
	c := NewCtx(spec.ID, rf.Tier, 0, 1, "", time.Hour)
	c.setMapOrders(spec.MapOrders, spec.MapOrdersQuick)
	c.SetReplay(rf.Group, rf.Index)
	// the replayed case runs under the same absolute deadline as in a worker
	go func() {
		for {
			time.Sleep(time.Second)
			if c.Progress() > 0 {
				start, lastBeat := time.Now(), atomic.LoadInt64(&beats)
				for c.Progress() == 1 && !c.replayDone.Load() {
					time.Sleep(time.Second)
					if b := atomic.LoadInt64(&beats); b != lastBeat {
						start, lastBeat = time.Now(), b
					}
					if time.Since(start) > CaseDeadline {
						fmt.Printf("VIOLATION property=%s replay=%s\n  clause=hang trigger=no-return-within-case-deadline\n  case %s/%d did not return within %s\n", spec.ID, file, rf.Group, rf.Index, CaseDeadline)
						os.Exit(1)
					}
				}
				return
			}
		}
	}()
	spec.Run(c)
	c.replayDone.Store(true)
	if !c.Replayed() {
		fmt.Printf("replay: case %s/%d not reached by the enumeration on this tree\n", rf.Group, rf.Index)
		return 2
	}
	if c.ReplayFailed() {
		for _, v := range c.res.Violations {
			fmt.Printf("VIOLATION property=%s replay=%s\n  clause=%s trigger=%s\n  %s\n", spec.ID, file, v.Clause, v.Trigger, firstLines(v.Detail, 30))
		}
		return 1
	}
	fmt.Printf("replay: case %s/%d holds on this tree\n", rf.Group, rf.Index)
	return 0
}
