// Package rw drives the real writer and reader with the harness's own options
// values (constructor options are never used: on some trees they leak into
// shared defaults, which is C18's subject).
package rw

import (
	"bytes"
	"encoding/json"
	"errors"
	"io"
	"os"
	"sort"

	"github.com/protobom/protobom/pkg/formats"
	"github.com/protobom/protobom/pkg/native"
	"github.com/protobom/protobom/pkg/reader"
	"github.com/protobom/protobom/pkg/sbom"
	"github.com/protobom/protobom/pkg/writer"
	"github.com/sirupsen/logrus"

	_ "github.com/protobom/protobom/pkg/native/serializers/beta"
)

func init() {
	logrus.SetOutput(io.Discard)
	logrus.SetLevel(logrus.PanicLevel)
}

// AtLogLevel runs f with the process-wide log level of the library's logger set to level (output stays discarded)
// and restores the harness' default afterwards. The log level is part of the environment: code behind a level test
// (diagnostics, traces, summaries) only runs where somebody has turned it on.
func AtLogLevel(level logrus.Level, f func()) {
	logrus.SetLevel(level)
	defer logrus.SetLevel(logrus.PanicLevel)
	f()
}

var errTrailing = errors.New("data after the end of the JSON document")

const SPDX3 = formats.Format("text/spdx+json;version=3.0")

// AllFormats: the seven default serializers plus the beta SPDX 3 one.
var AllFormats = []formats.Format{formats.CDX10JSON, formats.CDX11JSON, formats.CDX12JSON, formats.CDX13JSON, formats.CDX14JSON, formats.CDX15JSON, formats.SPDX23JSON, SPDX3}

// DefaultFormats: the seven default registered formats (reader and writer).
var DefaultFormats = AllFormats[:7]

type nopCloser struct{ *bytes.Buffer }

func (nopCloser) Close() error { return nil }

var (
	w = writer.New()
	r = reader.New()
)

// Write serializes d as f. indent < 0 passes nil render options.
func Write(d *sbom.Document, f formats.Format, indent int) ([]byte, error) {
	var buf bytes.Buffer
	o := &writer.Options{Format: f, SerializeOptions: &native.SerializeOptions{}}
	if indent >= 0 {
		o.RenderOptions = &native.RenderOptions{Indent: indent}
	}
	err := w.WriteStreamWithOptions(d, nopCloser{&buf}, o)
	return buf.Bytes(), err
}

// WriteFile serializes d as f into the file at path through the writer's file entry point.
func WriteFile(d *sbom.Document, f formats.Format, indent int, path string) error {
	o := &writer.Options{Format: f, SerializeOptions: &native.SerializeOptions{}}
	if indent >= 0 {
		o.RenderOptions = &native.RenderOptions{Indent: indent}
	}
	return w.WriteFileWithOptions(d, path, o)
}

// Read parses with format auto-detection.
func Read(b []byte) (*sbom.Document, error) {
	return r.ParseStreamWithOptions(bytes.NewReader(b), &reader.Options{UnserializeOptions: &native.UnserializeOptions{}})
}

// ReadAs parses with the format stated explicitly.
func ReadAs(b []byte, f formats.Format) (*sbom.Document, error) {
	return r.ParseStreamWithOptions(bytes.NewReader(b), &reader.Options{Format: f, UnserializeOptions: &native.UnserializeOptions{}})
}

// Sniff runs format detection.
func Sniff(rs io.ReadSeeker) (formats.Format, error) {
	// SniffReader prints a warning to stdout when the final seek fails; silence it.
	return (&formats.Sniffer{}).SniffReader(rs)
}

// SilenceStdout redirects fmt.Printf noise of the library (deferred seek warning) to /dev/null.
func SilenceStdout() {
	if f, err := os.OpenFile(os.DevNull, os.O_WRONLY, 0); err == nil {
		os.Stdout = f
	}
}

// NormalizeJSON decodes JSON, removes creation timestamps and sorts every array
// by the JSON text of its elements, and re-encodes. Used for "same output up to
// the creation timestamp and the order of set-valued arrays".
func NormalizeJSON(b []byte) (string, error) {
	var v any
	dec := json.NewDecoder(bytes.NewReader(b))
	dec.UseNumber()
	if err := dec.Decode(&v); err != nil {
		return "", err
	}
	// the output is ONE JSON document: anything but white space after it is not ignored
	if _, err := dec.Token(); err != io.EOF {
		return "", errTrailing
	}
	v = norm(v)
	out, err := json.Marshal(v)
	return string(out), err
}

func norm(v any) any {
	switch x := v.(type) {
	case map[string]any:
		for k, e := range x {
			if k == "created" || k == "timestamp" {
				x[k] = "<time>"
				continue
			}
			x[k] = norm(e)
		}
		return x
	case []any:
		keyed := make([]struct {
			k string
			v any
		}, len(x))
		for i, e := range x {
			ne := norm(e)
			kb, _ := json.Marshal(ne)
			keyed[i].k, keyed[i].v = string(kb), ne
		}
		sort.Slice(keyed, func(a, b int) bool { return keyed[a].k < keyed[b].k })
		out := make([]any, len(x))
		for i := range keyed {
			out[i] = keyed[i].v
		}
		return out
	default:
		return v
	}
}
