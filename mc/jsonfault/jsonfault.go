// Package jsonfault holds an order-preserving JSON tree, a path enumerator and
// the schema-fault menu (E5).
package jsonfault

import (
	"bytes"
	"encoding/json"
	"fmt"
	"strings"
)

type Kind int

const (
	Scalar Kind = iota
	Object
	Array
)

// Node is an order-preserving JSON value.
type Node struct {
	Kind  Kind
	Raw   string  // scalars: raw JSON text
	Keys  []string // objects
	Elems []*Node  // object member values (parallel to Keys) or array elements
}

func Parse(b []byte) (*Node, error) {
	dec := json.NewDecoder(bytes.NewReader(b))
	dec.UseNumber()
	n, err := parseValue(dec)
	if err != nil {
		return nil, err
	}
	return n, nil
}

func parseValue(dec *json.Decoder) (*Node, error) {
	tok, err := dec.Token()
	if err != nil {
		return nil, err
	}
	switch t := tok.(type) {
	case json.Delim:
		switch t {
		case '{':
			n := &Node{Kind: Object}
			for dec.More() {
				kt, err := dec.Token()
				if err != nil {
					return nil, err
				}
				v, err := parseValue(dec)
				if err != nil {
					return nil, err
				}
				n.Keys = append(n.Keys, kt.(string))
				n.Elems = append(n.Elems, v)
			}
			_, err := dec.Token()
			return n, err
		case '[':
			n := &Node{Kind: Array}
			for dec.More() {
				v, err := parseValue(dec)
				if err != nil {
					return nil, err
				}
				n.Elems = append(n.Elems, v)
			}
			_, err := dec.Token()
			return n, err
		}
		return nil, fmt.Errorf("unexpected delimiter %v", t)
	case string:
		b, _ := json.Marshal(t)
		return &Node{Raw: string(b)}, nil
	case json.Number:
		return &Node{Raw: t.String()}, nil
	case bool:
		if t {
			return &Node{Raw: "true"}, nil
		}
		return &Node{Raw: "false"}, nil
	case nil:
		return &Node{Raw: "null"}, nil
	}
	return nil, fmt.Errorf("unexpected token %v", tok)
}

func (n *Node) Clone() *Node {
	c := &Node{Kind: n.Kind, Raw: n.Raw, Keys: append([]string{}, n.Keys...)}
	for _, e := range n.Elems {
		c.Elems = append(c.Elems, e.Clone())
	}
	return c
}

// Render writes compact JSON.
func (n *Node) Render(sb *strings.Builder) {
	switch n.Kind {
	case Scalar:
		sb.WriteString(n.Raw)
	case Object:
		sb.WriteByte('{')
		for i, k := range n.Keys {
			if i > 0 {
				sb.WriteByte(',')
			}
			kb, _ := json.Marshal(k)
			sb.Write(kb)
			sb.WriteByte(':')
			n.Elems[i].Render(sb)
		}
		sb.WriteByte('}')
	case Array:
		sb.WriteByte('[')
		for i, e := range n.Elems {
			if i > 0 {
				sb.WriteByte(',')
			}
			e.Render(sb)
		}
		sb.WriteByte(']')
	}
}

func (n *Node) String() string {
	var sb strings.Builder
	n.Render(&sb)
	return sb.String()
}

// Path addresses a value: a sequence of child indices from the root.
type Path []int

// Paths enumerates every value path (excluding the root itself) with a readable label.
func Paths(root *Node) (paths []Path, labels []string) {
	var rec func(n *Node, p Path, label string)
	rec = func(n *Node, p Path, label string) {
		for i, e := range n.Elems {
			cp := append(append(Path{}, p...), i)
			var l string
			if n.Kind == Object {
				l = label + "/" + n.Keys[i]
			} else {
				l = fmt.Sprintf("%s/%d", label, i)
			}
			paths = append(paths, cp)
			labels = append(labels, l)
			rec(e, cp, l)
		}
	}
	rec(root, nil, "")
	return
}

func parentOf(root *Node, p Path) (*Node, int) {
	n := root
	for _, i := range p[:len(p)-1] {
		n = n.Elems[i]
	}
	return n, p[len(p)-1]
}

// Fault is one schema fault applicable at a path.
type Fault struct {
	Name  string
	Heavy bool // oversized faults: only enumerated singly
	Apply func(parent *Node, idx int)
}

func raw(s string) *Node { return &Node{Raw: s} }

func nest(open, close string, depth int) *Node {
	return &Node{Raw: strings.Repeat(open, depth) + strings.Repeat(close, depth)}
}

// Faults is the menu.
func Faults() []Fault {
	set := func(name string, heavy bool, mk func(old *Node) *Node) Fault {
		return Fault{Name: name, Heavy: heavy, Apply: func(p *Node, i int) { p.Elems[i] = mk(p.Elems[i]) }}
	}
	return []Fault{
		set("null", false, func(*Node) *Node { return raw("null") }),
		set("number", false, func(old *Node) *Node {
			if old.Kind == Scalar && old.Raw != "" && (old.Raw[0] == '-' || (old.Raw[0] >= '0' && old.Raw[0] <= '9')) {
				return raw("true")
			}
			return raw("7")
		}),
		set("string", false, func(old *Node) *Node {
			if old.Kind == Scalar && strings.HasPrefix(old.Raw, `"`) {
				return raw("false")
			}
			return raw(`"s"`)
		}),
		set("other-container", false, func(old *Node) *Node {
			if old.Kind == Array {
				return &Node{Kind: Object, Keys: []string{"k"}, Elems: []*Node{raw(`"v"`)}}
			}
			return &Node{Kind: Array, Elems: []*Node{raw(`"v"`)}}
		}),
		set("empty", false, func(old *Node) *Node {
			switch old.Kind {
			case Array:
				return &Node{Kind: Array}
			case Object:
				return &Node{Kind: Object}
			}
			return raw(`""`)
		}),
		set("container-of-null", false, func(old *Node) *Node {
			if old.Kind == Object {
				return &Node{Kind: Object, Keys: []string{"k"}, Elems: []*Node{raw("null")}}
			}
			return &Node{Kind: Array, Elems: []*Node{raw("null")}}
		}),
		{Name: "absent", Apply: func(p *Node, i int) {
			p.Elems = append(p.Elems[:i:i], p.Elems[i+1:]...)
			if p.Kind == Object {
				p.Keys = append(p.Keys[:i:i], p.Keys[i+1:]...)
			}
		}},
		{Name: "duplicated", Apply: func(p *Node, i int) {
			p.Elems = append(p.Elems, p.Elems[i].Clone())
			if p.Kind == Object {
				p.Keys = append(p.Keys, p.Keys[i])
			}
		}},
		set("long-string", true, func(*Node) *Node { return raw(`"` + strings.Repeat("x", 10000) + `"`) }),
		set("long-array", true, func(old *Node) *Node {
			el := `"e"`
			if old.Kind == Array && len(old.Elems) > 0 {
				el = old.Elems[0].String()
			}
			return raw("[" + strings.Repeat(el+",", 9999) + el + "]")
		}),
		set("deep-array-1e4", true, func(*Node) *Node { return nest("[", "]", 10000) }),
		set("deep-object-1e4", true, func(*Node) *Node { return &Node{Raw: strings.Repeat(`{"a":`, 10000) + "1" + strings.Repeat("}", 10000)} }),
		set("deep-array-1e6", true, func(*Node) *Node { return nest("[", "]", 1000000) }),
	}
}

// Mutate returns the document with the given faults applied (deepest path first
// so that indices stay valid). ok=false if the paths overlap in a way that makes
// the combination meaningless (one inside the other, or same parent with index shifts).
func Mutate(root *Node, ps []Path, fs []Fault) (string, bool) {
	c := root.Clone()
	if len(ps) == 2 {
		a, b := ps[0], ps[1]
		if isPrefix(a, b) || isPrefix(b, a) {
			return "", false
		}
		// apply the one that comes later in document order first, so that a removal does not shift the other
		if less(a, b) {
			ps = []Path{b, a}
			fs = []Fault{fs[1], fs[0]}
		}
	}
	for i, p := range ps {
		par, idx := parentOf(c, p)
		if idx >= len(par.Elems) {
			return "", false
		}
		fs[i].Apply(par, idx)
	}
	return c.String(), true
}

func isPrefix(a, b Path) bool {
	if len(a) > len(b) {
		return false
	}
	for i := range a {
		if a[i] != b[i] {
			return false
		}
	}
	return true
}

func less(a, b Path) bool {
	for i := 0; i < len(a) && i < len(b); i++ {
		if a[i] != b[i] {
			return a[i] < b[i]
		}
	}
	return len(a) < len(b)
}
