// Package vatomic is the sync/atomic shim of the scheduler seam: the same API as sync/atomic for
// the typed values and the function forms. Every operation is a scheduling point of package sched
// and then performs the real atomic operation (which gives ThreadSanitizer the program's own
// synchronisation). Typed values register themselves on first use so that vsync.ResetAll can put
// them back to the value they had when the harness took over (vsync.Baseline: what the library's init functions
// stored; zero for values first touched later, as in a fresh process).
package vatomic

import (
	"sync/atomic"
	"unsafe"

	"mcverif/sched"
	"mcverif/vsync"
)

type resetter interface {
	reset()
	capture() func() // returns an action that puts the current value back
	flag() bool      // booleans and integers: what lazy initialisation guards (zeroed by a first-use reset)
}

type reg struct {
	known   bool
	restore func() // set by vsync.Baseline for values met before it (e.g. stored by the library's init functions)
}

//go:norace
func (r *reg) note(x resetter) {
	if !r.known {
		r.known = true
		vsync.RegisterReset(func() {
			r.known = false
			if r.restore != nil && !(vsync.FirstUse && x.flag()) {
				r.restore()
			} else {
				x.reset()
			}
		})
		if r.restore == nil {
			vsync.RegisterCapture(func() { r.restore = x.capture() })
		}
	}
}

type isFlag struct{}

func (isFlag) flag() bool { return true }

type isRef struct{}

func (isRef) flag() bool { return false }

type enabled struct{}

//go:norace
func (enabled) EnabledFor(string) bool { return true }

// Bool -------------------------------------------------------------------------

type Bool struct {
	enabled
	isFlag
	v atomic.Bool
	r reg
}

func (b *Bool) reset()           { b.v.Store(false) }
func (b *Bool) capture() func()  { v := b.v.Load(); return func() { b.v.Store(v) } }
func (b *Bool) Load() bool       { sched.Point("atomic.load", b); b.r.note(b); return b.v.Load() }
func (b *Bool) Store(val bool)   { sched.Point("atomic.store", b); b.r.note(b); b.v.Store(val) }
func (b *Bool) Swap(n bool) bool { sched.Point("atomic.swap", b); b.r.note(b); return b.v.Swap(n) }
func (b *Bool) CompareAndSwap(old, new bool) bool {
	sched.Point("atomic.cas", b)
	b.r.note(b)
	return b.v.CompareAndSwap(old, new)
}

// Int32 ------------------------------------------------------------------------

type Int32 struct {
	enabled
	isFlag
	v atomic.Int32
	r reg
}

func (x *Int32) reset()             { x.v.Store(0) }
func (x *Int32) capture() func()    { v := x.v.Load(); return func() { x.v.Store(v) } }
func (x *Int32) Load() int32        { sched.Point("atomic.load", x); x.r.note(x); return x.v.Load() }
func (x *Int32) Store(v int32)      { sched.Point("atomic.store", x); x.r.note(x); x.v.Store(v) }
func (x *Int32) Swap(v int32) int32 { sched.Point("atomic.swap", x); x.r.note(x); return x.v.Swap(v) }
func (x *Int32) Add(d int32) int32  { sched.Point("atomic.add", x); x.r.note(x); return x.v.Add(d) }
func (x *Int32) CompareAndSwap(o, n int32) bool {
	sched.Point("atomic.cas", x)
	x.r.note(x)
	return x.v.CompareAndSwap(o, n)
}

// Int64 ------------------------------------------------------------------------

type Int64 struct {
	enabled
	isFlag
	v atomic.Int64
	r reg
}

func (x *Int64) reset()             { x.v.Store(0) }
func (x *Int64) capture() func()    { v := x.v.Load(); return func() { x.v.Store(v) } }
func (x *Int64) Load() int64        { sched.Point("atomic.load", x); x.r.note(x); return x.v.Load() }
func (x *Int64) Store(v int64)      { sched.Point("atomic.store", x); x.r.note(x); x.v.Store(v) }
func (x *Int64) Swap(v int64) int64 { sched.Point("atomic.swap", x); x.r.note(x); return x.v.Swap(v) }
func (x *Int64) Add(d int64) int64  { sched.Point("atomic.add", x); x.r.note(x); return x.v.Add(d) }
func (x *Int64) CompareAndSwap(o, n int64) bool {
	sched.Point("atomic.cas", x)
	x.r.note(x)
	return x.v.CompareAndSwap(o, n)
}

// Uint32 -----------------------------------------------------------------------

type Uint32 struct {
	enabled
	isFlag
	v atomic.Uint32
	r reg
}

func (x *Uint32) reset()          { x.v.Store(0) }
func (x *Uint32) capture() func() { v := x.v.Load(); return func() { x.v.Store(v) } }
func (x *Uint32) Load() uint32    { sched.Point("atomic.load", x); x.r.note(x); return x.v.Load() }
func (x *Uint32) Store(v uint32)  { sched.Point("atomic.store", x); x.r.note(x); x.v.Store(v) }
func (x *Uint32) Swap(v uint32) uint32 {
	sched.Point("atomic.swap", x)
	x.r.note(x)
	return x.v.Swap(v)
}
func (x *Uint32) Add(d uint32) uint32 { sched.Point("atomic.add", x); x.r.note(x); return x.v.Add(d) }
func (x *Uint32) CompareAndSwap(o, n uint32) bool {
	sched.Point("atomic.cas", x)
	x.r.note(x)
	return x.v.CompareAndSwap(o, n)
}

// Uint64 -----------------------------------------------------------------------

type Uint64 struct {
	enabled
	isFlag
	v atomic.Uint64
	r reg
}

func (x *Uint64) reset()          { x.v.Store(0) }
func (x *Uint64) capture() func() { v := x.v.Load(); return func() { x.v.Store(v) } }
func (x *Uint64) Load() uint64    { sched.Point("atomic.load", x); x.r.note(x); return x.v.Load() }
func (x *Uint64) Store(v uint64)  { sched.Point("atomic.store", x); x.r.note(x); x.v.Store(v) }
func (x *Uint64) Swap(v uint64) uint64 {
	sched.Point("atomic.swap", x)
	x.r.note(x)
	return x.v.Swap(v)
}
func (x *Uint64) Add(d uint64) uint64 { sched.Point("atomic.add", x); x.r.note(x); return x.v.Add(d) }
func (x *Uint64) CompareAndSwap(o, n uint64) bool {
	sched.Point("atomic.cas", x)
	x.r.note(x)
	return x.v.CompareAndSwap(o, n)
}

// Pointer ----------------------------------------------------------------------

type Pointer[T any] struct {
	enabled
	isRef
	v atomic.Pointer[T]
	r reg
}

func (x *Pointer[T]) reset()          { x.v.Store(nil) }
func (x *Pointer[T]) capture() func() { v := x.v.Load(); return func() { x.v.Store(v) } }
func (x *Pointer[T]) Load() *T        { sched.Point("atomic.load", x); x.r.note(x); return x.v.Load() }
func (x *Pointer[T]) Store(v *T)      { sched.Point("atomic.store", x); x.r.note(x); x.v.Store(v) }
func (x *Pointer[T]) Swap(v *T) *T    { sched.Point("atomic.swap", x); x.r.note(x); return x.v.Swap(v) }
func (x *Pointer[T]) CompareAndSwap(o, n *T) bool {
	sched.Point("atomic.cas", x)
	x.r.note(x)
	return x.v.CompareAndSwap(o, n)
}

// Value ------------------------------------------------------------------------

type Value struct {
	enabled
	isRef
	v *atomic.Value
	r reg
}

//go:norace
func (x *Value) real() *atomic.Value {
	if x.v == nil {
		x.v = &atomic.Value{}
	}
	return x.v
}

//go:norace
func (x *Value) reset() { x.v = nil }

//go:norace
func (x *Value) capture() func() {
	if x.v == nil {
		return func() { x.v = nil }
	}
	held := x.v.Load()
	return func() {
		x.v = &atomic.Value{}
		if held != nil {
			x.v.Store(held)
		}
	}
}

func (x *Value) Load() any      { sched.Point("atomic.load", x); x.r.note(x); return x.real().Load() }
func (x *Value) Store(v any)    { sched.Point("atomic.store", x); x.r.note(x); x.real().Store(v) }
func (x *Value) Swap(v any) any { sched.Point("atomic.swap", x); x.r.note(x); return x.real().Swap(v) }
func (x *Value) CompareAndSwap(o, n any) bool {
	sched.Point("atomic.cas", x)
	x.r.note(x)
	return x.real().CompareAndSwap(o, n)
}

// function forms (plain words: scheduling points, no reset) ----------------------

type word struct{ enabled }

var w = &word{}

func AddInt32(a *int32, d int32) int32 { sched.Point("atomic.add", w); return atomic.AddInt32(a, d) }
func AddInt64(a *int64, d int64) int64 { sched.Point("atomic.add", w); return atomic.AddInt64(a, d) }
func AddUint32(a *uint32, d uint32) uint32 {
	sched.Point("atomic.add", w)
	return atomic.AddUint32(a, d)
}
func AddUint64(a *uint64, d uint64) uint64 {
	sched.Point("atomic.add", w)
	return atomic.AddUint64(a, d)
}
func LoadInt32(a *int32) int32          { sched.Point("atomic.load", w); return atomic.LoadInt32(a) }
func LoadInt64(a *int64) int64          { sched.Point("atomic.load", w); return atomic.LoadInt64(a) }
func LoadUint32(a *uint32) uint32       { sched.Point("atomic.load", w); return atomic.LoadUint32(a) }
func LoadUint64(a *uint64) uint64       { sched.Point("atomic.load", w); return atomic.LoadUint64(a) }
func StoreInt32(a *int32, v int32)      { sched.Point("atomic.store", w); atomic.StoreInt32(a, v) }
func StoreInt64(a *int64, v int64)      { sched.Point("atomic.store", w); atomic.StoreInt64(a, v) }
func StoreUint32(a *uint32, v uint32)   { sched.Point("atomic.store", w); atomic.StoreUint32(a, v) }
func StoreUint64(a *uint64, v uint64)   { sched.Point("atomic.store", w); atomic.StoreUint64(a, v) }
func SwapInt32(a *int32, v int32) int32 { sched.Point("atomic.swap", w); return atomic.SwapInt32(a, v) }
func SwapInt64(a *int64, v int64) int64 { sched.Point("atomic.swap", w); return atomic.SwapInt64(a, v) }
func SwapUint32(a *uint32, v uint32) uint32 {
	sched.Point("atomic.swap", w)
	return atomic.SwapUint32(a, v)
}
func SwapUint64(a *uint64, v uint64) uint64 {
	sched.Point("atomic.swap", w)
	return atomic.SwapUint64(a, v)
}
func CompareAndSwapInt32(a *int32, o, n int32) bool {
	sched.Point("atomic.cas", w)
	return atomic.CompareAndSwapInt32(a, o, n)
}
func CompareAndSwapInt64(a *int64, o, n int64) bool {
	sched.Point("atomic.cas", w)
	return atomic.CompareAndSwapInt64(a, o, n)
}
func CompareAndSwapUint32(a *uint32, o, n uint32) bool {
	sched.Point("atomic.cas", w)
	return atomic.CompareAndSwapUint32(a, o, n)
}
func CompareAndSwapUint64(a *uint64, o, n uint64) bool {
	sched.Point("atomic.cas", w)
	return atomic.CompareAndSwapUint64(a, o, n)
}
func LoadPointer(a *unsafe.Pointer) unsafe.Pointer {
	sched.Point("atomic.load", w)
	return atomic.LoadPointer(a)
}
func StorePointer(a *unsafe.Pointer, v unsafe.Pointer) {
	sched.Point("atomic.store", w)
	atomic.StorePointer(a, v)
}
func CompareAndSwapPointer(a *unsafe.Pointer, o, n unsafe.Pointer) bool {
	sched.Point("atomic.cas", w)
	return atomic.CompareAndSwapPointer(a, o, n)
}
