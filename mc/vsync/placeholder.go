// Package vsync is the sync shim driven by the controlled scheduler (see sched.go).
package vsync
