// Package vsync is the sync shim: the same API as package sync for the types
// the code under test uses. Every operation is a scheduling point of package
// sched and then performs the real sync operation, which under the one-thread-
// at-a-time discipline never blocks; the real operation gives ThreadSanitizer
// the program's own acquire/release edges. The shim's bookkeeping is kept in
// //go:norace functions so that it is invisible to the race detector.
package vsync

import (
	"sync"

	"mcverif/sched"
)

type Locker = sync.Locker

// Pool is a deterministic sync.Pool: a LIFO stack with scheduling points and no random dropping (the real pool
// drops and steals at the runtime's whim, and under the race detector on purpose at random; every behaviour of
// this one is a legal behaviour of the real one, and it is the one that reuses objects as eagerly as possible).
// The stack is guarded by a real mutex, which gives ThreadSanitizer the Put -> Get edge the real pool has.
type Pool struct {
	New   func() any
	mu    sync.Mutex
	items []any
	known bool
}

//go:norace
func (p *Pool) EnabledFor(string) bool { return true }

//go:norace
func (p *Pool) prepare() {
	if !p.known {
		p.known = true
		RegisterReset(func() { p.known = false; p.items = nil })
	}
}

func (p *Pool) Get() any {
	sched.Point("pool.get", p)
	p.prepare()
	p.mu.Lock()
	var x any
	if n := len(p.items); n > 0 {
		x = p.items[n-1]
		p.items = p.items[:n-1]
	}
	p.mu.Unlock()
	if x == nil && p.New != nil {
		x = p.New()
	}
	return x
}

func (p *Pool) Put(x any) {
	if x == nil {
		return
	}
	sched.Point("pool.put", p)
	p.prepare()
	p.mu.Lock()
	p.items = append(p.items, x)
	p.mu.Unlock()
}

// Cond is sync.Cond under the scheduler: Wait releases L, then is a scheduling point that is enabled once a Signal
// or Broadcast has picked the waiter, then takes L again. Outside an execution it is the real condition variable.
type Cond struct {
	L       Locker
	real    *sync.Cond
	waiters []*condWaiter
}

type condWaiter struct{ woken bool }

//go:norace
func (w *condWaiter) EnabledFor(string) bool { return w.woken }

func NewCond(l Locker) *Cond { return &Cond{L: l} }

//go:norace
func (c *Cond) EnabledFor(string) bool { return true }

//go:norace
func (c *Cond) realCond() *sync.Cond {
	if c.real == nil {
		c.real = sync.NewCond(c.L)
	}
	return c.real
}

//go:norace
func (c *Cond) enqueue() *condWaiter {
	w := &condWaiter{}
	c.waiters = append(c.waiters, w)
	return w
}

//go:norace
func (c *Cond) wake(all bool) {
	for len(c.waiters) > 0 {
		c.waiters[0].woken = true
		c.waiters = c.waiters[1:]
		if !all {
			return
		}
	}
}

func (c *Cond) Wait() {
	if !sched.Active() {
		c.realCond().Wait()
		return
	}
	w := c.enqueue()
	c.L.Unlock()
	sched.Point("cond.wait", w)
	c.L.Lock()
}

func (c *Cond) Signal() {
	if !sched.Active() {
		c.realCond().Signal()
		return
	}
	sched.Point("cond.signal", c)
	c.wake(false)
}

func (c *Cond) Broadcast() {
	if !sched.Active() {
		c.realCond().Broadcast()
		return
	}
	sched.Point("cond.broadcast", c)
	c.wake(true)
}

func OnceFunc(f func()) func() { return sync.OnceFunc(f) }

// Mutex ----------------------------------------------------------------------

type Mutex struct {
	mu   sync.Mutex
	held bool
}

//go:norace
func (m *Mutex) EnabledFor(kind string) bool {
	if kind == "lock" {
		return !m.held
	}
	return true
}

//go:norace
func (m *Mutex) setHeld(v bool) { m.held = v }

func (m *Mutex) Lock() {
	sched.Point("lock", m)
	m.mu.Lock()
	m.setHeld(true)
}

func (m *Mutex) Unlock() {
	sched.Point("unlock", m)
	m.setHeld(false)
	m.mu.Unlock()
}

func (m *Mutex) TryLock() bool {
	sched.Point("trylock", m)
	if m.mu.TryLock() {
		m.setHeld(true)
		return true
	}
	return false
}

// RWMutex ----------------------------------------------------------------------

// RWMutex models sync.RWMutex including its writer preference: a Lock call that has to wait for readers blocks
// every later RLock until the writer got and released the lock (so a recursive read lock with a writer arriving in
// between is the deadlock it is at run time). Lock is therefore two scheduling points: announcing the call (always
// enabled; from then on new readers wait) and acquiring (enabled when no reader and no writer holds).
type RWMutex struct {
	mu      sync.RWMutex
	writer  bool
	readers int
	pending int // Lock calls announced and not yet acquired
}

//go:norace
func (m *RWMutex) EnabledFor(kind string) bool {
	switch kind {
	case "lock":
		return !m.writer && m.readers == 0
	case "rlock":
		return !m.writer && m.pending == 0
	}
	return true
}

//go:norace
func (m *RWMutex) addPending(d int) { m.pending += d }

//go:norace
func (m *RWMutex) note(w bool, dr int) {
	m.writer = w
	m.readers += dr
}

//go:norace
func (m *RWMutex) isWriter() bool { return m.writer }

func (m *RWMutex) Lock() {
	sched.Point("lock-call", m)
	m.addPending(1)
	sched.Point("lock", m)
	m.addPending(-1)
	m.mu.Lock()
	m.note(true, 0)
}

func (m *RWMutex) Unlock() {
	sched.Point("unlock", m)
	m.note(false, 0)
	m.mu.Unlock()
}

func (m *RWMutex) RLock() {
	sched.Point("rlock", m)
	m.mu.RLock()
	m.note(m.isWriter(), 1)
}

func (m *RWMutex) RUnlock() {
	sched.Point("runlock", m)
	m.note(m.isWriter(), -1)
	m.mu.RUnlock()
}

func (m *RWMutex) TryLock() bool {
	sched.Point("trylock", m)
	if m.mu.TryLock() {
		m.note(true, 0)
		return true
	}
	return false
}

func (m *RWMutex) TryRLock() bool {
	sched.Point("tryrlock", m)
	if m.mu.TryRLock() {
		m.note(m.isWriter(), 1)
		return true
	}
	return false
}

func (m *RWMutex) RLocker() Locker { return (*rlocker)(m) }

type rlocker RWMutex

func (r *rlocker) Lock()   { (*RWMutex)(r).RLock() }
func (r *rlocker) Unlock() { (*RWMutex)(r).RUnlock() }

// Once ---------------------------------------------------------------------------

type Once struct {
	real    *sync.Once
	running bool
	known   bool
}

var (
	onces  []*Once
	maps   []*Map
	resets []func() // one-shot resets registered by other shims (vatomic); dropped after they ran

	// Baseline: what the package-level objects held when the harness took over (after the library's own init
	// functions ran). A reset puts an object back to that, not to its zero value: a registry published through an
	// atomic pointer in init(), or a sync.Map filled there, is part of the state a fresh process starts from.
	captures   []func() // capture actions of the objects met before Baseline
	baselined  bool
	mapBase    = map[*Map][][2]any{}
	onceAtBase = map[*Once]bool{}
)

// RegisterCapture adds a capture action that Baseline runs once (used by the atomic shim). Objects first met after
// Baseline have no captured value and are reset to zero.
//
//go:norace
func RegisterCapture(f func()) {
	if !baselined {
		captures = append(captures, f)
	}
}

// Baseline records the current content of every shimmed object met so far as the state resets return to. Only the
// first call counts.
//
//go:norace
func Baseline() {
	if baselined {
		return
	}
	baselined = true
	for _, f := range captures {
		f()
	}
	captures = nil
	for _, m := range maps {
		var l [][2]any
		m.m.Range(func(k, v any) bool { l = append(l, [2]any{k, v}); return true })
		mapBase[m] = l
	}
}

// RegisterReset adds a reset action for ResetAll (used by the atomic shim).
//
//go:norace
func RegisterReset(f func()) { resets = append(resets, f) }

//go:norace
func (o *Once) EnabledFor(kind string) bool { return !o.running }

//go:norace
func (o *Once) prepare() *sync.Once {
	if o.real == nil {
		o.real = &sync.Once{}
	}
	if !o.known {
		o.known = true
		onces = append(onces, o)
	}
	return o.real
}

//go:norace
func (o *Once) setRunning(v bool) { o.running = v }

func (o *Once) Do(f func()) {
	sched.Point("once", o)
	r := o.prepare()
	r.Do(func() {
		o.setRunning(true)
		defer o.setRunning(false)
		f()
	})
}

// Map ----------------------------------------------------------------------------

type Map struct {
	m     sync.Map
	known bool
}

//go:norace
func (m *Map) EnabledFor(string) bool { return true }

//go:norace
func (m *Map) prepare() {
	if !m.known {
		m.known = true
		maps = append(maps, m)
	}
}

func (m *Map) Load(key any) (any, bool) {
	sched.Point("map.load", m)
	m.prepare()
	return m.m.Load(key)
}

func (m *Map) Store(key, value any) {
	sched.Point("map.store", m)
	m.prepare()
	m.m.Store(key, value)
}

func (m *Map) LoadOrStore(key, value any) (any, bool) {
	sched.Point("map.loadorstore", m)
	m.prepare()
	return m.m.LoadOrStore(key, value)
}

func (m *Map) LoadAndDelete(key any) (any, bool) {
	sched.Point("map.loadanddelete", m)
	m.prepare()
	return m.m.LoadAndDelete(key)
}

func (m *Map) Delete(key any) {
	sched.Point("map.delete", m)
	m.prepare()
	m.m.Delete(key)
}

func (m *Map) Swap(key, value any) (any, bool) {
	sched.Point("map.swap", m)
	m.prepare()
	return m.m.Swap(key, value)
}

func (m *Map) CompareAndSwap(key, old, new any) bool {
	sched.Point("map.cas", m)
	m.prepare()
	return m.m.CompareAndSwap(key, old, new)
}

func (m *Map) CompareAndDelete(key, old any) bool {
	sched.Point("map.cad", m)
	m.prepare()
	return m.m.CompareAndDelete(key, old)
}

func (m *Map) Range(f func(key, value any) bool) {
	sched.Point("map.range", m)
	m.prepare()
	m.m.Range(f)
}

// WaitGroup ------------------------------------------------------------------------

type WaitGroup struct {
	wg sync.WaitGroup
	n  int
}

//go:norace
func (w *WaitGroup) EnabledFor(kind string) bool {
	if kind == "wait" {
		return w.n == 0
	}
	return true
}

//go:norace
func (w *WaitGroup) add(d int) { w.n += d }

func (w *WaitGroup) Add(d int) {
	sched.Point("wg.add", w)
	w.add(d)
	w.wg.Add(d)
}

func (w *WaitGroup) Done() { w.Add(-1) }

func (w *WaitGroup) Wait() {
	sched.Point("wait", w)
	w.wg.Wait()
}

// ResetAll re-arms every Once and empties every Map the shim has seen. It must
// only be called while no execution is in progress.
//
//go:norace
func ResetAll() { resetAll(false) }

// ResetFirstUse puts the shimmed objects into the state of a process that has not used the packages yet: what lazy
// initialisation guards - flags and counters (typed atomic booleans and integers), Once objects, concurrent maps -
// goes back to zero / empty even if an init function of the harness's imports has already triggered that
// initialisation; structures published through atomic pointers and values keep what the init functions stored.
func ResetFirstUse() { resetAll(true) }

// FirstUse tells the reset actions of other shims (vatomic) which of the two resets is running.
var FirstUse bool

func resetAll(firstUse bool) {
	FirstUse = firstUse
	defer func() { FirstUse = false }()
	for _, o := range onces {
		o.real = &sync.Once{}
		o.running = false
	}
	for _, m := range maps {
		m.m.Range(func(k, _ any) bool { m.m.Delete(k); return true })
		if !firstUse {
			for _, kv := range mapBase[m] {
				m.m.Store(kv[0], kv[1])
			}
		}
	}
	rs := resets
	resets = nil
	for _, f := range rs {
		f()
	}
}

// Seen reports how many Once and Map objects the shim has met (harness self-test).
//
//go:norace
func Seen() (int, int) { return len(onces), len(maps) }
