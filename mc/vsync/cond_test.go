package vsync_test

import (
	"testing"

	"mcverif/sched"
	"mcverif/vsync"
)

// producer/consumer with a condition variable: every schedule terminates, and a missing signal deadlocks
func TestCond(t *testing.T) {
	for _, signal := range []bool{true, false} {
		deadlocks, n := 0, 0
		sched.Explore(-1, func() []func() {
			var mu vsync.Mutex
			cv := vsync.NewCond(&mu)
			ready := false
			return []func(){
				func() {
					mu.Lock()
					for !ready {
						cv.Wait()
					}
					mu.Unlock()
				},
				func() {
					mu.Lock()
					ready = true
					mu.Unlock()
					if signal {
						cv.Signal()
					}
				},
			}
		}, func(x *sched.Exec) bool {
			n++
			if x.Deadlock {
				deadlocks++
				return false // a deadlocked execution leaves parked goroutines; stop
			}
			return true
		})
		t.Logf("signal=%v schedules=%d deadlocks=%d", signal, n, deadlocks)
		if signal && deadlocks != 0 {
			t.Fatalf("deadlock with signal")
		}
		if !signal && deadlocks == 0 {
			t.Fatalf("no deadlock without signal")
		}
	}
}
