// Package vpoint is the code-point seam: the instrumentation (cmd/instr, seam "points") inserts a call to P at the
// entry of every function and at the top of every loop body of the library's packages. While On is set - by the few
// exploration groups that want interleavings INSIDE calls that contain no synchronisation of their own - every such
// place is a scheduling point of the controlled scheduler; otherwise the call is a load and a branch.
package vpoint

import "mcverif/sched"

// On switches the points on (set by the harness between executions, never while threads run).
var On bool

// Sites is the number of inserted calls (set by the generated init function of the instrumented tree); 0 = seam absent.
var Sites int

type obj struct{}

//go:norace
func (obj) EnabledFor(string) bool { return true }

var o obj

// P is a scheduling point when the seam is on.
//
//go:norace
func P() {
	if On {
		sched.Point("code", o)
	}
}
