//go:build race

package sched

import "runtime"

// RaceBuild tells whether the binary is race-instrumented.
const RaceBuild = true

//go:norace
func raceDisable() { runtime.RaceDisable() }

//go:norace
func raceEnable() { runtime.RaceEnable() }
