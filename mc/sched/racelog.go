package sched

import (
	"fmt"
	"os"
	"path/filepath"
	"regexp"
	"strings"
)

// RaceReport is one ThreadSanitizer report.
type RaceReport struct {
	Text      string
	Signature string // innermost non-runtime frame of each of the two stacks
}

var raceOffset = map[string]int64{}

// NewRaceReports returns the reports ThreadSanitizer appended to its log since the last call.
// GORACE must contain log_path=$MCVERIF_TSAN_LOG (the supervisor sets it).
func NewRaceReports() []RaceReport {
	base := os.Getenv("MCVERIF_TSAN_LOG")
	if base == "" {
		return nil
	}
	files, _ := filepath.Glob(base + ".*")
	var out []RaceReport
	for _, f := range files {
		b, err := os.ReadFile(f)
		if err != nil {
			continue
		}
		off := raceOffset[f]
		if int64(len(b)) <= off {
			continue
		}
		chunk := string(b[off:])
		raceOffset[f] = int64(len(b))
		for _, part := range strings.Split(chunk, "==================") {
			if !strings.Contains(part, "WARNING: DATA RACE") {
				continue
			}
			out = append(out, RaceReport{Text: strings.TrimSpace(part), Signature: signature(part)})
		}
	}
	return out
}

var frameRe = regexp.MustCompile(`(?m)^  ([^\s(]+)\(`)

// signature: for each of the first two stacks the innermost frame that is not runtime / sync / harness shim.
func signature(report string) string {
	var sigs []string
	blocks := strings.Split(report, "\n\n")
	for _, b := range blocks {
		head := strings.SplitN(b, "\n", 2)[0]
		if !(strings.Contains(head, "Write at") || strings.Contains(head, "Read at") || strings.Contains(head, "Previous write at") || strings.Contains(head, "Previous read at")) {
			continue
		}
		for _, m := range frameRe.FindAllStringSubmatch(b, -1) {
			fn := m[1]
			if strings.HasPrefix(fn, "runtime.") || strings.HasPrefix(fn, "sync.") || strings.HasPrefix(fn, "sync/atomic.") || strings.HasPrefix(fn, "mcverif/vsync.") || strings.HasPrefix(fn, "internal/") {
				continue
			}
			sigs = append(sigs, strings.TrimPrefix(fn, "github.com/protobom/protobom/"))
			break
		}
	}
	if len(sigs) == 0 {
		return "unknown"
	}
	if len(sigs) > 2 {
		sigs = sigs[:2]
	}
	// order-insensitive
	if len(sigs) == 2 && sigs[1] < sigs[0] {
		sigs[0], sigs[1] = sigs[1], sigs[0]
	}
	return strings.Join(sigs, " <-> ")
}

// DescribeSchedule renders an execution's decisions compactly.
func DescribeSchedule(x *Exec) string {
	var sb strings.Builder
	for i, p := range x.Points {
		fmt.Fprintf(&sb, "%d:%s[T%d→T%d of %v] ", i, p.Op, p.Running, p.Enabled[p.Chosen], p.Enabled)
	}
	return sb.String()
}
