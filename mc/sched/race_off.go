//go:build !race

package sched

// RaceBuild tells whether the binary is race-instrumented.
const RaceBuild = false

func raceDisable() {}
func raceEnable()  {}
