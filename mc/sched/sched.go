// Package sched is the controlled scheduler (E3) and the choice-sequence DFS
// that drives it (E2). Threads are goroutines that run strictly one at a time;
// scheduling points are the operations of the vsync shim. Hand-offs between
// threads are hidden from the race detector (runtime.RaceDisable around the
// channel operations, scheduler functions are //go:norace), so ThreadSanitizer
// sees exactly the happens-before edges the program under test creates itself
// while the execution is fully serialised and deterministic.
package sched

import (
	"fmt"
	"runtime"
	"sync"
)

// Blocker is implemented by shim objects: can operation kind proceed now?
type Blocker interface {
	EnabledFor(kind string) bool
}

type thread struct {
	gid      int64 // runtime id of the goroutine that carries the thread
	id       int
	wake     chan struct{}
	kind     string
	obj      Blocker
	finished bool
	started  bool
	fn       func()
}

// PointRec is one recorded scheduling decision.
type PointRec struct {
	Enabled        []int // thread ids in canonical order
	Chosen         int   // index into Enabled
	RunningEnabled bool  // the running thread could have continued
	Running        int   // id of the thread that was running (-1 at start / after an exit)
	Op             string
}

// Exec is the record of one execution.
type Exec struct {
	Points   []PointRec
	Choices  []int
	Deadlock bool
	Diverged string // non-empty: replay of the prefix met an out-of-range choice (hard harness error)
	// Foreign: a scheduling point was reached by a goroutine that is not one of the scheduler's threads (the code
	// under test started goroutines of its own). Such goroutines run freely; their interleavings are not enumerated.
	Foreign bool
}

var (
	active  bool
	cur     *thread
	threads []*thread
	prefix  []int
	exec    *Exec
	done    chan struct{}
)

// Active reports whether an execution is in progress (shim ops then are scheduling points).
//
//go:norace
func Active() bool { return active }

// CurrentID returns the id of the running thread (-1 outside an execution).
//
//go:norace
func CurrentID() int {
	if !active || cur == nil {
		return -1
	}
	return cur.id
}

//go:norace
func handoff(t *thread) {
	raceDisable()
	t.wake <- struct{}{}
	raceEnable()
}

//go:norace
func park(t *thread) {
	raceDisable()
	<-t.wake
	raceEnable()
}

//go:norace
func enabledOf(t *thread) bool {
	if t.finished {
		return false
	}
	if !t.started || t.obj == nil {
		return true
	}
	return t.obj.EnabledFor(t.kind)
}

// pick decides who runs next. running may be nil (start, or the running thread just finished).
//
//go:norace
func pick(running *thread, op string) *thread {
	var order []*thread
	runEn := false
	if running != nil && enabledOf(running) {
		order = append(order, running)
		runEn = true
	}
	for _, t := range threads {
		if t != running && enabledOf(t) {
			order = append(order, t)
		}
	}
	if len(order) == 0 {
		return nil
	}
	step := len(exec.Choices)
	choice := 0
	if step < len(prefix) {
		choice = prefix[step]
		if choice >= len(order) {
			exec.Diverged = fmt.Sprintf("replay divergence at point %d: choice %d but only %d threads enabled", step, choice, len(order))
			choice = 0
		}
	}
	rec := PointRec{Chosen: choice, RunningEnabled: runEn, Running: -1, Op: op}
	if running != nil {
		rec.Running = running.id
	}
	for _, t := range order {
		rec.Enabled = append(rec.Enabled, t.id)
	}
	exec.Points = append(exec.Points, rec)
	exec.Choices = append(exec.Choices, choice)
	return order[choice]
}

// Point is called by the shim before every synchronisation operation.
//
//go:norace
func Point(kind string, obj Blocker) {
	if !active {
		return
	}
	t := cur
	if t == nil || t.gid != goid() {
		// not the scheduler's running thread: a goroutine started by the code under test. It is not scheduled.
		exec.Foreign = true
		return
	}
	t.kind, t.obj = kind, obj
	next := pick(t, kind)
	if next == nil {
		// nobody can run, including this thread: deadlock
		exec.Deadlock = true
		active = false
		close(done)
		park(t) // never woken
		return
	}
	if next != t {
		cur = next
		handoff(next)
		park(t)
		// woken: cur was set to t by whoever handed off
	}
	t.kind, t.obj = "", nil
}

//go:norace
func finish(t *thread) {
	t.finished = true
	all := true
	for _, x := range threads {
		if !x.finished {
			all = false
		}
	}
	if all {
		active = false
		close(done)
		return
	}
	next := pick(nil, "exit")
	if next == nil {
		exec.Deadlock = true
		active = false
		close(done)
		return
	}
	cur = next
	handoff(next)
}

// Run executes the thread bodies under the schedule given by choicePrefix
// (choice 0 afterwards) and returns the record. Bodies must not start goroutines.
func Run(bodies []func(), choicePrefix []int) *Exec {
	setup(bodies, choicePrefix)
	var join sync.WaitGroup // visible join of every thread: what the threads wrote is ordered before the caller's reads
	for _, t := range threads {
		t := t
		join.Add(1)
		go func() {
			setGid(t)
			park(t)
			markStarted(t)
			t.fn()
			join.Done()
			d := doneChan()
			finish(t)
			// stay alive until every thread has finished: ThreadSanitizer reports a race with a goroutine that has
			// already exited only some of the time (its context may have been recycled), with a live one always
			<-d
		}()
	}
	start()
	<-done
	if !exec.Deadlock {
		join.Wait()
	}
	return exec
}

//go:norace
func setup(bodies []func(), choicePrefix []int) {
	threads = nil
	for i, b := range bodies {
		threads = append(threads, &thread{id: i, wake: make(chan struct{}), fn: b})
	}
	prefix = choicePrefix
	exec = &Exec{}
	done = make(chan struct{})
	active = true
	cur = nil
}

//go:norace
func markStarted(t *thread) { t.started = true }

//go:norace
func setGid(t *thread) { t.gid = goid() }

// goid returns the runtime id of the calling goroutine (parsed from the stack header; about a microsecond).
//
//go:norace
func goid() int64 {
	var buf [40]byte
	n := runtime.Stack(buf[:], false)
	// "goroutine 123 [running]:"
	var id int64
	for _, c := range buf[10:n] {
		if c < '0' || c > '9' {
			break
		}
		id = id*10 + int64(c-'0')
	}
	return id
}

//go:norace
func doneChan() chan struct{} { return done }

//go:norace
func start() {
	first := pick(nil, "start")
	cur = first
	handoff(first)
}

// Explore enumerates every schedule of the scenario with at most bound
// preemptions (bound < 0: unbounded). newBodies is called before every
// execution and must reset all shared state and return fresh thread bodies;
// after is called with every execution record. It returns the number of
// schedules executed. If after returns false the exploration stops.
func Explore(bound int, newBodies func() []func(), after func(x *Exec) bool) int {
	n := 0
	stop := false
	var explore func(pfx []int)
	explore = func(pfx []int) {
		if stop {
			return
		}
		x := Run(newBodies(), pfx)
		n++
		if !after(x) {
			stop = true
			return
		}
		if x.Deadlock || x.Diverged != "" {
			return
		}
		pre := 0
		for i := 0; i < len(x.Points); i++ {
			p := x.Points[i]
			if i >= len(pfx) {
				for alt := 1; alt < len(p.Enabled); alt++ {
					cost := pre
					if p.RunningEnabled {
						cost++
					}
					if bound >= 0 && cost > bound {
						continue
					}
					explore(append(append([]int{}, x.Choices[:i]...), alt))
					if stop {
						return
					}
				}
			}
			if p.RunningEnabled && x.Choices[i] != 0 {
				pre++
			}
		}
	}
	explore(nil)
	return n
}
