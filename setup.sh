#!/usr/bin/env bash
# MANIFEST.setup_cmd: build the explorer binaries once so the Go build cache is warm. Offline.
set -eu
cd "$(dirname "$0")"
./run build
echo "setup ok"
