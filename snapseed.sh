#!/usr/bin/env bash
# Evaluate one seeded change against checks without touching /repo or /verif:
#   ./snapseed.sh <seed-name> <Cxx> [more Cxx...]
# Copies /verif to /tmp/vsnap-<seed> and /repo's HEAD to a worktree /tmp/rseed-<seed>, applies the seed's patch to
# the worktree and runs the quick (TIER=thorough: thorough) check of each named property from the copy with
# VERIF_REPO pointing at the worktree. Both copies are removed afterwards. Evidence written by these runs stays in
# the copy and is never committed.
set -u
seed="$1"; shift
snap="/tmp/vsnap-$seed"; wt="/tmp/rseed-$seed"
trap 'git -C /repo worktree remove --force "$wt" >/dev/null 2>&1; git -C /repo worktree prune; rm -rf "$snap" "$wt"' EXIT
rsync -a --delete --exclude .git /verif/ "$snap/" || exit 2
git -C /repo worktree add --detach "$wt" HEAD >/dev/null 2>&1 || exit 2
if ! git -C "$wt" apply "/verif/seeded/$seed/patch.diff"; then echo "PATCH-DOES-NOT-APPLY"; exit 2; fi
cd "$snap" || exit 2
for p in "$@"; do
  tier=${TIER:-quick}
  out=$(VERIF_REPO="$wt" ./run check "$p" "$tier" 2>&1); rc=$?
  echo "SEED $seed CHECK $p $tier: exit=$rc $(echo "$out" | grep -c '^VIOLATION') violation line(s)"
  echo "$out" | grep -A2 '^VIOLATION' | head -${LINES_SHOWN:-6} | cut -c1-260
  echo "$out" | tail -1 | cut -c1-260
done
