#!/usr/bin/env python3
"""Generates MANIFEST.json from the table below (kept in one place so the manifest is always valid)."""
import json, sys
BASE_CMD = "cd /repo && go test -mod=mod -vet=off -count=1 ./..."
claimed = {
 "C15": dict(
   text="Bounded exhaustive exploration of the real NodeGraph / NodeSiblings / NodeDescendants on every directed multigraph of the stated bound (nodes, ordered edge-object lists incl. dangling targets, self loops, cycles, parallel edges), every root subset, every start node (and a missing one), every depth 1..n+1, compared against a BFS reference model with root-boundary semantics; every permutation of node and edge lists for order independence; termination by per-case watchdog.",
   note="Trusted: the 30-line BFS reference (validated against the implementation on every case); alphabet: 2 edge types, ids a..d plus one dangling id; bounds reported in evidence.coverage.bound.",
   technique="explicit-state enumeration of all small graphs x roots x starts x depths against a BFS reference model",
   design="5/C15"),
}
claimed.update({
 "C09": dict(
   text="Bounded exhaustive exploration of the real Union and Add on all ordered pairs (and triples, for associativity) of small node lists including ill-formed ones, against a set-of-triples reference model (nodes, roots united; edges united then restricted to present nodes), with idempotence, commutativity, identity and associativity; attribute precedence on a shared node for every Node field found by reflection, every unordered field pair x 16 emptiness combinations x 2 backgrounds.",
   note="Trusted: the 20-line set model; associativity asserted wherever the statement's own model is associative (all well-formed triples); id and type excluded from the attribute rule.",
   technique="explicit enumeration of all pairs/triples of small lists against a set model; reflection-driven attribute cube",
   design="5/C09"),
 "C10": dict(
   text="Bounded exhaustive exploration of the real Intersect on all ordered pairs of small node lists including ill-formed ones: exact node set, two-sided bounds for roots and edges as stated, commutativity, absorption with Union, emptiness; attribute precedence cube by reflection over every Node field.",
   note="Trusted: the bounds as written in the statement; any result between the bounds is accepted (e.g. roots-in-both only).",
   technique="explicit enumeration of all pairs of small lists against set bounds; reflection-driven attribute cube",
   design="5/C10"),
 "C16": dict(
   text="Bounded exhaustive exploration of GetMatchingNode on every list of <=3 (thorough 4) node variants x every probe variant x every permutation of the list against the documented rule written as a reference over HashesMatch, plus membership and order independence; plain lookups (id, name, identifier spelling x value, roots, purl type) against filter references on all small lists and permutations.",
   note="Trusted: the reference rule (validated against the implementation on every non-ambiguous case); empty-valued hash entries only get membership/uniqueness/order-independence; map iteration order is owned by the vmap seam (every case under ascending, descending and alternating key order; outcomes compared across orders).",
   technique="explicit enumeration of lists x probes x permutations against a documented-rule reference",
   design="5/C16"),
})
claimed.update({
 "C08": dict(
   text="Explicit-state breadth-first search over editing-operation histories on real NodeList values: ~100 operations (Union/Intersect/Add/RelateNodeListAtID with 8 library lists, RemoveNodes of every id subset, RelateNodeAtID, every extraction whose result becomes the next state) from every small well-formed initial list, depth 2 (thorough 4 or deadline), canonical-key de-duplication; well-formedness in every state, normalisation after merge/removal/extraction, RemoveNodes against a triple-set model.",
   note="Trusted: 20-line WellFormed/Normalised predicates and the removal model; successor states are rebuilt by replaying the history on fresh instances; premise (argument still well-formed) re-checked per step.",
   technique="explicit-state BFS over operation histories with canonical state hashing, invariant in every state",
   design="5/C08"),
 "C13": dict(
   text="Bounded exhaustive check of Node/Edge/NodeList equality and Node checksum on a reflection-generated value set (empty, sparse, fully populated bases x every single-field deviation incl. nested persons/external references/hashes, permutations of every set-valued list, sub-second date changes, crafted separator values): all ordered pairs for reflexivity, symmetry, checksum agreement, discrimination against a canonical-content reference and order-insensitivity; all triples for transitivity.",
   note="Trusted: the canonical-content reference (gen.Canon). Two known findings (unescaped separators, undelimited hash-map concatenation) are listed in known_findings.json; nil-vs-empty collections are C12's copy clause.",
   technique="explicit enumeration of all pairs/triples of a reflection-generated value set against a content reference",
   design="5/C13"),
 "C14": dict(
   text="Bounded exhaustive check of Node.Diff on ordered pairs (base, base + <=2 (thorough 3) single-field deviations generated by reflection, both directions; bases empty/sparse/full/full-with-duplicates): nil iff no attribute differs, DiffCount equals the number of differing attributes (set semantics, dates to the second), and rebuilding the first node from Removed/Added yields the second node's attributes; self and equal-copy diffs are nil.",
   note="Trusted: per-attribute content reference and the rebuild procedure (remove Removed, then apply Added).",
   technique="explicit enumeration of node pairs by reflection-driven deviations against count and reconstruction models",
   design="5/C14"),
})
claimed.update({
 "C11": dict(
   text="Bounded exhaustive check that every read-only or value-returning public operation of the model types (table checked for completeness against the method sets by reflection; ~300 operation instances per operand document: compare, hash, diff, copy, look up, traverse, unite, intersect, serialize through all 8 formats) leaves every operand unchanged: order-sensitive field-by-field snapshots before = after, on fully populated documents whose lists are stored unsorted, sparse and empty ones, with every second-operand variant.",
   note="Trusted: gen.Snap; for the concurrent clause the controlled scheduler (two threads, both orders = all schedules since the operations contain no synchronisation) with ThreadSanitizer seeing no hand-off edges: every unordered pair of operation families (thorough: instances) on a shared document.",
   technique="explicit enumeration of operations x operands with before/after snapshots; race-instrumented serialized pair schedules",
   design="5/C11"),
 "C12": dict(
   text="Bounded exhaustive check of value independence: for every message type with Copy (Node, Edge, Person, ExternalReference, NodeList) and for Union/Intersect over 5x5 operand lists built with spare slice capacity, every schema field path found by reflection (depth 3: list elements, map entries, appends, nested persons and references) is mutated on one side while the other side's snapshot must not change, in both directions; copies must equal their source; all call histories of length 2 (thorough 3) over {Copy, Union, Intersect} on shared operands re-snapshot every earlier result after every later call.",
   note="Trusted: gen.Snap and the reflection-driven deviation generator; writes into shared spare capacity are observed through the histories.",
   technique="explicit enumeration of field paths x derivations x sides with snapshots; exhaustive short call histories",
   design="5/C12"),
})
claimed.update({
 "C07": dict(
   text="Explicit-state search over Document construction histories: all distinct documents within 2 (thorough 3) steps of the all-nil message, NewDocument() and a well-formed base, over a 69-step menu (nil metadata/node list, empty and duplicate ids, out-of-range enum numbers, dangling edges/roots, cycles, 0..n roots, document types with every subset of optional fields), as built and after a protobuf round trip, through all 8 serializers via the real writer under recover: error xor output, no panic/exit/hang, two serializations equal up to timestamps and array order; plus all serialization histories of length <=2 (thorough 3) over 6 documents x 3 formats whose last output must equal the output of the same call made first in a fresh process.",
   note="Trusted: JSON normalisation (timestamps removed, arrays sorted); nil elements of repeated fields excluded (not message values).",
   technique="explicit-state BFS over construction histories x formats; exhaustive short serialization histories vs fresh-process references",
   design="5/C07"),
})
claimed.update({
 "C04": dict(
   text="Exhaustive schema-fault enumeration on the real reader: every single fault (13-entry menu: null, wrong type x3, empty, container of null, absent, duplicated, 10^4-char string, 10^4-element array, nesting 10^4 and 10^6) at every JSON path of a representative SPDX 2.3 and CycloneDX 1.5 document through detection, ParseStream and all 7 explicit formats; every pair of faults at distinct non-nested paths (quick: 4 structural fault kinds, thorough: all 8 light kinds); every token string of <=4 (thorough 5) tokens over a 19-token alphabet; oracle document xor error, no panic, no exit, no hang (oversized inputs in a child process with an address-space limit and an absolute deadline), plus an output-size growth probe that exposes exponential work without exhausting memory.",
   note="Trusted: the fault menu and base documents (hand-written to contain every member the unserializers read). Complexity is probed, not measured. Two known findings (licence-expression doubling).",
   technique="exhaustive single/double JSON schema-fault enumeration and bounded token-string enumeration under recover/watchdog",
   design="5/C04"),
})
claimed.update({
 "C01": dict(
   text="Bounded exhaustive exploration of the SPDX 2.3 write->read round trip on the real writer and reader: every graph shape over <=4 SPDX ids (ordered edge-object lists of <=3 objects with every non-empty target subset incl. self loops, cycles, repeated targets; every root subset; package/file kind patterns; indents 0,1,4), complete enum sweeps (all 44 relationship types singly and pairwise, all hash algorithms singly and pairwise on packages and files, identifier types, external-reference types, purposes) and every set of <=2 (thorough 3) attribute deviations from a 100-entry menu on a package+file document, against a set-of-triples graph model and a comparison of the listed attributes modulo the NOASSERTION/NONE convention; a second pass must change nothing.",
   note="Trusted: 10-line graph reference and the attribute comparison table; alphabets stated in evidence.assumptions; unlisted attributes are not judged.",
   technique="explicit enumeration of construction spaces through the real writer/reader against a triple-set model",
   design="5/C01"),
})
claimed.update({
 "C02": dict(
   text="Bounded exhaustive exploration of the CycloneDX 1.4/1.5 write->read round trip on the real writer and reader: every labelled containment tree with a fixed root and <=4 (thorough 5) further nodes in both edge encodings and every permutation of the stored edge list, complete per-version enum sweeps (hash algorithms on nodes and references, all external-reference types with native/degrade-to-other expectation, purposes, kinds, lifecycles, document versions) and every set of <=2 (thorough 3) attribute deviations on root and child, against a parent-function model and a per-attribute comparison; serial number, version and lifecycles preserved; second pass changes nothing.",
   note="Trusted: parent-function reference, native/1.5-only tables written from the CycloneDX spec. Two known findings (licence list truncation, document name mapped onto the root name).",
   technique="explicit enumeration of all small trees x encodings x edge permutations x versions through the real writer/reader",
   design="5/C02"),
})
claimed.update({
 "C03": dict(
   text="Bounded exhaustive exploration of translation completeness on the real writer: every well-formed graph over <=3 ids (ordered edge lists of contains/dependsOn/other edge objects, DAGs, cycles, self loops, every root subset; plain / two-purposes / file-kind attribute patterns) x all 7 registered formats, and every single structural mutation (delete/duplicate an element, delete/duplicate/retarget a relationship) at every position of each real SBOM of the repository reduced to its first k elements, parsed and written in CycloneDX 1.4/1.5 and SPDX 2.3; the output is decoded with encoding/json only and censused (every node exactly once, every expressible relationship present, nothing invented, no dangling reference), then read back for identity attributes.",
   note="Trusted: the plain-JSON census (no protobom or SBOM library type involved). CycloneDX containment pairs asserted for forests; identifiers that are not valid SPDX idstrings are only censused, not re-read.",
   technique="explicit enumeration of small graphs x formats and of single mutations of reduced real SBOMs with an independent JSON census",
   design="5/C03"),
})
claimed.update({
 "C05": dict(
   text="Bounded exhaustive exploration of the real reader on generated schema-valid inputs: every CycloneDX 1.3/1.4/1.5 component forest with <=3 (thorough 4) components, nesting <=3, references over {absent,a,b} (duplicates between siblings, parent/child, root/child) and metadata component {absent, with ref, without ref}; every SPDX 2.3 combination of <=2 (thorough 3) packages/files with duplicate ids, relationship lists over {a,b,dangling,DOCUMENT,NONE,NOASSERTION} endpoints, documentDescribes and hasFiles; plus real SBOMs; each parsed under every layout of a finite re-encoding group (whitespace x member-order permutations x \\uXXXX escapes of values and keys), twice, auto-detected and with explicit format: ids non-empty and as unique as the input's, closure when the input's references resolve, generated ids identifier-safe and reproducible, equal snapshots across the group. NewNodeIdentifier on every seed string of <=3 symbols x 7 argument forms.",
   note="Trusted: the JSON re-encoder (order-preserving tree) and gen.Canon. One known finding in third-party code (escaped SPDX identifiers).",
   technique="explicit enumeration of generated inputs x a finite re-encoding group with invariant and snapshot-equality oracles",
   design="5/C05"),
})
claimed.update({
 "C06": dict(
   text="Bounded exhaustive exploration of format detection on the real Sniffer and reader: every document over <=2 nodes (edge lists, root subsets, plain and declaration-mentioning attribute texts) x the 4 readable output formats x indents x 8 JSON layouts (declaration first / last / behind a 64 KiB member, compact, indented, reversed, escaped values and keys, leading whitespace): detected format = written format, ParseStream = ParseStreamWithOptions(Format), the parse after detection sees the whole document; the full cube of declaration-member values (7 x 10 x 9, two member orders), every sequence of <=3 tag-value header-line variants (LF/CRLF) and every token string of <=4 (thorough 5) tokens: a format is reported only if its Type/Version/Encoding accessors agree with the declaration read independently from the input, otherwise an error, never a panic; an instrumented ReadSeeker (chunks of 1, 7, 4096 bytes; every pre-position <= 8) must be back at offset 0.",
   note="Trusted: independent declaration reader (encoding/json into a map); tag-value agreement is the weak form stated in evidence.assumptions.",
   technique="explicit enumeration of writer outputs x layouts x seeker variants and of declaration cubes / header lines / token strings",
   design="5/C06"),
})
claimed.update({
 "C18": dict(
   text="Exhaustive enumeration of construction/call histories up to depth 3 over writer.New / reader.New with option sets (quick: 8+5 representative sets, thorough: every subset of the writer's and reader's options), per-call override writes and parses, WriteStream, Store, Retrieve; every history runs from the initial package state in a fresh process; after every step every live instance's observable configuration (format, indent, store/retrieve options, format options) is compared with a struct-copy reference model (documented defaults overlaid with the instance's own constructor options); the format and indent actually used by WriteStream, the options reaching the storage backend and the format options reaching a recording driver are observed too.",
   note="Trusted: the reference model (defaults: indent 4, empty format, NoClobber false, no format options). SerializeOptions/UnserializeOptions are empty structs whose identity is not observable.",
   technique="exhaustive enumeration of short constructor/call histories, one fresh process per history, against a struct-copy model",
   design="5/C18"),
})
claimed.update({
 "C19": dict(
   text="Explicit exploration of the real FileSystem backend in a sandbox directory: all store/retrieve histories of <=3 operations over 8 identifier strings (path separators, dot-dot, absolute path, unicode, 300 characters, empty), 2 (thorough 4) documents and both no-clobber settings from 4 start states of the configured path (exists, missing, nested missing, is a file) against a map[id]doc reference model with confinement by scanning the sandbox, directory usability and error-not-exit (process exit observed through the logrus exit hook, panics and worker deaths attributed); <=1 injected fault (EIO/EACCES/ENOSPC) at every vfs step of the last operation of every history of <=2 operations; every truncation, garbage and directory replacement of a stored entry.",
   note="Trusted: the vfs seam (import rewrite of pkg/storage generated from the current sources; falls back to no fault injection with seam_vfs:false if it cannot be applied) and the map model. Root-only sandbox: usability judged on mode bits.",
   technique="explicit-state search over store/retrieve histories against a map model with exhaustive single-fault injection through a file-system seam",
   design="5/C19"),
 "C20": dict(
   text="Exhaustive crash-point enumeration of the real Store through the vfs seam on real directories: for 6 (thorough 9) histories (first store, overwrite by a larger and by a smaller document, overwrite next to another entry, store into a missing directory, no-clobber store) the storing call is killed before every file-system step and after every byte prefix of every write (process-death model), then a fresh backend retrieves: the complete previous document, the complete new document or an error; a completed store must be retrievable; other entries intact.",
   note="Trusted: the vfs seam's step decomposition (os-level calls; WriteFile = create/truncate, write, close) and the process-death model. Without the seam the check reports exhaustive:false (cap vfs-seam-unavailable).",
   technique="exhaustive crash-point and torn-write enumeration of the real store through a file-system seam",
   design="5/C20"),
})
claimed.update({
 "C17": dict(
   text="Stateless model checking of the implementation under a controlled scheduler: real goroutines run one at a time, scheduling points at every sync operation of pkg/reader, pkg/writer, pkg/formats, pkg/storage and pkg/sbom (import-rewrite overlay generated from the current sources; the shim performs the real operation), depth-first enumeration of every schedule of all 136 unordered pairs of a 16-call alphabet (register/unregister/get on shared and private keys for both registries, constructors with and without options, JSON and tag-value detection, parse and write of private documents) with <=2 preemptions; thorough adds 216 three-thread registry scenarios with unbounded preemptions and 256 two-calls-per-thread scenarios with <=3 preemptions (9.6 million schedules). The binary is race-instrumented with the scheduler's hand-offs hidden from ThreadSanitizer, so any pair of accesses not ordered by the program's own synchronisation is reported in the same serialised, deterministic executions; deadlock = no enabled thread; result vectors must equal those of some sequential order run on the real code; one schedule per scenario is replayed to prove determinism; race reports are confirmed by replaying the schedule in 4 fresh processes.",
   note="Trusted: the vsync shim (each operation = scheduling point + the real sync operation), ThreadSanitizer's happens-before analysis, sequentially consistent interleavings at synchronisation granularity. Falls back to thread-granularity schedules with seam_sync:false if the overlay cannot be applied.",
   technique="stateless model checking: controlled scheduler + preemption-bounded DFS over real goroutines, TSan with hidden hand-offs, sequential-order oracle",
   design="5/C17"),
})
pending = {}
all_ids = ["C%02d" % i for i in range(1, 21)]
# additions after the seeded-change rounds (appended to the level text of each property)
EXTRA = {
 "C01": " Size classes (40-leaf star, depth-20 chain, bushy tree, attribute-rich nodes); every single-deviation document re-run under 5 process-local time zones (the zone is an owned environment answer).",
 "C02": " Size classes; every sequence of 1..3 lifecycle entries over typed and custom entries; every single-deviation document re-run under 5 process-local time zones.",
 "C03": " Size classes; identity attributes under every other node field (by reflection) set to 1..3 generated values on either node x 7 formats.",
 "C04": " Every string-valued member x a 54-entry adversarial content menu and x the near-misses of its own valid value (separator-aligned prefixes and suffixes, short prefixes, doubled, extended, case-flipped).",
 "C07": " Containment shapes: every ordered list of <=3 contains-edge objects with 1..2 ordered targets (self included) over four nodes; a case that does not return within the case deadline is a replayable hang violation.",
 "C08": " Pair histories: two live lists (append-grown slices) + two constant lists, every history of <=3 (thorough 4) operations with either slot as receiver and the other or a constant as argument, no de-duplication, every list of the tuple well-formed after every step.",
 "C09": " Near-version operands: the two versions of the shared node are one single-field deviation apart (reorderings and sub-second changes included), precedence judged on exact snapshots.",
 "C10": " Near-version operands as in C09.",
 "C11": " Identifier value shapes (extra slash, qualifiers+subpath, case, truncated, not a purl) and query arguments derived from the operand's own content.",
 "C12": " Value class empty non-nil map at every nesting level.",
 "C13": " Elements that coincide under a normalisation in every order; all ordered pairs of a near-string menu at every string-valued place of a node and an edge.",
 "C14": " All ordered pairs of a near-string menu (printf verbs, percent escapes, case, blanks, unicode composition, numeric and path spellings) at every string-valued place (nested to depth 2).",
 "C15": " Size classes, all edge types, extraction after extraction and after mutation on the same source object.",
 "C16": " Purls with qualifiers and subpaths that share a prefix; case variants; lookups after mutation; a 40-node list.",
 "C17": " sync/atomic is inside the seam too (vsync/vatomic); the same pairs are also started from the first-use state (lazy initialisation raced by the threads), guarded by a reset-fidelity self-check (each call alone in a new process == after the in-process reset; otherwise the first-use scenarios are skipped and the evidence says so).",
 "C18": " Failing forms of every call kind (missing file, undetectable file, unregistered format, missing directory) with foreign per-call options.",
 "C19": " A store that reports success under an injected fault must really have stored the document; identifier collision pairs; equal-length document pairs; logged-path confinement.",
 "C20": " Recovery histories: every crash state followed, in a new process, by a store (shorter / longer / the same document / another identifier) and a retrieve; the environment with the temporary directory on another file system.",
}
for k, v in EXTRA.items():
    claimed[k]["text"] += v
# map-iteration-order seam
for k in ["C01","C02","C03","C05","C07","C08","C09","C10","C12","C13","C14","C15","C16"]:
    claimed[k]["text"] += " Every case is run under several map iteration orders of the library's own map loops (type-checked overlay rewriting each range over a map; ascending, descending, alternating; thorough: + rotated, alternating-odd) and must hold under each; what the case observes must be the same under all."
EXTRA2 = {
 "C03": " The child also as a FILE node; the identity attributes themselves over the near-string menu.",
 "C04": " Every punctuation character once and doubled at either end of every value.",
 "C05": " References that coincide under trimming or case folding.",
 "C07": " Serialization histories also on live document values (a serializer that edits its input changes what the next one sees).",
 "C08": " Every edge type number (declared and undeclared) pairwise on one source x merging, removal and extraction.",
 "C09": " One list per edge type number (declared and undeclared) in the pair matrix; identifiers that coincide under case folding or trimming.",
 "C10": " Edge-type and near-identifier families as in C09.",
 "C11": " Operands with spare slice capacity and a snapshot of the memory between length and capacity; a well-formed but not normalised operand.",
 "C12": " Timestamp range corners (Go's zero time, maximum, epoch as an empty message).",
 "C13": " Undeclared edge type numbers, pairwise.",
 "C15": " Size classes 300 and 2000 with a thinned depth sweep.",
 "C17": " sync.Pool is inside the seam (deterministic LIFO); a ThreadSanitizer report counts when re-detected at least once in 8 fresh-process replays of its schedule.",
 "C20": " The seam is bound to the implementation: for every crash history the uninstrumented binary runs the same store under strace and the mutating system calls (with byte counts) must equal the seam's mutating steps; a mismatch is recorded as reduced coverage.",
 "C19": " One backend value for a whole history while the directory is removed from outside or Options.Path is re-pointed; relative configured path (working directory) and umask start states.",
}
for k, v in EXTRA2.items():
    claimed[k]["text"] += v
EXTRA3 = {
 "C01": " Date range corners (Go's zero time, -1 s); digest-shaped values in case variants; actor names over the near-string menu.",
 "C02": " The document serial number over the near-string menu.",
 "C04": " Every member the decoders' own Go types accept (by reflection over v2_3.Document and cyclonedx.BOM) that the base documents lack, inserted with a 10-value menu; every small SPDX relationship graph (cycles, no declared root).",
 "C05": " Every small SPDX relationship graph over three elements (cycles, mutual containment, no declared root).",
 "C06": " Documents of 1, 5 and 17 MiB; declaration text of either format inside other string members of the negative cube; a text format reported for a JSON object counts as disagreement.",
 "C07": " Negative enum numbers and keys; every identifier type and hash algorithm at once.",
 "C08": " Removal of identifiers that coincide with present ones under trimming or case folding.",
 "C09": " Operands of 3..515 nodes sharing every identifier in different unsorted orders; edge objects with an empty target list.",
 "C10": " Wide operands and empty-target edges as in C09.",
 "C12": " Lists of 40, 515, 1027 and 2000 nodes under GOMAXPROCS 2, 3 and 16; a copy or result behaves like its own clone under every edit.",
 "C14": " New map keys with an empty value.",
 "C16": " Probes that carry a list node's identifier.",
 "C17": " The read-write lock shim models writer preference (Lock = announce + acquire), so recursive read locks deadlock as at run time; a non-JSON input with a 96 KiB line in the alphabet.",
 "C18": " In-place configuration through the exported Options value; two instances built from one option list with spare capacity; a store through a real file-system backend.",
 "C19": " Documents of 1.5 MiB, 9 MiB and 20000 nodes.",
 "C20": " Two concurrent stores of one identifier: every schedule of their file-system steps with <=2 (thorough 4) preemptions x a kill before every step and inside every write (file-system seam combined with the controlled scheduler).",
}
for k, v in EXTRA3.items():
    claimed[k]["text"] += v
VOCAB = " Value menus are also derived from the vocabulary of the library's CURRENT sources (every string literal of the non-test files under pkg/, extracted at build time): word-like literals as written / lower / upper / title case, and the structural literals (searched for, split on, compared against) embedded in filler and concatenated up to three at a time."
EXTRA4 = {
 "C01": VOCAB + " Text attributes x that vocabulary; node identifiers = every concatenation of <=3 structural tokens that is a valid SPDX idstring, 150 per document.",
 "C02": VOCAB + " Text attributes x that vocabulary; node identifiers = every such concatenation outside the reserved protobom-...-auto namespace, 150 per document.",
 "C03": VOCAB + " Node identifiers = every such concatenation x 7 formats with the plain-JSON census.",
 "C06": " Detection through the file entry points (SniffFile, ParseFile) on one path whose content changes between two calls (rewritten in place / replaced by rename; timestamps pinned to one instant or left to the clock; inputs of equal length in different formats), against SniffReader on the bytes now in the file.",
 "C07": " A fully populated history document (every node field by reflection; packages and a file; persons with e-mail).",
 "C08": " Library nodes that are the same software under two identifiers (equal hash and package URL).",
 "C09": " Two edge objects of 17 / 33 / 65 destinations per list against small lists bringing one destination (present, of the other edge, new and sorting first / among / last).",
 "C10": " The wide-edges family of C09.",
 "C11": VOCAB + " One case per vocabulary value in every string place of every node of a fully populated document, the whole operation table run on it.",
 "C12": " Contact chains nested 1..130 levels (around every power of two) under every copy / union / intersect view, an edit at every level.",
 "C13": " Dates before 1970 with a fraction; nested collections with three entries each (compared within their family in the quick tier); contact chains nested 1..130 levels.",
 "C14": " Dates before 1970 with a fraction; nested collections with three entries each; contact chains nested 1..130 levels.",
 "C15": " Every recursive tree (parent function p(i)<i) on 4..7 (thorough 9) nodes x target order x edge-object order x back edge x roots x starts.",
 "C16": " Lists with repeated node identifiers (nodes are named by position; the rule is asserted whenever the hash-matching nodes carry distinct identifiers).",
 "C17": " Resets return shimmed atomics and sync.Maps to what the library's init functions stored (baseline), so a registry published through an atomic pointer is explored, not crashed.",
 "C18": " Constructors called with unusual option values (nil, zero, negative, huge, empty, repeated), judged on their configuration at birth (two instances built the same way agree), followed by any step and a constructor.",
 "C20": " Start states in which the entry is a symlink to a relocated file, has a second hard link outside the directory, or is a dangling symlink. The seam mirrors the whole os API.",
}
for k, v in EXTRA4.items():
    claimed[k]["text"] += v
AFTER = " After-edit differential histories: the question, an in-place edit of the value (edits that keep count, encoded size or identifiers included), the same question again - the second answer must equal the answer on a fresh copy of the edited value."
EXTRA5 = {
 "C01": " Every text attribute with one value of 70 000 bytes, of 12 000 escaped characters and of 1.1 MB.",
 "C02": " Every text attribute with one value of 70 000 bytes, of 12 000 escaped characters and of 1.1 MB.",
 "C03": " One document value written in two formats in a row (containment shapes with refused targets before accepted ones), the second output judged against the document as built.",
 "C05": " Component references composed from the structural tokens of the sources, on components with nested components.",
 "C06": " 90 KB runs of 2-/3-/4-byte characters shifted by 0..3 bytes (every fixed byte offset falls inside a character in some case) x formats x indents.",
 "C07": " The same document value written in the other format afterwards (containment shapes); all sequences of 2 WriteFile calls on one path, the file against the stream output; output normalisation rejects data after the document.",
 "C08": " Root elements named more than once.",
 "C09": AFTER + " (Union, Add.)",
 "C10": AFTER + " (Intersect.)",
 "C11": " Operands with empty-valued entries in every map and list, and with non-tree containment.",
 "C12": " The copy of every deviated value (duplicated, reordered, emptied, range-corner content) equals it.",
 "C13": AFTER + " (Checksum, Node.Equal, NodeList.Equal.)",
 "C14": AFTER + " (Diff.) Lists and maps of 33 / 65 / 130 entries with one entry changed at the first, a middle and the last position.",
 "C15": " Identifier / type-number collision family (n, n1, n11 x 1, 2, 5, 11, 12, 15).",
 "C16": " Lists of 301, 1027 and 2051 nodes.",
 "C17": " Concurrent writes with render options of their own per thread, judged on a digest of the bytes written.",
 "C19": " Two concurrent store / retrieve calls under the controlled scheduler: file-system steps and the synchronisation operations of pkg/storage (deterministic sync.Pool shim) are scheduling points, every schedule with <=2 (thorough 3) preemptions.",
 "C20": " One injected error followed by a crash: every step of the store x six errors; where the store still touches the file system after the failed step, every crash point of that continuation.",
}
for k, v in EXTRA5.items():
    claimed[k]["text"] += v
EXTRA6 = {
 "C04": " Runs of characters whose case mapping changes their byte length in front of every structural token at every string member.",
 "C05": " The parse histories also on one Reader value through its plain entry point.",
 "C07": " One Writer value whose earlier destination fails after 0 / 1 / 40 / half / all but one bytes, then a good destination.",
 "C08": " Identifiers that are FILE nodes in some argument lists and PACKAGE nodes elsewhere.",
 "C12": " The receiver as its own argument (a.Union(a), a.Intersect(a)), also against a second result of the same call.",
 "C13": " Source literals against their own case variants / padded forms at every string place.",
 "C14": " Source literals against their own case variants / padded forms at every string place.",
 "C15": " Every ordered target list with dangling targets before, between and after existing ones.",
 "C16": " The matching rule under every hash algorithm number (declared and undeclared).",
 "C17": " The registered drivers are wrapped (through the public registration API) so that the writer/driver boundaries are scheduling points; calls on one shared writer value with per-call options; a first-use reset (flags, counters, Once, maps to zero) distinct from the baseline reset.",
}
for k, v in EXTRA6.items():
    claimed[k]["text"] += v
POINTS = " Code-point seam: an overlay inserts a call at every function entry and loop iteration of the library's packages; in the groups that switch it on each is a scheduling point and every schedule with <=1 preemption is run (interleavings INSIDE calls)."
EXTRA7 = {
 "C02": " The numeric document version over the corners of the 32-bit, 53-bit and 64-bit ranges.",
 "C03": " Documents with no or several roots are written to CycloneDX too and judged by the census if the write succeeds.",
 "C04": " Stream behaviours as environment answers (one-byte reads, data with EOF, a failing read, Seek failing always / after a read / the second time) x format detected / stated / stated wrongly.",
 "C05": " Every code point of the Basic Multilingual Plane as an identifier seed.",
 "C07": " Size-class documents (flat 255 / 256 / 257 / 1025 nodes and the shared wide lists) x 8 formats.",
 "C09": " The attribute cube also with empty collections as allocated zero-length values; the receiver as its own argument.",
 "C10": " As C09: allocated-empty collections; the receiver as its own argument.",
 "C11": POINTS + " Used for 72 pairs of serializations of one shared document; an operand whose values are new to the process on every build (warn-once sets and caches meet something unseen every time).",
 "C12": " Lists emptied in place (length 0, capacity kept).",
 "C13": " Node lists of 131 / 515 / 1027 nodes under GOMAXPROCS 2, 3, 4, 16.",
 "C14": " The second node's lists made of the first node's own element objects (prefix, repeated, reversed, next to equal copies).",
 "C15": " All 16 assignments of package / file kinds on chain, fan and diamond.",
 "C16": " Every list member itself as the probe.",
 "C17": POINTS + " Used for the 91 pairs of the parsing / writing / detection calls; a parse of malformed dates new to the process.",
 "C20": " First store of 1.5 MiB and 9 MiB and overwrite by 9 MiB with thinned byte prefixes (0..256, around every power of two, the last three).",
}
for k, v in EXTRA7.items():
    claimed[k]["text"] += v
EXTRA8 = {
 "C02": " Every field of the node schema populated on its own, and all fields CycloneDX cannot express together, while the expressible attributes stay empty.",
 "C03": " Every one- and two-element set of hash algorithm numbers (declared and one undeclared), and all at once, under every explored map order.",
 "C04": " Every member holding a value of one of the closed value sets of the SPDX and CycloneDX libraries (const blocks read from their sources at build time: checksum algorithms, relationship types, component and reference types) takes every other value of that set. Children limit themselves by processor time, not wall time.",
 "C06": " Streams that deliver their last bytes together with io.EOF.",
 "C07": " Every string-valued place of a fully populated document x a menu of contents general-purpose parsers reject (URL, date, number, e-mail, UUID, purl, CPE, path, template) and the structural tokens of the sources x 8 formats.",
 "C09": " Operands with spare capacity in every slice; the result held while the receiver is used in another call, edited by its owner, and computed again.",
 "C10": " As C09: spare capacity; the result edited by its owner and computed again.",
 "C11": " Operands with a document type entry per declared and one undeclared type number, in both orders.",
 "C12": " Ill-formed operands (a node without identifier; one identifier on two node objects).",
 "C15": " Every arrangement of node sequences in which an identifier is carried by two or three node objects, judged as identifier sets.",
 "C17": " The file entry points (WriteFile to names differing in the extension only / the stem only, ParseFile, SniffFile) each with each and with stream calls: whole calls with <=2 preemptions, code points inside with <=1.",
 "C18": " A constructor given a format nobody registered (expected value stated, writes must fail).",
 "C20": " Overwrites of entries that carry other permission bits (0600, 0664, 0444, 0755).",
}
for k, v in EXTRA8.items():
    claimed[k]["text"] += v
EXTRA9 = {
 "C04": " Dense reference graphs (layered with 2^48 paths, complete acyclic, long chains, with and without a cycle) under every SPDX relationship type and as CycloneDX dependencies, each parsed in a child limited to 20 s of processor time.",
 "C06": " The ways a path names the file (direct, symbolic links absolute / relative / chained / to the directory, hard link, relative, dot segments, non-ASCII) and paths that name nothing.",
 "C08": " A list united and intersected with itself (one object on both sides).",
 "C11": " Every subset of the scalar person fields on a supplier / originator x every subset on its contact.",
 "C15": " Edits between extractions that keep the node count (replace, rename in place, replace the object, swap identifiers).",
 "C16": " Purl types as a value class: 28 types (purl-legal punctuation, pattern-language characters, case) x 42 queries.",
 "C18": " Instances built without a backend: the default backend belongs to the instance (its directory set in place on one instance shows on no other).",
 "C19": " Further spellings of the configured directory (trailing separator, doubled separator, ./ prefix).",
}
for k, v in EXTRA9.items():
    claimed[k]["text"] += v
EXTRA10 = {
 "C04": " The log level as an environment answer: every single fault and every pair of absent / null faults at depth <= 2 parsed with the library's logger at trace level.",
 "C06": " Every prefix, at every byte position, of tag-value documents and of the writer's output (inputs cut short).",
 "C10": " Operands in which one identifier is carried by two or three node objects (all ordered pairs of 105 lists).",
 "C11": " The whole operation table on every operand variant once more with the library's logger at trace level.",
 "C15": " Lists with a node whose identifier is empty (every order, edge list, root list and start); the deviation on record for NodeGraph is matched as a known finding, anything else is a violation.",
 "C16": " Probe digests composed of algorithm numbers, separators and the list node's digest, for every ordered pair of algorithm numbers.",
 "C18": " A reader fixed to a format in place against per-call options without format and with another format.",
 "C17": " The sync seam also covers the model package (pkg/sbom, generated code excepted); graph operations on thread-private node lists (RemoveNodes; Union + Intersect; Add + NodeGraph + Copy) each with each: whole calls with <=2 preemptions, code points inside with <=1.",
}
for k, v in EXTRA10.items():
    claimed[k]["text"] += v

checks = []
for pid in all_ids:
    if pid not in claimed: continue
    c = claimed[pid]
    checks.append({
        "property_id": pid,
        "quick_cmd": f"./run check {pid} quick",
        "thorough_cmd": f"./run check {pid} thorough",
        "evidence_file": f"/verif/evidence/{pid}.json",
        "replay_cmd_template": "./run replay {path}",
        "engine": "mcverif",
        "level_claimed": {"category": "model_checking", "text": c["text"], "design_ref": c["design"]},
        "level_note": c["note"],
        "technique": c["technique"],
    })
na = [{"property_id": p, "reason": pending.get(p, "check not built yet in this round (work in progress; see DESIGN.md section 7 build order)")} for p in all_ids if p not in claimed]
m = {
 "version": 1,
 "setup_cmd": "./setup.sh",
 "hooks": {"guard": "verif", "enable": "none needed: all instrumentation is applied with go build -overlay generated at check time from /repo's current sources (no hook commits in /repo)", "baseline_off_cmd": BASE_CMD, "source_commits": [], "add_only": True},
 "engines": [{"name": "mcverif", "path": "/verif/mc", "serves_properties": [c["property_id"] for c in checks], "kind_free_text": "hand-written explicit-state / choice-sequence explorer in Go: deterministic bounded enumeration sharded over single-goroutine worker processes, real implementation executed on every case, Go reference models as oracles"}],
 "checks": checks,
 "not_applicable": na,
 "notes": "All checks: ./run check <id> <tier>. Known findings: /verif/known_findings.json. Seeded breaking changes: /verif/seeded/.",
}
json.dump(m, open("MANIFEST.json", "w"), indent=1)
print("claimed", len(checks), "pending", len(na))
